"""E4: call sites, resolution and who-may-call / who-may-write sweeps."""
from __future__ import annotations

import ast
from typing import Callable, Dict, Iterable, List, Optional, Set, Tuple

from .cfg import attr_path, call_name, call_tail
from .index import ClassInfo, FuncInfo, Index, Module, func_own_nodes, own_nodes


class CallSite:
    __slots__ = ("fn", "call", "tail", "name")

    def __init__(self, fn: FuncInfo, call: ast.Call):
        self.fn = fn
        self.call = call
        self.tail = call_tail(call)
        self.name = call_name(call)

    @property
    def loc(self):
        return self.fn.loc(self.call)

    def __repr__(self):
        return "<call %s in %s at %s>" % (self.name or self.tail, self.fn.qual, self.loc)


class CallGraph:
    def __init__(self, idx: Index):
        self.idx = idx
        self._sites_by_tail: Optional[Dict[str, List[CallSite]]] = None
        self._refs_by_attr: Optional[Dict[str, List[Tuple[FuncInfo, ast.AST]]]] = None
        self._stores_by_attr: Optional[Dict[str, List[Tuple[FuncInfo, ast.AST]]]] = None

    # ---------------------------------------------------------------- sweeps
    # Modules are scanned lazily: a sweep for name X only scans the modules
    # whose source text contains X (a call/attribute named X cannot occur in a
    # module that does not contain the identifier).
    def _scan_module(self, m: Module):
        if m.name in self._scanned:
            return
        self._scanned.add(m.name)
        sites, refs, stores = self._sites_by_tail, self._refs_by_attr, self._stores_by_attr
        for fn in self._funcs_by_module.get(m.name, []):
            callfuncs = set()
            # lambda bodies are included: a call made from a lambda is a call
            # site of the enclosing function for every who-may-call sweep
            nodes = list(func_own_nodes(fn, into_lambda=True))
            for d in getattr(fn.node, "decorator_list", []) or []:
                nodes.extend(own_nodes(d, into_lambda=True))
            for n in nodes:
                if isinstance(n, ast.Call):
                    cs = CallSite(fn, n)
                    sites.setdefault(cs.tail, []).append(cs)
                    callfuncs.add(id(n.func))
            for n in nodes:
                if isinstance(n, ast.Attribute):
                    if isinstance(n.ctx, ast.Load):
                        if id(n) not in callfuncs:
                            refs.setdefault(n.attr, []).append((fn, n))
                    else:
                        stores.setdefault(n.attr, []).append((fn, n))
                elif isinstance(n, ast.Name) and isinstance(n.ctx, ast.Load) and id(n) not in callfuncs:
                    refs.setdefault(n.id, []).append((fn, n))
        # module-level and class-level statements (not function bodies) as a pseudo function
        pf = _module_pseudo(m)

        def scan_stmt(st):
            if isinstance(st, (ast.FunctionDef, ast.AsyncFunctionDef)):
                return            # scanned above as a function (with its decorators)
            if isinstance(st, ast.ClassDef):
                for d in st.decorator_list + st.bases:
                    for x in own_nodes(d, into_lambda=True):
                        if isinstance(x, ast.Call):
                            cs = CallSite(pf, x)
                            sites.setdefault(cs.tail, []).append(cs)
                for sub in st.body:
                    scan_stmt(sub)
                return
            for n in own_nodes(st, into_lambda=True):
                if isinstance(n, (ast.FunctionDef, ast.AsyncFunctionDef, ast.ClassDef)) and n is not st:
                    if isinstance(n, ast.ClassDef):
                        scan_stmt(n)
                    continue
                if isinstance(n, ast.Call):
                    cs = CallSite(pf, n)
                    sites.setdefault(cs.tail, []).append(cs)
                elif isinstance(n, ast.Attribute) and isinstance(n.ctx, ast.Load):
                    refs.setdefault(n.attr, []).append((pf, n))
        for st in m.tree.body:
            scan_stmt(st)

    def _scan(self, name: Optional[str] = None):
        if self._sites_by_tail is None:
            self._sites_by_tail = {}
            self._refs_by_attr = {}
            self._stores_by_attr = {}
            self._scanned = set()
            self._funcs_by_module = {}
            for fn in self.idx.funcs.values():
                self._funcs_by_module.setdefault(fn.module.name, []).append(fn)
        for m in self.idx.modules.values():
            if m.name in self._scanned:
                continue
            if name is None or name in m.source:
                self._scan_module(m)

    def calls_named(self, tail: str) -> List[CallSite]:
        """Every call in the package whose callee's last name component is `tail`."""
        self._scan(tail)
        return list(self._sites_by_tail.get(tail, []))

    def refs_named(self, attr: str) -> List[Tuple[FuncInfo, ast.AST]]:
        """Loads of ``X.attr`` / ``attr`` that are not the callee of a call
        (method values passed as callbacks etc.)."""
        self._scan(attr)
        return list(self._refs_by_attr.get(attr, []))

    def attr_stores(self, attr: str) -> List[Tuple[FuncInfo, ast.AST]]:
        self._scan(attr)
        return list(self._stores_by_attr.get(attr, []))

    def who_may_call(self, tail: str) -> Dict[str, List[CallSite]]:
        out: Dict[str, List[CallSite]] = {}
        for cs in self.calls_named(tail):
            out.setdefault(cs.fn.qual, []).append(cs)
        return out

    # ------------------------------------------------------------ resolution
    def resolve(self, fn: FuncInfo, call: ast.Call) -> List[FuncInfo]:
        """Candidate callees inside the package (possibly empty)."""
        f = call.func
        idx = self.idx
        if isinstance(f, ast.Name):
            # nested def in an enclosing function
            p = fn
            while p is not None:
                if f.id in p.nested:
                    return [p.nested[f.id]]
                p = p.parent
            r = idx.resolve_name(fn.module, f.id)
            return _as_funcs(r)
        if isinstance(f, ast.Attribute):
            if isinstance(f.value, ast.Name) and f.value.id == "self" and fn.cls is not None:
                m = fn.cls.lookup(f.attr)
                res = [m] if m else []
                for sc in idx.subclasses(fn.cls):
                    if f.attr in sc.methods and sc.methods[f.attr] not in res:
                        res.append(sc.methods[f.attr])
                return res
            r = idx.resolve_expr(fn.module, f)
            if r is not None:
                return _as_funcs(r)
            # super().m()
            if isinstance(f.value, ast.Call) and isinstance(f.value.func, ast.Name) \
                    and f.value.func.id == "super" and fn.cls is not None:
                for c in fn.cls.mro()[1:]:
                    if f.attr in c.methods:
                        return [c.methods[f.attr]]
                return []
        return []

    def resolve_by_name(self, call: ast.Call, limit: int = 6) -> List[FuncInfo]:
        t = call_tail(call)
        c = [f for f in self.idx.by_name.get(t, []) if f.cls is not None or f.parent is None]
        return c if len(c) <= limit else []

    def callees(self, fn: FuncInfo, by_name: bool = False) -> List[Tuple[ast.Call, List[FuncInfo]]]:
        out = []
        for n in func_own_nodes(fn):
            if isinstance(n, ast.Call):
                r = self.resolve(fn, n)
                if not r and by_name:
                    r = self.resolve_by_name(n)
                out.append((n, r))
        return out

    def reachable(self, roots: Iterable[FuncInfo], by_name: bool = False, depth: int = 8,
                  include_nested: bool = True) -> Set[str]:
        seen: Set[str] = set()
        frontier = [(r, 0) for r in roots]
        while frontier:
            fn, d = frontier.pop()
            if fn.qual in seen:
                continue
            seen.add(fn.qual)
            if d >= depth:
                continue
            if include_nested:
                for nf in fn.nested.values():
                    frontier.append((nf, d + 1))
            for (_c, targets) in self.callees(fn, by_name=by_name):
                for t in targets:
                    frontier.append((t, d + 1))
            # method values passed as arguments (callbacks)
            for n in func_own_nodes(fn):
                if isinstance(n, ast.Attribute) and isinstance(n.ctx, ast.Load) \
                        and isinstance(n.value, ast.Name) and n.value.id == "self" and fn.cls is not None:
                    m = fn.cls.lookup(n.attr)
                    if m is not None:
                        frontier.append((m, d + 1))
        return seen


def _as_funcs(r) -> List[FuncInfo]:
    if isinstance(r, FuncInfo):
        return [r]
    if isinstance(r, ClassInfo):
        init = r.lookup("__init__")
        return [init] if init else []
    return []


_PSEUDO: Dict[int, FuncInfo] = {}


def _module_pseudo(m: Module) -> FuncInfo:
    pf = _PSEUDO.get(id(m))
    if pf is None:
        node = ast.FunctionDef(name="<module>", args=ast.arguments(posonlyargs=[], args=[], kwonlyargs=[],
                                                                  kw_defaults=[], defaults=[]),
                               body=[], decorator_list=[], lineno=1, col_offset=0)
        pf = FuncInfo(m, node, m.name + ":<module>", None, None)
        _PSEUDO[id(m)] = pf
    return pf


def get_callgraph(idx: Index) -> CallGraph:
    cg = getattr(idx, "_cg", None)
    if cg is None:
        cg = CallGraph(idx)
        idx._cg = cg
    return cg


# ------------------------------------------------------------------ utility
def calls_in_func(fn: FuncInfo, tail: Optional[str] = None, into_lambda: bool = False) -> List[ast.Call]:
    out = []
    for n in func_own_nodes(fn, into_lambda=into_lambda):
        if isinstance(n, ast.Call) and (tail is None or call_tail(n) == tail):
            out.append(n)
    return out


def kwarg(call: ast.Call, name: str) -> Optional[ast.AST]:
    for k in call.keywords:
        if k.arg == name:
            return k.value
    return None


def arg(call: ast.Call, pos: int, name: Optional[str] = None) -> Optional[ast.AST]:
    if pos < len(call.args) and not any(isinstance(a, ast.Starred) for a in call.args[:pos + 1]):
        return call.args[pos]
    if name:
        return kwarg(call, name)
    return None
