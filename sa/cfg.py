"""E1 + E3: statement-level control-flow graph and the CFG x monitor product.

Nodes
  entry / exit (normal return) / raise (exceptional exit)
  stmt   one simple statement (ast.stmt); nested defs are a single 'stmt' node
  test   one atomic condition (compound and/or/not conditions are decomposed by
         short-circuit so that every branch edge carries one predicate + polarity)
  iter   the head of a for loop (ast.For); edges 'iter' (next element) / 'done'
  with   the context-manager expression(s) of a with statement
  except the head of an exception handler (ast.ExceptHandler)

Edge labels
  None             sequencing
  ('T', expr)      condition `expr` evaluated true      ('F', expr) false
  'iter' / 'done'  loop head
  'exc'            exceptional transfer into a handler (or to the raise exit)

assert / precondition(c,..) / _assert(c,..) are *assume* tests: true-edge
continues, false-edge is exceptional.
"""
from __future__ import annotations

import ast
from collections import deque
from typing import Callable, Dict, Iterable, List, Optional, Sequence, Set, Tuple

ASSUME_FUNCS = {"precondition", "_assert", "postcondition"}


class Node:
    __slots__ = ("id", "kind", "ast", "lineno", "assume")

    def __init__(self, id: int, kind: str, a: Optional[ast.AST], lineno: int = 0, assume: bool = False):
        self.id = id
        self.kind = kind
        self.ast = a
        self.lineno = lineno or getattr(a, "lineno", 0)
        self.assume = assume

    def __repr__(self):
        if self.ast is None:
            return "<%s#%d>" % (self.kind, self.id)
        try:
            if self.kind == "iter":
                txt = "for %s in %s" % (ast.unparse(self.ast.target), ast.unparse(self.ast.iter))
            elif self.kind == "with":
                txt = "with " + ", ".join(ast.unparse(i) for i in self.ast.items)
            elif self.kind == "except":
                txt = "except " + (ast.unparse(self.ast.type) if self.ast.type else "")
            elif isinstance(self.ast, (ast.FunctionDef, ast.AsyncFunctionDef, ast.ClassDef)):
                txt = "def " + self.ast.name
            else:
                txt = ast.unparse(self.ast)
        except Exception:
            txt = "?"
        txt = txt.replace("\n", " ")
        if len(txt) > 90:
            txt = txt[:87] + "..."
        return "<%s L%d %s>" % (self.kind, self.lineno, txt)


class CFG:
    def __init__(self, fn=None):
        self.fn = fn
        self.nodes: List[Node] = []
        self.succ: Dict[int, List[Tuple[int, object]]] = {}
        self.pred: Dict[int, List[Tuple[int, object]]] = {}
        self.entry = self._new("entry", None)
        self.exit = self._new("exit", None)
        self.raise_exit = self._new("raise", None)

    def _new(self, kind, a, lineno=0, assume=False) -> Node:
        n = Node(len(self.nodes), kind, a, lineno, assume)
        self.nodes.append(n)
        self.succ[n.id] = []
        self.pred[n.id] = []
        return n

    def edge(self, a: Node, b: Node, label=None):
        for (d, l) in self.succ[a.id]:
            if d == b.id and _lbl_eq(l, label):
                return
        self.succ[a.id].append((b.id, label))
        self.pred[b.id].append((a.id, label))

    def successors(self, n: Node) -> List[Tuple[Node, object]]:
        return [(self.nodes[d], l) for (d, l) in self.succ[n.id]]

    def predecessors(self, n: Node) -> List[Tuple[Node, object]]:
        return [(self.nodes[s], l) for (s, l) in self.pred[n.id]]

    def find(self, pred: Callable[[Node], bool]) -> List[Node]:
        return [n for n in self.nodes if pred(n)]

    def stmt_nodes(self) -> List[Node]:
        return [n for n in self.nodes if n.kind not in ("entry", "exit", "raise")]

    def reachable_nodes(self) -> Set[int]:
        seen = {self.entry.id}
        dq = deque([self.entry.id])
        while dq:
            x = dq.popleft()
            for (d, _l) in self.succ[x]:
                if d not in seen:
                    seen.add(d)
                    dq.append(d)
        return seen

    def dump(self) -> str:
        out = []
        for n in self.nodes:
            out.append("%3d %r" % (n.id, n))
            for (d, l) in self.succ[n.id]:
                ll = l if not isinstance(l, tuple) else l[0]
                out.append("      -%s-> %d" % (ll if ll else "", d))
        return "\n".join(out)


def _lbl_eq(a, b):
    if isinstance(a, tuple) and isinstance(b, tuple):
        return a[0] == b[0] and a[1] is b[1]
    return a == b


# --------------------------------------------------------------------- build
class _Ctx:
    """Where control goes for break / continue / return / raise."""
    __slots__ = ("brk", "cont", "ret", "exc")

    def __init__(self, brk, cont, ret, exc):
        self.brk = brk      # callable(node_from) or None
        self.cont = cont
        self.ret = ret      # callable(from_node, label)
        self.exc = exc      # list of callables(from_node, exc_name|None) -> handled?


class _Builder:
    def __init__(self, fn, exc_match=None):
        self.fn = fn
        self.g = CFG(fn)
        self.exc_match = exc_match or _default_exc_match

    # frontier = list of (node, label) dangling edges to connect to the next node
    def connect(self, frontier, node):
        for (n, l) in frontier:
            self.g.edge(n, node, l)

    def build(self):
        g = self.g
        ctx = _Ctx(None, None,
                   lambda fr: self.connect(fr, g.exit),
                   [lambda fr, name: (self.connect(fr, g.raise_exit), True)[1]])
        out = self.block(self.fn.body, [(g.entry, None)], ctx)
        self.connect(out, g.exit)
        return g

    def raise_to(self, frontier, name, ctx):
        """Route an exceptional transfer through the handler stack."""
        for h in reversed(ctx.exc):
            if h(frontier, name):
                return

    def block(self, stmts: Sequence[ast.stmt], frontier, ctx) -> list:
        for st in stmts:
            if not frontier:
                # unreachable code: still build it (detached) so nodes exist
                pass
            frontier = self.stmt(st, frontier, ctx)
        return frontier

    def cond(self, e: ast.AST, frontier, ctx, assume=False):
        """Decompose a condition; returns (true_frontier, false_frontier)."""
        if isinstance(e, ast.BoolOp):
            if isinstance(e.op, ast.And):
                falses = []
                cur = frontier
                for v in e.values:
                    t, f = self.cond(v, cur, ctx, assume)
                    falses += f
                    cur = t
                return cur, falses
            else:
                trues = []
                cur = frontier
                for v in e.values:
                    t, f = self.cond(v, cur, ctx, assume)
                    trues += t
                    cur = f
                return trues, cur
        if isinstance(e, ast.UnaryOp) and isinstance(e.op, ast.Not):
            t, f = self.cond(e.operand, frontier, ctx, assume)
            return f, t
        n = self.g._new("test", e, getattr(e, "lineno", 0), assume)
        self.connect(frontier, n)
        self.may_raise(n, ctx)
        return [(n, ("T", e))], [(n, ("F", e))]

    def may_raise(self, n: Node, ctx):
        """Inside a try body every statement may transfer to the handlers."""
        if len(ctx.exc) > 1:
            self.raise_to([(n, "exc")], None, ctx)

    def stmt(self, st: ast.stmt, frontier, ctx) -> list:
        g = self.g
        if isinstance(st, ast.If):
            t, f = self.cond(st.test, frontier, ctx)
            out = self.block(st.body, t, ctx)
            out2 = self.block(st.orelse, f, ctx) if st.orelse else f
            return out + out2
        if isinstance(st, ast.While):
            head = g._new("stmt", ast.Pass(lineno=st.lineno, col_offset=0), st.lineno)
            self.connect(frontier, head)
            t, f = self.cond(st.test, [(head, None)], ctx)
            brk: list = []
            lctx = _Ctx(lambda fr: brk.extend(fr), lambda fr: self.connect(fr, head), ctx.ret, ctx.exc)
            body_out = self.block(st.body, t, lctx)
            self.connect(body_out, head)
            out = self.block(st.orelse, f, ctx) if st.orelse else f
            return out + brk
        if isinstance(st, (ast.For, ast.AsyncFor)):
            head = g._new("iter", st, st.lineno)
            self.connect(frontier, head)
            self.may_raise(head, ctx)
            brk = []
            lctx = _Ctx(lambda fr: brk.extend(fr), lambda fr: self.connect(fr, head), ctx.ret, ctx.exc)
            body_out = self.block(st.body, [(head, "iter")], lctx)
            self.connect(body_out, head)
            done = [(head, "done")]
            out = self.block(st.orelse, done, ctx) if st.orelse else done
            return out + brk
        if isinstance(st, (ast.With, ast.AsyncWith)):
            n = g._new("with", st, st.lineno)
            self.connect(frontier, n)
            self.may_raise(n, ctx)
            return self.block(st.body, [(n, None)], ctx)
        if isinstance(st, ast.Try) or st.__class__.__name__ == "TryStar":
            return self.try_(st, frontier, ctx)
        if isinstance(st, ast.Return):
            n = g._new("stmt", st)
            self.connect(frontier, n)
            self.may_raise(n, ctx)
            ctx.ret([(n, None)])
            return []
        if isinstance(st, ast.Raise):
            n = g._new("stmt", st)
            self.connect(frontier, n)
            name = _exc_name(st.exc)
            self.raise_to([(n, "exc")], name, ctx)
            return []
        if isinstance(st, ast.Break):
            n = g._new("stmt", st)
            self.connect(frontier, n)
            if ctx.brk:
                ctx.brk([(n, None)])
            return []
        if isinstance(st, ast.Continue):
            n = g._new("stmt", st)
            self.connect(frontier, n)
            if ctx.cont:
                ctx.cont([(n, None)])
            return []
        if isinstance(st, ast.Assert):
            t, f = self.cond(st.test, frontier, ctx, assume=True)
            self.raise_to(f, "AssertionError", ctx)
            return t
        if isinstance(st, ast.Expr) and isinstance(st.value, ast.Call) \
                and _call_tail(st.value) in ASSUME_FUNCS and st.value.args:
            t, f = self.cond(st.value.args[0], frontier, ctx, assume=True)
            self.raise_to(f, "AssertionError", ctx)
            return t
        if st.__class__.__name__ == "Match":
            # not used by the package; model conservatively as a branch to each case
            n = g._new("stmt", ast.Expr(value=st.subject, lineno=st.lineno, col_offset=0), st.lineno)
            self.connect(frontier, n)
            outs = [(n, None)]
            for case in st.cases:
                outs += self.block(case.body, [(n, None)], ctx)
            return outs
        # simple statement (incl. nested def / class as a single node)
        n = g._new("stmt", st)
        self.connect(frontier, n)
        self.may_raise(n, ctx)
        return [(n, None)]

    def try_(self, st, frontier, ctx):
        g = self.g
        has_finally = bool(st.finalbody)
        outer = ctx
        after: list = []

        # One copy of the finally body per exit kind (normal / exc / return /
        # break / continue), each entered through a join node, so the paths
        # of different exit kinds are never merged.
        copies: Dict[str, Node] = {}

        def through_finally(kind, fr, then):
            if not has_finally:
                then(fr)
                return
            if kind not in copies:
                join = g._new("stmt", ast.Pass(lineno=st.finalbody[0].lineno, col_offset=0),
                              st.finalbody[0].lineno)
                copies[kind] = join
                out = self.block(st.finalbody, [(join, None)], outer)
                then(out)
            self.connect(fr, copies[kind])

        if has_finally:
            fctx = _Ctx(
                (lambda fr: through_finally("brk", fr, outer.brk)) if outer.brk else None,
                (lambda fr: through_finally("cont", fr, outer.cont)) if outer.cont else None,
                lambda fr: through_finally("ret", fr, outer.ret),
                outer.exc + [lambda fr, name: (through_finally("exc", fr, lambda o: self.raise_to(
                    [(x, "exc") for (x, _l) in o], None, outer)), True)[1]],
            )
        else:
            fctx = outer

        handlers = []
        for h in st.handlers:
            hn = g._new("except", h, h.lineno)
            handlers.append((h, hn))

        def to_handlers(fr, name):
            """Returns True when the exception is certainly caught here."""
            for (h, hn) in handlers:
                m = self.exc_match(name, h.type)
                if m is False:
                    continue
                self.connect(fr, hn)
                if m is True:
                    return True
            return False

        body_ctx = _Ctx(fctx.brk, fctx.cont, fctx.ret, fctx.exc + [to_handlers])
        body_out = self.block(st.body, frontier, body_ctx)
        # else-clause runs outside the handlers' protection
        if st.orelse:
            body_out = self.block(st.orelse, body_out, fctx)
        through_finally("normal", body_out, lambda o: after.extend(o))
        for (h, hn) in handlers:
            h_out = self.block(h.body, [(hn, None)], fctx)
            through_finally("normal", h_out, lambda o: after.extend(o))
        return after


def _exc_name(e: Optional[ast.AST]) -> Optional[str]:
    if e is None:
        return None   # bare re-raise: unknown
    if isinstance(e, ast.Call):
        e = e.func
    if isinstance(e, ast.Name):
        return e.id
    if isinstance(e, ast.Attribute):
        return e.attr
    return None


def _handler_names(t: Optional[ast.AST]) -> Optional[List[str]]:
    if t is None:
        return None
    elts = t.elts if isinstance(t, ast.Tuple) else [t]
    out = []
    for e in elts:
        if isinstance(e, ast.Name):
            out.append(e.id)
        elif isinstance(e, ast.Attribute):
            out.append(e.attr)
        else:
            out.append("?")
    return out


_EXC_PARENTS: Dict[str, Set[str]] = {}


def set_exception_hierarchy(parents: Dict[str, Set[str]]):
    """name -> set of all ancestor class names (filled from the Index)."""
    _EXC_PARENTS.clear()
    _EXC_PARENTS.update(parents)


_BUILTIN_PARENTS = {
    "AssertionError": {"Exception", "BaseException"},
    "KeyError": {"LookupError", "Exception", "BaseException"},
    "IndexError": {"LookupError", "Exception", "BaseException"},
    "ValueError": {"Exception", "BaseException"},
    "TypeError": {"Exception", "BaseException"},
    "AttributeError": {"Exception", "BaseException"},
    "OSError": {"Exception", "BaseException", "EnvironmentError", "IOError"},
    "IOError": {"Exception", "BaseException", "EnvironmentError", "OSError"},
    "EnvironmentError": {"Exception", "BaseException", "OSError", "IOError"},
    "StopIteration": {"Exception", "BaseException"},
    "RuntimeError": {"Exception", "BaseException"},
    "NotImplementedError": {"RuntimeError", "Exception", "BaseException"},
    "UnicodeDecodeError": {"UnicodeError", "ValueError", "Exception", "BaseException"},
    "UnicodeEncodeError": {"UnicodeError", "ValueError", "Exception", "BaseException"},
    "Exception": {"BaseException"},
}


def _default_exc_match(name: Optional[str], htype: Optional[ast.AST]):
    """True = certainly caught, False = certainly not, None = may be."""
    hn = _handler_names(htype)
    if hn is None:
        return True
    if "BaseException" in hn:
        return True
    if name is None:
        return None
    if name in hn:
        return True
    parents = _EXC_PARENTS.get(name) or _BUILTIN_PARENTS.get(name)
    if parents is not None:
        if parents & set(hn):
            return True
        if "Exception" in hn:
            return True
        if "?" in hn:
            return None
        return False
    if "Exception" in hn:
        return True   # every exception class raised in this package derives from Exception
    return None


def _call_tail(c: ast.Call) -> str:
    f = c.func
    if isinstance(f, ast.Name):
        return f.id
    if isinstance(f, ast.Attribute):
        return f.attr
    return ""


def build(fn) -> CFG:
    return _Builder(fn).build()


def build_from_body(body: Sequence[ast.stmt]) -> CFG:
    class _F:
        pass
    f = _F()
    f.body = list(body)
    return _Builder(f).build()


# ------------------------------------------------------------------- queries
def node_exprs(n: Node) -> List[ast.AST]:
    """The expressions evaluated *at* this node (not the bodies it controls)."""
    a = n.ast
    if a is None:
        return []
    if n.kind == "iter":
        return [a.iter]
    if n.kind == "with":
        return [i.context_expr for i in a.items]
    if n.kind == "except":
        return [a.type] if a.type is not None else []
    if isinstance(a, (ast.FunctionDef, ast.AsyncFunctionDef)):
        return list(a.decorator_list)
    if isinstance(a, ast.ClassDef):
        return []
    return [a]


def node_calls(n: Node, into_lambda: bool = False) -> List[ast.Call]:
    from .index import own_nodes
    out = []
    for e in node_exprs(n):
        for x in own_nodes(e, into_lambda=into_lambda):
            if isinstance(x, ast.Call):
                out.append(x)
    return out


def node_stores(n: Node) -> Set[str]:
    """Names / attribute paths (``self.x``, ``a.b``) stored at this node.
    A subscript store ``x[i] = v`` counts as a store to ``x[]``."""
    out: Set[str] = set()
    a = n.ast
    if a is None:
        return out
    targets: List[ast.AST] = []
    if n.kind == "iter":
        targets = [a.target]
    elif n.kind == "with":
        targets = [i.optional_vars for i in a.items if i.optional_vars is not None]
    elif n.kind == "except":
        if a.name:
            out.add(a.name)
        return out
    elif isinstance(a, ast.Assign):
        targets = list(a.targets)
    elif isinstance(a, (ast.AugAssign, ast.AnnAssign)):
        targets = [a.target]
    elif isinstance(a, ast.Delete):
        targets = list(a.targets)
    elif isinstance(a, (ast.FunctionDef, ast.AsyncFunctionDef, ast.ClassDef)):
        out.add(a.name)
        return out
    elif isinstance(a, (ast.Import, ast.ImportFrom)):
        for al in a.names:
            out.add((al.asname or al.name).split(".")[0])
        return out
    # walrus
    from .index import own_nodes
    for e in node_exprs(n):
        for x in own_nodes(e):
            if isinstance(x, ast.NamedExpr) and isinstance(x.target, ast.Name):
                out.add(x.target.id)

    def add(t):
        if isinstance(t, (ast.Tuple, ast.List)):
            for e in t.elts:
                add(e)
        elif isinstance(t, ast.Starred):
            add(t.value)
        elif isinstance(t, ast.Name):
            out.add(t.id)
        elif isinstance(t, ast.Attribute):
            p = attr_path(t)
            if p:
                out.add(p)
        elif isinstance(t, ast.Subscript):
            p = attr_path(t.value)
            if p:
                out.add(p + "[]")
    for t in targets:
        add(t)
    return out


def attr_path(e: ast.AST) -> Optional[str]:
    parts = []
    while isinstance(e, ast.Attribute):
        parts.append(e.attr)
        e = e.value
    if isinstance(e, ast.Name):
        parts.append(e.id)
        return ".".join(reversed(parts))
    return None


def call_name(c: ast.Call) -> str:
    """Dotted name of the callee where it is a name / attribute path, else ''.
    ``foo(x).bar(y)`` gives ``().bar``."""
    f = c.func
    if isinstance(f, ast.Name):
        return f.id
    if isinstance(f, ast.Attribute):
        p = attr_path(f)
        if p:
            return p
        return "()." + f.attr
    return ""


def call_tail(c: ast.Call) -> str:
    return _call_tail(c)


# ------------------------------------------------------- product exploration
class Witness:
    def __init__(self, path: List[Tuple[Node, object]]):
        self.path = path

    def lines(self) -> List[str]:
        out = []
        for (n, l) in self.path:
            if n.kind in ("entry",):
                continue
            lab = ""
            if isinstance(l, tuple):
                lab = " [%s]" % l[0]
            elif l:
                lab = " [%s]" % l
            out.append("L%d%s %s" % (n.lineno, lab, repr(n)))
        return out

    def brief(self, limit: int = 14) -> str:
        ls = []
        for (n, l) in self.path:
            if n.kind in ("entry", "exit", "raise"):
                if n.kind != "entry":
                    ls.append(n.kind)
                continue
            s = "L%d" % n.lineno
            if isinstance(l, tuple):
                s += l[0]
            elif l in ("exc", "iter", "done"):
                s += "/" + l
            ls.append(s)
        if len(ls) > limit:
            ls = ls[: limit // 2] + ["..."] + ls[-limit // 2:]
        return " -> ".join(ls)


def explore(cfg: CFG, init, transfer: Callable, start: Optional[Node] = None,
            max_states: int = 200000):
    """Breadth-first exploration of the product (node, state).

    transfer(node, label, next_node, state) -> new state, or None to prune the
    edge.  `state` must be hashable.  Returns (visited, parent) where visited
    is the set of (node_id, state) reached *on entry to the node* and parent
    maps each product state to (prev product state, label).
    """
    s0 = ((start or cfg.entry).id, init)
    visited = {s0}
    parent: Dict[tuple, Optional[tuple]] = {s0: None}
    dq = deque([s0])
    while dq:
        cur = dq.popleft()
        nid, state = cur
        n = cfg.nodes[nid]
        for (d, lab) in cfg.succ[nid]:
            ns = transfer(n, lab, cfg.nodes[d], state)
            if ns is None:
                continue
            nxt = (d, ns)
            if nxt not in visited:
                visited.add(nxt)
                parent[nxt] = (cur, lab)
                dq.append(nxt)
                if len(visited) > max_states:
                    from .index import AnalysisError
                    raise AnalysisError("state explosion in %s" % (cfg.fn.qual if cfg.fn else "?"))
    return visited, parent


def witness(cfg: CFG, parent, pstate) -> Witness:
    path = []
    cur = pstate
    lab_out = None
    while cur is not None:
        p = parent[cur]
        path.append((cfg.nodes[cur[0]], lab_out))
        if p is None:
            break
        cur, lab_out = p
    path.reverse()
    # labels: shift so that each entry carries the label of the edge *leaving* it
    return Witness(path)


def find_path_avoiding(cfg: CFG, targets: Callable[[Node], bool],
                       gate_node: Optional[Callable[[Node], bool]] = None,
                       gate_edge: Optional[Callable[[Node, object], bool]] = None,
                       start: Optional[Node] = None,
                       kill: Optional[Callable[[Node], bool]] = None,
                       skip_exc_edges: bool = False):
    """Must-precede: look for a path from `start` (default entry) to a node
    satisfying `targets` on which no gate was passed (or the gate fact was
    killed afterwards).  Returns a list of (target node, Witness) - empty when
    the rule holds.  A gate node counts as passed when the node is *left* by a
    non-exceptional edge; a gate edge is (node, label)."""
    def transfer(n, lab, nxt, st):
        if skip_exc_edges and lab == "exc":
            return None
        held = st
        if n.kind in ("entry", "exit", "raise"):
            return held
        if held and kill is not None and kill(n):
            held = False
        if gate_node is not None and lab != "exc" and gate_node(n):
            held = True
        if gate_edge is not None and gate_edge(n, lab):
            held = True
        return held
    visited, parent = explore(cfg, False, transfer, start=start)
    out = []
    seen_t = set()
    for (nid, st) in sorted(visited, key=lambda x: (x[0], x[1])):
        n = cfg.nodes[nid]
        if n.kind in ("entry", "exit", "raise") and not targets(n):
            continue
        if not st and targets(n) and nid not in seen_t:
            seen_t.add(nid)
            out.append((n, witness(cfg, parent, (nid, st))))
    return out


def find_path_from_to_avoiding(cfg: CFG, starts: Callable[[Node], bool],
                               gate_node: Callable[[Node], bool],
                               ends: Optional[Callable[[Node], bool]] = None,
                               follow_exc: bool = False,
                               start_label: Optional[Callable[[object], bool]] = None):
    """Must-follow: after each node satisfying `starts`, every path to an end
    (default: the normal exit) passes a node satisfying `gate_node`.  Returns
    a list of (start node, Witness) for paths that reach an end without one."""
    if ends is None:
        ends = lambda n: n.kind == "exit"
    out = []
    for s in cfg.stmt_nodes():
        if not starts(s):
            continue
        if s.id not in cfg.reachable_nodes():
            continue

        def transfer(n, lab, nxt, st, _s=s):
            if lab == "exc" and not follow_exc:
                return None
            if n is _s and start_label is not None and not start_label(lab):
                return None
            if n is not _s and gate_node(n):
                return None      # path satisfied; stop exploring it
            return 0
        visited, parent = explore(cfg, 0, transfer, start=s)
        for (nid, st) in sorted(visited):
            n = cfg.nodes[nid]
            if n is not s and ends(n) and not gate_node(n):
                out.append((s, witness(cfg, parent, (nid, st))))
                break
    return out


# ------------------------------------------------------ reaching definitions
PARAM_DEF = -1


def reaching_defs(cfg: CFG) -> Dict[int, Dict[str, frozenset]]:
    """IN sets: node id -> {local name -> frozenset of defining node ids}
    (PARAM_DEF for the value on function entry).  Only plain names."""
    fn = cfg.fn
    init: Dict[str, frozenset] = {}
    for p in getattr(fn, "params", []) or []:
        init[p] = frozenset([PARAM_DEF])
    IN: Dict[int, Dict[str, frozenset]] = {cfg.entry.id: init}
    gens: Dict[int, Set[str]] = {}
    for n in cfg.nodes:
        gens[n.id] = {s for s in node_stores(n) if "." not in s and not s.endswith("[]")}
    work = deque([cfg.entry.id])
    while work:
        nid = work.popleft()
        cur = IN.get(nid, {})
        out = dict(cur)
        for name in gens[nid]:
            out[name] = frozenset([nid])
        for (d, lab) in cfg.succ[nid]:
            # a for-loop target is bound only on the 'iter' edge
            eff = out
            if cfg.nodes[nid].kind == "iter" and lab != "iter":
                eff = dict(cur)
            old = IN.get(d)
            if old is None:
                IN[d] = dict(eff)
                work.append(d)
            else:
                changed = False
                for k, v in eff.items():
                    ov = old.get(k)
                    if ov is None:
                        old[k] = v
                        changed = True
                    elif not v <= ov:
                        old[k] = ov | v
                        changed = True
                if changed:
                    work.append(d)
    return IN
