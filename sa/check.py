"""Driver: ``python -m sa.check Cxx [--tier quick|thorough]``.

Exit codes: 0 property's decided clauses hold (KNOWN-FINDING lines allowed);
1 + ``VIOLATION property=Cxx replay=<path>``; 2 + ``ANALYSIS-ERROR`` when the
analysis itself could not be carried out (vanished anchor, vacuous rule,
internal error) - never a silent pass.
"""
from __future__ import annotations

import argparse
import importlib
import json
import os
import sys
import time
import traceback

from . import index as _index
from .index import AnalysisError
from .rule import VERIF, Context, known_keys, load_known


def run_property(prop: str, tier: str, idx=None, selftest: bool = True):
    """Runs the rules of one property; returns the Context."""
    mod = importlib.import_module("sa.rules.%s" % prop)
    if idx is None:
        idx = _index.get_index()
    from . import cfg as _cfg
    _cfg.set_exception_hierarchy(_exception_parents(idx))
    ctx = Context(prop, idx, tier)
    mod.run(ctx)
    return ctx, mod


def _exception_parents(idx):
    out = {}
    for ci in idx.classes.values():
        names = set()
        for c in ci.mro()[1:]:
            names.add(c.name)
        for c in ci.mro():
            names.update(c.opaque_bases)
        if names & {"Exception", "BaseException"} or any(n.endswith("Error") or n.endswith("Exception") for n in names):
            names.update({"Exception", "BaseException"})
            out.setdefault(ci.name, set()).update(names)
    return out


def main(argv=None):
    ap = argparse.ArgumentParser()
    ap.add_argument("prop")
    ap.add_argument("--tier", default=os.environ.get("VERIF_TIER", "quick"), choices=["quick", "thorough"])
    ap.add_argument("--no-evidence", action="store_true")
    ap.add_argument("--no-selftest", action="store_true")
    ap.add_argument("--json", action="store_true", help="print machine-readable verdict (self-test use)")
    args = ap.parse_args(argv)
    prop = args.prop
    t0 = time.time()
    seed = int(os.environ.get("VERIF_SEED", "0") or 0)
    try:
        ctx, mod = run_property(prop, args.tier)
        selftest_res = None
        sweep_res = None
        benign_res = None
        if args.tier == "thorough" and not args.no_selftest:
            from .selftest import runner
            selftest_res = runner.run_for(prop, jobs=int(os.environ.get("SA_JOBS", "16")))
            if not ctx.analysis_errors:
                from .selftest import automut
                sweep_res = automut.sweep(prop, max_edits=int(os.environ.get("SA_SWEEP_MAX", "240")),
                                          jobs=int(os.environ.get("SA_JOBS", "16")), seed=seed)
                from .selftest import benignmut
                benign_res = benignmut.sweep(prop, max_edits=int(os.environ.get("SA_BENIGN_MAX", "160")),
                                             jobs=int(os.environ.get("SA_JOBS", "16")), seed=seed)
    except AnalysisError as e:
        print("ANALYSIS-ERROR property=%s %s" % (prop, e))
        return 2
    except Exception:
        traceback.print_exc()
        print("ANALYSIS-ERROR property=%s internal error (see traceback)" % prop)
        return 2

    known = known_keys(load_known())
    viols = ctx.violations()
    if ctx.analysis_errors and not [v for v in viols if v.key() not in known]:
        for e in ctx.analysis_errors:
            print("ANALYSIS-ERROR property=%s %s" % (prop, e))
        return 2
    for e in ctx.analysis_errors:
        ctx.note("analysis error in a rule (a violation found by another rule takes precedence): " + e)
        print("note: analysis error alongside violations: %s" % e[:300])
    new = []
    for v in viols:
        k = known.get(v.key())
        if k is not None:
            v.known = True
            print("KNOWN-FINDING: property=%s rule=%s construct=%s %s" % (prop, v.rule, v.construct, k.get("what", v.msg)))
        else:
            new.append(v)

    wall = time.time() - t0
    idx = ctx.idx
    n_oblig = sum(max(1, len(r.sites)) for r in ctx.rules)
    n_viol_sites = len(viols)
    samples = []
    for r in ctx.rules:
        samples.append({"rule": r.id, "kind": r.kind, "statement": r.desc,
                        "sites": r.sites[:6], "n_sites": len(r.sites),
                        "detail": r.samples[:3], "violations": len(r.violations)})
    explanation = getattr(mod, "EXPLANATION", "")
    cov = {
        "explanation": explanation,
        "obligations": n_oblig,
        "discharged": n_oblig - n_viol_sites if n_oblig >= n_viol_sites else 0,
        "evaluations": max(1, sum(r.states for r in ctx.rules) + n_oblig),
        "distinct_nontrivial": sum(1 for r in ctx.rules if r.sites),
        "rule": "one evaluation = one obligation site checked or one CFGxmonitor product state explored; "
                "a rule instance is non-trivial when it matched at least one site in the current tree "
                "(a rule that matches fewer sites than confirmed by hand aborts the run with ANALYSIS-ERROR)",
        "samples": samples,
        "rule_instances": len(ctx.rules),
        "product_states": sum(r.states for r in ctx.rules),
        "units_analysed": idx.stats(),
        "checker_cmd": "/venv/bin/python -m sa.check %s --tier %s" % (prop, args.tier),
        "trusted_base": ["CPython ast", "sa engine (CFG, normaliser, call graph)", "rule tables in sa/rules/%s.py" % prop],
        "known_findings_reported": [v.to_json() for v in viols if v.known],
        "notes": ctx.notes,
        "exhaustive": True,
    }
    if selftest_res is not None:
        cov["selftest"] = selftest_res
    if sweep_res is not None:
        sweep_res["survivors"] = sweep_res["survivors"][:60]
        sweep_res["note"] = ("systematic single-point AST edits of the anchored functions; a surviving edit is not "
                             "necessarily a property violation - the sweep measures how much of the anchored code the "
                             "rules constrain")
        cov["mutation_sweep"] = sweep_res
        cov["evaluations"] += sweep_res["edits_run"]
    if benign_res is not None:
        benign_res["false_alarms"] = benign_res["false_alarms"][:40]
        benign_res["analysis_errors"] = benign_res["analysis_errors"][:40]
        benign_res["note"] = ("behaviour-preserving single-point rewrites of the anchored functions (mirrored comparisons, "
                              "swapped branches, renamed locals, hoisted returns, ...); every one must leave the check "
                              "silent - a 'false-alarm' here is a defect of a rule, never of the code")
        cov["robustness_sweep"] = benign_res
        cov["evaluations"] += benign_res["edits_run"]
    ev = {
        "property_id": prop,
        "tier": args.tier,
        "seed": seed,
        "level": "other",
        "coverage": cov,
        "assumptions": getattr(mod, "ASSUMPTIONS", []) + [
            "call resolution is name/MRO based (no type checker available)",
            "only the decided (structural) clauses are asserted; undecided clauses are listed in the explanation",
        ],
        "wall_s": round(wall, 3),
        "violations": len(new),
    }
    if not args.no_evidence:
        os.makedirs(os.path.join(VERIF, "evidence"), exist_ok=True)
        with open(os.path.join(VERIF, "evidence", "%s.json" % prop), "w") as f:
            json.dump(ev, f, indent=1, sort_keys=True, default=str)

    print("%s %s: %d rule instances, %d obligation sites, %d product states, %d modules / %d functions analysed, %.2fs" % (
        prop, args.tier, len(ctx.rules), n_oblig, cov["product_states"],
        idx.stats()["modules"], idx.stats()["functions"], wall))
    if args.json:
        print("JSON-VERDICT " + json.dumps({"violations": [v.to_json() for v in new],
                                           "known": [v.to_json() for v in viols if v.known]}))
    st_fail = False
    if sweep_res is not None:
        print("mutation sweep: %d edits of %d anchored functions: %s" % (
            sweep_res["edits_run"], len(sweep_res["anchored_functions"]), json.dumps(sweep_res["result"])))
    if benign_res is not None:
        print("robustness sweep: %d behaviour-preserving rewrites: %s" % (benign_res["edits_run"], json.dumps(benign_res["result"])))
        for x in benign_res["false_alarms"][:10]:
            print("ROBUSTNESS-FALSE-ALARM %s" % x[:300])
    if selftest_res is not None:
        print("selftest: breaking fired %d/%d, benign silent %d/%d, skipped %d" % (
            selftest_res["breaking_fired"], selftest_res["breaking_total"],
            selftest_res["benign_silent"], selftest_res["benign_total"], selftest_res["skipped"]))
        if selftest_res["failures"]:
            for fl in selftest_res["failures"]:
                print("SELFTEST-FAILURE " + fl)
            st_fail = True
    if new:
        rdir = os.path.join(VERIF, "evidence", "replay")
        os.makedirs(rdir, exist_ok=True)
        rpath = os.path.join(rdir, "%s.json" % prop)
        if not args.no_evidence:
            with open(rpath, "w") as f:
                json.dump([v.to_json() for v in new], f, indent=1)
        for v in new:
            print("  rule=%s construct=%s at %s: %s" % (v.rule, v.construct, v.loc, v.msg))
            for ln in v.witness[:30]:
                print("      " + ln)
        print("VIOLATION property=%s replay=%s" % (prop, rpath))
        return 1
    if st_fail:
        # The self-test validates the checker against edits of the *pinned* tree;
        # on an edited /repo a variant may legitimately behave differently, so a
        # self-test failure is reported (and recorded in the evidence) but never
        # turns into an alarm about the code.  `python -m sa.selftest.all` is the
        # strict form used while developing the checks.
        print("note: self-test of the checker reported failures (see SELFTEST-FAILURE lines)")
    return 0


if __name__ == "__main__":
    sys.exit(main())
