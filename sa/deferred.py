"""E7: syntactic model of Twisted Deferred callback chains inside one function."""
from __future__ import annotations

import ast
from typing import List, Optional

from .cfg import attr_path
from .index import FuncInfo, func_own_nodes

REG = {"addCallback": "cb", "addErrback": "eb", "addBoth": "both", "addCallbacks": "pair"}


class Registration:
    __slots__ = ("kind", "target", "errtarget", "args", "call", "lineno", "recv")

    def __init__(self, kind, target, errtarget, args, call, recv):
        self.kind = kind          # cb / eb / both / pair
        self.target = target      # ast of the callable
        self.errtarget = errtarget
        self.args = args          # extra positional args
        self.call = call
        self.lineno = call.lineno
        self.recv = recv          # receiver path ("d", "self._d") or "" for chained

    def target_name(self) -> str:
        t = self.target
        if isinstance(t, ast.Name):
            return t.id
        if isinstance(t, ast.Attribute):
            return attr_path(t) or ("()." + t.attr)
        if isinstance(t, ast.Lambda):
            return "<lambda>"
        return ast.unparse(t)

    def __repr__(self):
        return "<%s %s L%d>" % (self.kind, self.target_name(), self.lineno)


def _unchain(call: ast.Call):
    """``x.addCallback(a).addErrback(b)`` -> (base expr, [call_a, call_b])."""
    chain = []
    cur = call
    while isinstance(cur, ast.Call) and isinstance(cur.func, ast.Attribute) and cur.func.attr in REG:
        chain.append(cur)
        cur = cur.func.value
    chain.reverse()
    return cur, chain


def registrations(fn: FuncInfo, var: Optional[str] = None) -> List[Registration]:
    """Ordered callback registrations in `fn` (source order).  With `var`, only
    those on that Deferred variable / attribute path, including chains that
    start from it and chains assigned to it (``d = f().addCallback(..)``)."""
    out: List[Registration] = []
    done = set()
    nodes = [n for n in func_own_nodes(fn) if isinstance(n, ast.Call)]
    nodes.sort(key=lambda n: (n.end_lineno or n.lineno, n.end_col_offset or 0))
    # outermost calls of each chain
    inner = set()
    for n in nodes:
        if isinstance(n.func, ast.Attribute) and n.func.attr in REG:
            v = n.func.value
            if isinstance(v, ast.Call) and isinstance(v.func, ast.Attribute) and v.func.attr in REG:
                inner.add(id(v))
    assigned = {}
    for st in func_own_nodes(fn):
        if isinstance(st, ast.Assign) and len(st.targets) == 1:
            p = attr_path(st.targets[0])
            if p and isinstance(st.value, ast.Call):
                assigned[id(st.value)] = p
    for n in nodes:
        if not (isinstance(n.func, ast.Attribute) and n.func.attr in REG) or id(n) in inner:
            continue
        base, chain = _unchain(n)
        recv = attr_path(base) or assigned.get(id(n), "")
        if not attr_path(base) and id(n) in assigned:
            recv = assigned[id(n)]
        for c in chain:
            kind = REG[c.func.attr]
            tgt = c.args[0] if c.args else None
            err = None
            extra = c.args[1:]
            if kind == "pair":
                err = c.args[1] if len(c.args) > 1 else None
                extra = []
            if tgt is None:
                continue
            out.append(Registration(kind, tgt, err, extra, c, recv))
    out.sort(key=lambda r: (r.call.func.end_lineno or r.lineno, r.call.func.end_col_offset or 0))
    if var is not None:
        out = [r for r in out if r.recv == var]
    return out
