"""E6: intra-procedural depends-on (def-use closure), extended through resolved
calls by parameter -> return summaries on request."""
from __future__ import annotations

import ast
from typing import Dict, List, Optional, Set

from .cfg import attr_path
from .index import FuncInfo, func_own_nodes, own_nodes
from .index import aug_value


def def_exprs(fn: FuncInfo) -> Dict[str, List[ast.AST]]:
    """name -> every expression whose value may flow into the name inside fn
    (assignments, augmented assignments, loop iterables, with-items, walrus)."""
    out: Dict[str, List[ast.AST]] = {}

    def bind(t, v):
        if v is None:
            return
        if isinstance(t, ast.Name):
            out.setdefault(t.id, []).append(v)
        elif isinstance(t, (ast.Tuple, ast.List)):
            if isinstance(v, (ast.Tuple, ast.List)) and len(v.elts) == len(t.elts):
                for tt, vv in zip(t.elts, v.elts):
                    bind(tt, vv)
            else:
                for tt in t.elts:
                    bind(tt, v)
        elif isinstance(t, ast.Starred):
            bind(t.value, v)
        elif isinstance(t, ast.Attribute):
            p = attr_path(t)
            if p:
                out.setdefault(p, []).append(v)
        elif isinstance(t, ast.Subscript):
            p = attr_path(t.value)
            if p:
                out.setdefault(p, []).append(v)
                out.setdefault(p, []).append(t.slice)

    for n in func_own_nodes(fn):
        if isinstance(n, ast.Assign):
            for t in n.targets:
                bind(t, n.value)
        elif isinstance(n, ast.AnnAssign) and n.value is not None:
            bind(n.target, n.value)
        elif isinstance(n, ast.AugAssign):
            bind(n.target, aug_value(n))
        elif isinstance(n, (ast.For, ast.AsyncFor)):
            bind(n.target, n.iter)
        elif isinstance(n, ast.comprehension):
            bind(n.target, n.iter)
        elif isinstance(n, (ast.With, ast.AsyncWith)):
            for it in n.items:
                if it.optional_vars is not None:
                    bind(it.optional_vars, it.context_expr)
        elif isinstance(n, ast.NamedExpr):
            bind(n.target, n.value)
        elif isinstance(n, ast.Call) and isinstance(n.func, ast.Attribute) \
                and n.func.attr in ("append", "add", "update", "extend", "insert", "setdefault", "write"):
            p = attr_path(n.func.value)
            if p:
                for a in n.args:
                    out.setdefault(p, []).append(a)
    return out


def leaves(e: ast.AST) -> Set[str]:
    """Names and maximal attribute paths read by an expression (into lambdas)."""
    out: Set[str] = set()
    skip = set()
    for n in own_nodes(e, into_lambda=True):
        if id(n) in skip:
            continue
        if isinstance(n, ast.Attribute):
            p = attr_path(n)
            if p:
                out.add(p)
                x = n
                while isinstance(x, ast.Attribute):
                    skip.add(id(x.value))
                    x = x.value
        elif isinstance(n, ast.Name):
            out.add(n.id)
    return out


def depends_on(fn: FuncInfo, e: ast.AST, depth: int = 8, defs: Optional[Dict[str, List[ast.AST]]] = None) -> Set[str]:
    """Transitive closure of the names/attribute paths the value of `e` may
    depend on inside `fn`.  Every intermediate name is included as well."""
    if defs is None:
        defs = def_exprs(fn)
    seen: Set[str] = set()
    work = [(l, 0) for l in leaves(e)]
    while work:
        name, d = work.pop()
        if name in seen:
            continue
        seen.add(name)
        # prefixes of attribute paths (a.b.c depends on a.b and a)
        if "." in name:
            work.append((name.rsplit(".", 1)[0], d))
        if d >= depth:
            continue
        for v in defs.get(name, []):
            for l in leaves(v):
                work.append((l, d + 1))
    return seen


def calls_feeding(fn: FuncInfo, e: ast.AST, depth: int = 8) -> List[ast.Call]:
    """Every call expression in the def-use closure of `e` inside `fn`."""
    defs = def_exprs(fn)
    seen: Set[str] = set()
    out: List[ast.Call] = []
    seen_calls = set()

    def scan(x: ast.AST, d: int):
        for n in own_nodes(x, into_lambda=True):
            if isinstance(n, ast.Call) and id(n) not in seen_calls:
                seen_calls.add(id(n))
                out.append(n)
        if d >= depth:
            return
        for l in leaves(x):
            if l in seen:
                continue
            seen.add(l)
            for v in defs.get(l, []):
                scan(v, d + 1)
    scan(e, 0)
    return out
