"""Helpers shared by rule files (thin wrappers over the engine)."""
from __future__ import annotations

import ast
import re
from typing import Callable, Iterable, List, Optional, Sequence, Set, Tuple

from . import cfg as C
from .callgraph import CallSite, arg, calls_in_func, get_callgraph, kwarg
from .cfg import (CFG, Node, attr_path, call_name, call_tail, explore, find_path_avoiding,
                  find_path_from_to_avoiding, node_calls, node_exprs, node_stores, witness)
from .deferred import registrations
from .flow import calls_feeding, def_exprs, depends_on, leaves
from .index import AnalysisError, AnchorVanished, ClassInfo, FuncInfo, Index, func_own_nodes, own_nodes, read_repo_text
from .index import aug_value
from .norm import FlowNorm, Env, Normaliser, Poly, all_defs, norm, norm_plain, norm_src, parse_expr, unique_defs
from .rule import Context, RuleInstance
from .tables import (NotConstant, get_folder, percent_tokens, regex_ast, regex_end_anchor, regex_finite_language,
                     regex_literal_prefix, regex_starts_anchored, struct_fields, struct_value_count)


def N(fn: Optional[FuncInfo] = None, rename=None, depth: int = 4, extra=None) -> Normaliser:
    return Normaliser(Env(fn, extra=extra, rename=rename, depth=depth))


# ----------------------------------------------------------- node predicates
def has_call(tail: str, arg_pred: Optional[Callable[[ast.Call], bool]] = None,
             into_lambda: bool = False) -> Callable[[Node], bool]:
    """Node predicate: the node evaluates a call whose callee's last name is `tail`."""
    tails = {tail} if isinstance(tail, str) else set(tail)

    def p(n: Node) -> bool:
        for c in node_calls(n, into_lambda=into_lambda):
            if call_tail(c) in tails and (arg_pred is None or arg_pred(c)):
                return True
        return False
    return p


def has_call_named(name: str) -> Callable[[Node], bool]:
    """Full dotted callee name, e.g. ``self._node.process_blocks``."""
    def p(n: Node) -> bool:
        return any(call_name(c) == name for c in node_calls(n))
    return p


def calls_at(n: Node, tail: str) -> List[ast.Call]:
    return [c for c in node_calls(n) if call_tail(c) == tail]


def stores(path: str) -> Callable[[Node], bool]:
    def p(n: Node) -> bool:
        return path in node_stores(n)
    return p


def stores_any(paths: Iterable[str]) -> Callable[[Node], bool]:
    ps = set(paths)

    def p(n: Node) -> bool:
        return bool(ps & node_stores(n))
    return p


def is_return(n: Node) -> bool:
    return n.kind == "stmt" and isinstance(n.ast, ast.Return)


def is_raise(n: Node) -> bool:
    return n.kind == "stmt" and isinstance(n.ast, ast.Raise)


def raises(name: str) -> Callable[[Node], bool]:
    def p(n: Node) -> bool:
        if not is_raise(n):
            return False
        e = n.ast.exc
        if isinstance(e, ast.Call):
            e = e.func
        return (isinstance(e, ast.Name) and e.id == name) or (isinstance(e, ast.Attribute) and e.attr == name)
    return p


def returns_const(value) -> Callable[[Node], bool]:
    def p(n: Node) -> bool:
        return is_return(n) and isinstance(n.ast.value, ast.Constant) and n.ast.value.value is value
    return p


def stored_value(n: Node, target: str) -> Optional[ast.AST]:
    """Like assign_value, and for an augmented assignment `T op= E` the synthetic expression `T op E`."""
    a = n.ast
    if n.kind == "stmt" and isinstance(a, ast.AugAssign) and attr_path(a.target) == target:
        return aug_value(a)
    return assign_value(n, target)


def assign_value(n: Node, target: str) -> Optional[ast.AST]:
    """The value expression assigned to `target` (name or attr path) at node n (plain assignments only)."""
    a = n.ast
    if n.kind == "stmt" and isinstance(a, ast.Assign):
        for t in a.targets:
            if attr_path(t) == target:
                return a.value
            if isinstance(t, (ast.Tuple, ast.List)) and isinstance(a.value, (ast.Tuple, ast.List)) \
                    and len(t.elts) == len(a.value.elts):
                for tt, vv in zip(t.elts, a.value.elts):
                    if attr_path(tt) == target:
                        return vv
    if n.kind == "stmt" and isinstance(a, ast.AnnAssign) and attr_path(a.target) == target:
        return a.value
    return None


# ------------------------------------------------------------ edge predicates
def edge_fact(norm: Normaliser, pred: Callable[[str, str, Optional[str]], bool]) -> Callable[[Node, object], bool]:
    """Gate-edge predicate.  `pred(op, lhs, rhs)` is evaluated on the canonical
    comparison that holds when the edge is taken (polarity applied)."""
    def g(n: Node, lab) -> bool:
        if n.kind != "test" or not isinstance(lab, tuple):
            return False
        op, l, r = norm.cmp(n.ast, lab[0] == "T")
        return bool(pred(op, l, r))
    return g


def fact_on_edge(norm: Normaliser, n: Node, lab):
    if n.kind != "test" or not isinstance(lab, tuple):
        return None
    return norm.cmp(n.ast, lab[0] == "T")


def truthy(expr_pred: Callable[[str], bool]):
    """pred for edge_fact: the expression matching expr_pred is known truthy."""
    return lambda op, l, r: op == "truth" and expr_pred(l)


def falsy(expr_pred: Callable[[str], bool]):
    return lambda op, l, r: op == "false" and expr_pred(l)


def any_of(*preds):
    return lambda *a: any(p(*a) for p in preds)


# ---------------------------------------------------------------- who-may-X
def callers_outside(idx: Index, tail: str, allowed: Iterable[str],
                    recv_filter: Optional[Callable[[CallSite], bool]] = None,
                    include_refs: bool = True) -> Tuple[List[CallSite], List[Tuple[FuncInfo, ast.AST]], int]:
    """Call sites (and bare references) of name `tail` outside the allowed
    functions.  `allowed` entries are qualified names; a prefix match on the
    qualified name admits nested functions of an allowed function."""
    cg = get_callgraph(idx)
    allowed = [a if a.startswith("allmydata") else "allmydata." + a for a in allowed]

    def ok(q: str) -> bool:
        return any(q == a or q.startswith(a + ".") for a in allowed)
    bad = []
    total = 0
    for cs in cg.calls_named(tail):
        if recv_filter is not None and not recv_filter(cs):
            continue
        total += 1
        if not ok(cs.fn.qual):
            bad.append(cs)
    badrefs = []
    if include_refs:
        for (fn, node) in cg.refs_named(tail):
            if isinstance(node, ast.Name):
                continue   # plain names: local variables, not method values
            total += 1
            if not ok(fn.qual):
                badrefs.append((fn, node))
    return bad, badrefs, total


def method_quals(ci: ClassInfo) -> List[str]:
    return [f.qual for f in ci.methods.values()]


def short(fn: FuncInfo) -> str:
    return fn.qual.split(":", 1)[1]


def src(fn: FuncInfo, node: ast.AST) -> str:
    try:
        return " ".join(ast.unparse(node).split())[:120]
    except Exception:
        return "?"


def first_positional_params(fn: FuncInfo) -> List[str]:
    ps = fn.params
    if ps and ps[0] in ("self", "cls"):
        ps = ps[1:]
    return ps


def dict_literal_keys(e: ast.AST) -> Optional[List]:
    if isinstance(e, ast.Dict):
        out = []
        for k in e.keys:
            if isinstance(k, ast.Constant):
                out.append(k.value)
            else:
                out.append(None)
        return out
    return None


def names_in(e: ast.AST) -> Set[str]:
    return {n.id for n in own_nodes(e, into_lambda=True) if isinstance(n, ast.Name)}


def contains_call(e: ast.AST, tail: str) -> List[ast.Call]:
    return [n for n in own_nodes(e, into_lambda=True) if isinstance(n, ast.Call) and call_tail(n) == tail]
