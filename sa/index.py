"""E0: loader / index of the package under analysis.

Parses every non-test module under <repo>/src/allmydata with ``ast`` (nothing is
imported or executed) and builds module / class / function tables.  Anchor
lookups are fail-closed: asking for a function or class that no longer exists
raises AnchorVanished, which the driver turns into ``ANALYSIS-ERROR`` (exit 2).
"""
from __future__ import annotations

import ast
import os
import sys
from typing import Dict, Iterator, List, Optional, Tuple

REPO = os.environ.get("SA_REPO", "/repo")
PKG = "allmydata"

# Overlay used by the self-test only: {repo-relative path: replacement file}.
# The registered checks never set it; they read /repo's working tree.
_OVERLAY: Dict[str, str] = {}
if os.environ.get("SA_OVERLAY"):
    import json as _json
    with open(os.environ["SA_OVERLAY"]) as _f:
        _OVERLAY.update(_json.load(_f))


def set_overlay(ov: Dict[str, str]):
    _OVERLAY.clear()
    _OVERLAY.update(ov)


def read_repo_text(rel: str, repo: Optional[str] = None) -> str:
    """Read a file of the repository (source, docs) honouring the overlay."""
    path = _OVERLAY.get(rel) or os.path.join(repo or REPO, rel)
    try:
        with open(path, "r", encoding="utf-8") as f:
            return f.read()
    except OSError as e:
        raise AnchorVanished("repository file %s not readable: %s" % (rel, e))


_PARSE_CACHE: Dict[tuple, tuple] = {}


def _parse_cached(path: str):
    st = os.stat(path)
    key = (path, st.st_mtime_ns, st.st_size)
    hit = _PARSE_CACHE.get(key)
    if hit is None:
        with open(path, "r", encoding="utf-8") as f:
            src = f.read()
        hit = (src, canonicalise(ast.parse(src, filename=path)))
        _PARSE_CACHE[key] = hit
    return hit


# ---------------------------------------------------------------------------
# canonical form of the parsed program
#
# Every rule sees the source through this behaviour-preserving normalisation, so that three
# innocent spellings never change a verdict (they were the cause of nearly all false alarms of
# the behaviour-preserving rewrite sweep, sa.selftest.benignmut):
#   * `x = E; return x` with x used nowhere else in the function   ->  `return E`
#   * a `pass` statement next to other statements                   ->  dropped
#   * `not (not C)` in a truth-value position (if/while/assert/conditional-expression test,
#     operand of not/and/or)                                        ->  `C`
#   * `x = x + E` / `self.a = self.a - E` (same place on both sides, + - *)  ->  `x += E` (rules treat an
#     augmented assignment as a read and a store of the place, which is what both spellings are)
# Node positions of what remains are untouched, so reports still name the real lines.

_STMT_LISTS = ("body", "orelse", "finalbody")
_SCOPES = (ast.FunctionDef, ast.AsyncFunctionDef)


def _strip_not_not(e: ast.AST) -> ast.AST:
    while isinstance(e, ast.UnaryOp) and isinstance(e.op, ast.Not) and isinstance(e.operand, ast.UnaryOp) \
            and isinstance(e.operand.op, ast.Not):
        e = e.operand.operand
    return e


class _TruthPositions(ast.NodeTransformer):
    def _t(self, node, field):
        setattr(node, field, _strip_not_not(getattr(node, field)))

    def visit_If(self, node):
        self._t(node, "test")
        return self.generic_visit(node)

    visit_While = visit_IfExp = visit_Assert = visit_If

    def visit_UnaryOp(self, node):
        if isinstance(node.op, ast.Not):
            node.operand = _strip_not_not(node.operand)
        return self.generic_visit(node)

    def visit_BoolOp(self, node):
        node.values = [_strip_not_not(v) for v in node.values]
        return self.generic_visit(node)


def _name_uses(fn: ast.AST) -> Dict[str, int]:
    uses: Dict[str, int] = {}
    for n in ast.walk(fn):
        if isinstance(n, ast.Name):
            uses[n.id] = uses.get(n.id, 0) + 1
        elif isinstance(n, ast.arg):
            uses[n.arg] = uses.get(n.arg, 0) + 2          # parameters are never inlined
        elif isinstance(n, (ast.Global, ast.Nonlocal)):
            for x in n.names:
                uses[x] = uses.get(x, 0) + 2
    return uses


def _canon_stmts(stmts: List[ast.stmt], uses: Optional[Dict[str, int]]) -> List[ast.stmt]:
    if len(stmts) > 1:
        kept = [s for s in stmts if not isinstance(s, ast.Pass)]
        stmts = kept or stmts[:1]
    out: List[ast.stmt] = []
    i = 0
    while i < len(stmts):
        s = stmts[i]
        nxt = stmts[i + 1] if i + 1 < len(stmts) else None
        if uses is not None and isinstance(s, ast.Assign) and len(s.targets) == 1 and isinstance(s.targets[0], ast.Name) \
                and isinstance(nxt, ast.Return) and isinstance(nxt.value, ast.Name) \
                and nxt.value.id == s.targets[0].id and uses.get(nxt.value.id, 0) == 2:
            out.append(ast.copy_location(ast.Return(value=s.value), nxt))
            i += 2
            continue
        if isinstance(s, ast.Assign) and len(s.targets) == 1 and isinstance(s.targets[0], (ast.Name, ast.Attribute)) \
                and isinstance(s.value, ast.BinOp) and isinstance(s.value.op, (ast.Add, ast.Sub, ast.Mult)) \
                and _same_place(s.targets[0], s.value.left):
            s = ast.copy_location(ast.AugAssign(target=s.targets[0], op=s.value.op, value=s.value.right), s)
        out.append(s)
        i += 1
    return out


def aug_value(aug: ast.AugAssign) -> ast.BinOp:
    """The value an augmented assignment stores, as an expression: `T op= E` stores `T op E`.
    One synthetic node per statement (cached on it), positioned at the statement."""
    v = getattr(aug, "_sa_value", None)
    if v is None:
        import copy
        left = copy.deepcopy(aug.target)
        for x in ast.walk(left):
            if hasattr(x, "ctx"):
                x.ctx = ast.Load()
        v = ast.copy_location(ast.BinOp(left=left, op=aug.op, right=aug.value), aug)
        ast.fix_missing_locations(v)
        aug._sa_value = v
    return v


def _same_place(target: ast.AST, expr: ast.AST) -> bool:
    """`target` (Store) and `expr` (Load) name the same variable / attribute of a plain name."""
    if isinstance(target, ast.Name):
        return isinstance(expr, ast.Name) and expr.id == target.id
    if isinstance(target, ast.Attribute):
        return isinstance(expr, ast.Attribute) and expr.attr == target.attr and isinstance(target.value, ast.Name) \
            and isinstance(expr.value, ast.Name) and expr.value.id == target.value.id
    return False


def _canon_node(node: ast.AST, uses: Optional[Dict[str, int]]):
    if isinstance(node, _SCOPES):
        uses = _name_uses(node)
    elif isinstance(node, ast.ClassDef):
        uses = None
    for field in _STMT_LISTS:
        v = getattr(node, field, None)
        if isinstance(v, list) and v and isinstance(v[0], ast.stmt):
            setattr(node, field, _canon_stmts(v, uses))
    for h in getattr(node, "handlers", []) or []:
        h.body = _canon_stmts(h.body, uses)
    for c in getattr(node, "cases", []) or []:
        c.body = _canon_stmts(c.body, uses)
    for ch in ast.iter_child_nodes(node):
        _canon_node(ch, uses)


def canonicalise(tree: ast.Module) -> ast.Module:
    if os.environ.get("SA_NO_CANON"):
        return tree
    _TruthPositions().visit(tree)
    _canon_node(tree, None)
    return tree


class AnalysisError(Exception):
    """The analysis itself cannot proceed (never a verdict about the code)."""


class AnchorVanished(AnalysisError):
    pass


class Module:
    def __init__(self, name: str, path: str, source: str, tree: ast.Module):
        self.name = name
        self.path = path
        self.relpath = os.path.relpath(path, REPO) if path.startswith(REPO) else path
        self.source = source
        self.tree = tree
        self.lines = source.splitlines()
        # import alias table: local name -> dotted target ("allmydata.util.hashutil"
        # or "allmydata.util.hashutil.block_hash")
        self.imports: Dict[str, str] = {}
        self.funcs: Dict[str, "FuncInfo"] = {}     # top-level functions
        self.classes: Dict[str, "ClassInfo"] = {}  # top-level classes
        self.assigns: Dict[str, List[ast.AST]] = {}  # module-level NAME = expr

    def seg(self, node: ast.AST) -> str:
        return ast.get_source_segment(self.source, node) or ""


class ClassInfo:
    def __init__(self, module: Module, node: ast.ClassDef, qual: str):
        self.module = module
        self.node = node
        self.name = node.name
        self.qual = qual                      # "allmydata.mod:Class"
        self.methods: Dict[str, "FuncInfo"] = {}
        self.base_exprs = list(node.bases)
        self.bases: List["ClassInfo"] = []    # resolved inside the package
        self.opaque_bases: List[str] = []     # unresolved (external) base names
        self.attrs: Dict[str, List[ast.AST]] = {}  # class-level NAME = expr

    def mro(self) -> List["ClassInfo"]:
        # linearisation good enough for method lookup (depth-first, left to
        # right, duplicates removed keeping the last occurrence as in C3 for the
        # diamond shapes that occur in this package)
        out: List[ClassInfo] = []

        def walk(c: "ClassInfo"):
            out.append(c)
            for b in c.bases:
                walk(b)
        walk(self)
        seen = set()
        res = []
        for c in reversed(out):
            if c.qual not in seen:
                seen.add(c.qual)
                res.append(c)
        res.reverse()
        # keep self first
        res.remove(self)
        return [self] + res

    def lookup(self, name: str) -> Optional["FuncInfo"]:
        for c in self.mro():
            if name in c.methods:
                return c.methods[name]
        return None

    def lookup_attr(self, name: str) -> Optional[ast.AST]:
        for c in self.mro():
            if name in c.attrs:
                return c.attrs[name][-1]
        return None

    def is_subclass_of(self, other_name: str) -> bool:
        for c in self.mro():
            if c.name == other_name:
                return True
            if other_name in c.opaque_bases:
                return True
        return False

    def __repr__(self):
        return "<class %s>" % self.qual


class FuncInfo:
    def __init__(self, module: Module, node, qual: str, cls: Optional[ClassInfo],
                 parent: Optional["FuncInfo"]):
        self.module = module
        self.node = node            # FunctionDef / AsyncFunctionDef / Lambda
        self.qual = qual            # "allmydata.mod:Class.meth.inner"
        self.cls = cls              # enclosing class (also for nested functions)
        self.parent = parent        # enclosing function for nested defs
        self.name = getattr(node, "name", "<lambda>")
        self.nested: Dict[str, "FuncInfo"] = {}
        self._cfg = None

    @property
    def lineno(self) -> int:
        return self.node.lineno

    @property
    def params(self) -> List[str]:
        a = self.node.args
        names = [x.arg for x in getattr(a, "posonlyargs", [])] + [x.arg for x in a.args]
        if a.vararg:
            names.append(a.vararg.arg)
        names += [x.arg for x in a.kwonlyargs]
        if a.kwarg:
            names.append(a.kwarg.arg)
        return names

    @property
    def body(self) -> List[ast.stmt]:
        if isinstance(self.node, ast.Lambda):
            return [ast.Return(value=self.node.body, lineno=self.node.lineno,
                               col_offset=self.node.col_offset)]
        return self.node.body

    def cfg(self):
        if self._cfg is None:
            from . import cfg as _cfg
            self._cfg = _cfg.build(self)
        return self._cfg

    def loc(self, node: Optional[ast.AST] = None) -> str:
        ln = getattr(node, "lineno", None) if node is not None else self.lineno
        return "%s:%s" % (self.module.relpath, ln)

    def decorators(self) -> List[ast.AST]:
        return list(getattr(self.node, "decorator_list", []))

    def __repr__(self):
        return "<func %s>" % self.qual


def own_nodes(root: ast.AST, into_lambda: bool = False) -> Iterator[ast.AST]:
    """Walk an AST without descending into nested function/class definitions
    (and, by default, lambda bodies): those run at another time.  The nested
    def/lambda node itself is yielded (it binds a name / is a value); the root
    is always descended."""
    stack = [root]
    while stack:
        n = stack.pop()
        yield n
        for c in reversed(list(ast.iter_child_nodes(n))):
            if isinstance(c, (ast.FunctionDef, ast.AsyncFunctionDef, ast.ClassDef)):
                yield c
                continue
            if isinstance(c, ast.Lambda) and not into_lambda:
                yield c
                continue
            stack.append(c)


def _walk_imports(tree):
    """Import statements anywhere in the module (statement positions only)."""
    stack = list(tree.body)
    while stack:
        n = stack.pop()
        if isinstance(n, (ast.Import, ast.ImportFrom)):
            yield n
            continue
        for field in ("body", "orelse", "finalbody", "handlers"):
            sub = getattr(n, field, None)
            if isinstance(sub, list):
                stack.extend(x for x in sub if isinstance(x, (ast.stmt, ast.ExceptHandler)))


def func_own_nodes(fn: "FuncInfo", into_lambda: bool = False) -> Iterator[ast.AST]:
    for st in fn.body:
        if isinstance(st, (ast.FunctionDef, ast.AsyncFunctionDef, ast.ClassDef)):
            yield st          # a nested definition: binds a name, body runs later
            continue
        for n in own_nodes(st, into_lambda=into_lambda):
            yield n


class Index:
    def __init__(self, repo: str = None, include_windows: bool = False):
        self.repo = repo or REPO
        self.modules: Dict[str, Module] = {}
        self.funcs: Dict[str, FuncInfo] = {}
        self.classes: Dict[str, ClassInfo] = {}
        self.by_name: Dict[str, List[FuncInfo]] = {}
        self.class_by_name: Dict[str, List[ClassInfo]] = {}
        self.parse_failures: List[str] = []
        self._load(include_windows)
        self._resolve_bases()

    # ------------------------------------------------------------------ load
    def _load(self, include_windows: bool):
        root = os.path.join(self.repo, "src", PKG)
        if not os.path.isdir(root):
            raise AnalysisError("package root not found: %s" % root)
        for dirpath, dirnames, filenames in os.walk(root):
            dirnames[:] = sorted(d for d in dirnames if d not in ("test", "__pycache__"))
            for fn in sorted(filenames):
                if not fn.endswith(".py"):
                    continue
                path = os.path.join(dirpath, fn)
                rel = os.path.relpath(path, os.path.join(self.repo, "src"))
                name = rel[:-3].replace(os.sep, ".")
                if name.endswith(".__init__"):
                    name = name[: -len(".__init__")]
                relrepo = os.path.relpath(path, self.repo)
                real = _OVERLAY.get(relrepo, path)
                try:
                    src, tree = _parse_cached(real)
                except (SyntaxError, UnicodeDecodeError, OSError) as e:
                    self.parse_failures.append("%s: %s" % (path, e))
                    continue
                m = Module(name, path, src, tree)
                self.modules[name] = m
                self._index_module(m)
        if self.parse_failures:
            raise AnalysisError("unparseable modules: %s" % "; ".join(self.parse_failures))

    def _index_module(self, m: Module):
        pkg_parts = m.name.split(".")
        is_pkg = m.path.endswith("__init__.py")
        for node in _walk_imports(m.tree):
            if isinstance(node, ast.Import):
                for a in node.names:
                    if a.asname:
                        m.imports[a.asname] = a.name
                    else:
                        m.imports[a.name.split(".")[0]] = a.name.split(".")[0]
            elif isinstance(node, ast.ImportFrom):
                if node.level:
                    base = pkg_parts if is_pkg else pkg_parts[:-1]
                    base = base[: len(base) - (node.level - 1)]
                    modname = ".".join(base + ([node.module] if node.module else []))
                else:
                    modname = node.module or ""
                for a in node.names:
                    m.imports[a.asname or a.name] = modname + "." + a.name
        for st in m.tree.body:
            self._index_stmt(m, st, None, None, m.name + ":")
        # also module-level statements nested in if/try (e.g. conditional defs)
        for st in m.tree.body:
            if isinstance(st, (ast.If, ast.Try)):
                for sub in ast.walk(st):
                    if sub is st:
                        continue
                    if isinstance(sub, (ast.FunctionDef, ast.AsyncFunctionDef, ast.ClassDef)):
                        # only direct (not nested in def/class) ones
                        pass
        for st in m.tree.body:
            if isinstance(st, ast.Assign):
                for t in st.targets:
                    if isinstance(t, ast.Name):
                        m.assigns.setdefault(t.id, []).append(st.value)
                    elif isinstance(t, ast.Tuple) and isinstance(st.value, ast.Tuple) \
                            and len(t.elts) == len(st.value.elts):
                        for tt, vv in zip(t.elts, st.value.elts):
                            if isinstance(tt, ast.Name):
                                m.assigns.setdefault(tt.id, []).append(vv)
            elif isinstance(st, ast.AnnAssign) and isinstance(st.target, ast.Name) and st.value is not None:
                m.assigns.setdefault(st.target.id, []).append(st.value)

    def _index_stmt(self, m: Module, st, cls: Optional[ClassInfo], parent: Optional[FuncInfo], prefix: str):
        if isinstance(st, (ast.FunctionDef, ast.AsyncFunctionDef)):
            qual = prefix + st.name
            if qual in self.funcs:
                # redefinition (e.g. property setter, conditional def): keep
                # both; the later one gets a numeric suffix
                k = 2
                while "%s#%d" % (qual, k) in self.funcs:
                    k += 1
                qual = "%s#%d" % (qual, k)
            fi = FuncInfo(m, st, qual, cls, parent)
            self.funcs[qual] = fi
            self.by_name.setdefault(st.name, []).append(fi)
            if parent is not None:
                parent.nested.setdefault(st.name, fi)
            elif cls is not None:
                cls.methods.setdefault(st.name, fi)
            else:
                m.funcs.setdefault(st.name, fi)
            self._index_body(m, st.body, cls, fi, qual + ".")
        elif isinstance(st, ast.ClassDef):
            qual = prefix + st.name
            ci = ClassInfo(m, st, qual)
            self.classes[qual] = ci
            self.class_by_name.setdefault(st.name, []).append(ci)
            if cls is None and parent is None:
                m.classes[st.name] = ci
            for sub in st.body:
                if isinstance(sub, ast.Assign):
                    for t in sub.targets:
                        if isinstance(t, ast.Name):
                            ci.attrs.setdefault(t.id, []).append(sub.value)
                elif isinstance(sub, ast.AnnAssign) and isinstance(sub.target, ast.Name) and sub.value is not None:
                    ci.attrs.setdefault(sub.target.id, []).append(sub.value)
                self._index_stmt(m, sub, ci, None, qual + ".")
        elif isinstance(st, (ast.If, ast.Try, ast.With, ast.For, ast.While)):
            # conditional definitions
            for field in ("body", "orelse", "finalbody"):
                for sub in getattr(st, field, []) or []:
                    self._index_stmt(m, sub, cls, parent, prefix)
            for h in getattr(st, "handlers", []) or []:
                for sub in h.body:
                    self._index_stmt(m, sub, cls, parent, prefix)

    def _index_body(self, m, body, cls, parent, prefix):
        for st in body:
            self._index_stmt(m, st, cls, parent, prefix)

    def lambda_func(self, parent: FuncInfo, node: ast.Lambda) -> FuncInfo:
        """FuncInfo for a lambda expression inside `parent` (created on demand)."""
        key = "<lambda@%d:%d>" % (node.lineno, node.col_offset)
        fi = parent.nested.get(key)
        if fi is None:
            fi = FuncInfo(parent.module, node, parent.qual + "." + key, parent.cls, parent)
            parent.nested[key] = fi
        return fi

    def _resolve_bases(self):
        for ci in self.classes.values():
            for b in ci.base_exprs:
                tgt = self.resolve_expr_to_class(ci.module, b)
                if tgt is not None:
                    ci.bases.append(tgt)
                else:
                    try:
                        ci.opaque_bases.append(ast.unparse(b).split(".")[-1].split("(")[0])
                    except Exception:
                        ci.opaque_bases.append("?")

    # --------------------------------------------------------------- lookups
    def module(self, name: str) -> Module:
        if name not in self.modules:
            raise AnchorVanished("module %s not found" % name)
        return self.modules[name]

    def func(self, qual: str) -> FuncInfo:
        """qual = "allmydata.x.y:Class.meth[.inner]" (leading "allmydata." optional)."""
        if not qual.startswith(PKG + ".") and not qual.startswith(PKG + ":"):
            qual = PKG + "." + qual
        fi = self.funcs.get(qual)
        if fi is None:
            # inherited method?
            mod, _, rest = qual.partition(":")
            parts = rest.split(".")
            if len(parts) == 2:
                ci = self.classes.get(mod + ":" + parts[0])
                if ci is not None:
                    f2 = ci.lookup(parts[1])
                    if f2 is not None:
                        return f2
            last = qual.rsplit(".", 1)[-1].rsplit(":", 1)[-1]
            hint = [f.qual for f in self.by_name.get(last, [])][:5]
            raise AnchorVanished("function %s not found%s" % (
                qual, (" (moved? candidates: %s)" % ", ".join(hint)) if hint else ""))
        return fi

    def has_func(self, qual: str) -> bool:
        if not qual.startswith(PKG + ".") and not qual.startswith(PKG + ":"):
            qual = PKG + "." + qual
        return qual in self.funcs

    def cls(self, qual: str) -> ClassInfo:
        if not qual.startswith(PKG + ".") and not qual.startswith(PKG + ":"):
            qual = PKG + "." + qual
        ci = self.classes.get(qual)
        if ci is None:
            last = qual.rsplit(":", 1)[-1]
            hint = [c.qual for c in self.class_by_name.get(last, [])][:5]
            raise AnchorVanished("class %s not found%s" % (
                qual, (" (moved? candidates: %s)" % ", ".join(hint)) if hint else ""))
        return ci

    def resolve_dotted(self, dotted: str):
        """'allmydata.util.hashutil.block_hash' -> FuncInfo / ClassInfo / Module / None."""
        if dotted in self.modules:
            return self.modules[dotted]
        mod, _, name = dotted.rpartition(".")
        m = self.modules.get(mod)
        if m is not None:
            if name in m.funcs:
                return m.funcs[name]
            if name in m.classes:
                return m.classes[name]
            if name in m.imports and m.imports[name] != dotted:
                return self.resolve_dotted(m.imports[name])
        return None

    def resolve_name(self, m: Module, name: str):
        if name in m.funcs:
            return m.funcs[name]
        if name in m.classes:
            return m.classes[name]
        if name in m.imports:
            return self.resolve_dotted(m.imports[name])
        return None

    def resolve_expr_to_class(self, m: Module, e: ast.AST) -> Optional[ClassInfo]:
        r = self.resolve_expr(m, e)
        return r if isinstance(r, ClassInfo) else None

    def resolve_expr(self, m: Module, e: ast.AST):
        """Resolve Name / dotted Attribute at module scope to an indexed entity."""
        if isinstance(e, ast.Name):
            return self.resolve_name(m, e.id)
        if isinstance(e, ast.Attribute):
            base = self.resolve_expr(m, e.value)
            if isinstance(base, Module):
                if e.attr in base.funcs:
                    return base.funcs[e.attr]
                if e.attr in base.classes:
                    return base.classes[e.attr]
                sub = self.modules.get(base.name + "." + e.attr)
                if sub is not None:
                    return sub
                if e.attr in base.imports:
                    return self.resolve_dotted(base.imports[e.attr])
            elif isinstance(base, ClassInfo):
                f = base.lookup(e.attr)
                if f is not None:
                    return f
            elif base is None and isinstance(e.value, ast.Name) and e.value.id in m.imports:
                return self.resolve_dotted(m.imports[e.value.id] + "." + e.attr)
        return None

    def subclasses(self, ci: ClassInfo) -> List[ClassInfo]:
        out = []
        for c in self.classes.values():
            if c is not ci and ci in c.mro():
                out.append(c)
        return out

    def all_funcs(self) -> List[FuncInfo]:
        return list(self.funcs.values())

    def stats(self) -> dict:
        return {"modules": len(self.modules), "classes": len(self.classes),
                "functions": len(self.funcs)}


_INDEX: Optional[Index] = None


def get_index() -> Index:
    global _INDEX
    if _INDEX is None:
        _INDEX = Index()
    return _INDEX
