"""Regenerates /verif/RULES.md (the as-built rule inventory) from the evidence files.

    /venv/bin/python -m sa.mkappendix
"""
import glob
import json
import os

VERIF = os.path.dirname(os.path.dirname(os.path.abspath(__file__)))


def main():
    out = ["# Rules as built", "",
           "Generated from /verif/evidence/*.json by `python -m sa.mkappendix` (one row per rule instance that ran on "
           "the current tree: id, kind as in DESIGN.md section 4, the rule's statement, obligation sites matched).  "
           "The decided / undecided clauses of each property are the `explanation` text.", ""]
    tot_rules = tot_sites = 0
    for f in sorted(glob.glob(os.path.join(VERIF, "evidence", "C*.json"))):
        ev = json.load(open(f))
        cov = ev["coverage"]
        out.append("## %s" % ev["property_id"])
        out.append("")
        out.append(cov.get("explanation", "").strip())
        out.append("")
        out.append("| rule | kind | statement | sites |")
        out.append("|------|------|-----------|-------|")
        for s in cov.get("samples", []):
            out.append("| %s | %s | %s | %d |" % (s["rule"], s.get("kind", ""), s["statement"].replace("|", "/"), s["n_sites"]))
            tot_rules += 1
            tot_sites += s["n_sites"]
        if cov.get("known_findings_reported"):
            out.append("")
            out.append("Known findings reported on this tree: %s" % ", ".join(
                "%s `%s`" % (k["rule"], k["construct"]) for k in cov["known_findings_reported"]))
        out.append("")
    out.insert(3, "Total: %d rule instances, %d obligation sites." % (tot_rules, tot_sites))
    out.insert(4, "")
    with open(os.path.join(VERIF, "RULES.md"), "w") as fh:
        fh.write("\n".join(out) + "\n")
    print("RULES.md: %d rules, %d sites" % (tot_rules, tot_sites))


if __name__ == "__main__":
    main()
