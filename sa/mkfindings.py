"""Regenerate the two tables of DESIGN.md section 6 from known_findings.json.

    /venv/bin/python -m sa.mkfindings

The tables live between the markers `<!-- findings-tables:begin -->` and
`<!-- findings-tables:end -->`; everything else in DESIGN.md is left alone.
"""
import json
import os
import re

VERIF = os.path.dirname(os.path.dirname(os.path.abspath(__file__)))
BEGIN, END = "<!-- findings-tables:begin -->", "<!-- findings-tables:end -->"


def tables() -> str:
    k = json.load(open(os.path.join(VERIF, "known_findings.json")))
    out = ["| prop | disposition | what failed |", "|------|-------------|-------------|"]
    for line in k["fixed"]:
        m = re.match(r"fixed: property=(\S+) (\S+) (.*)$", line, re.S)
        if not m:
            raise SystemExit("unparseable fixed entry: %r" % line[:80])
        out.append("| %s | `fix:` %s | %s |" % (m.group(1), m.group(2), m.group(3).replace("|", "\\|")))
    out += ["", "Known findings (genuine, not repaired because no small safe repair exists; each prints a "
            "`KNOWN-FINDING` line):", "", "| prop | disposition | what fails |", "|------|-------------|------------|"]
    for f in k["findings"]:
        out.append("| %s | known finding | rule %s, `%s`: %s |" % (
            f["property"], f["rule"], f["construct"], f["what"].replace("|", "\\|")))
    return "\n".join(out)


def main():
    p = os.path.join(VERIF, "DESIGN.md")
    s = open(p).read()
    i, j = s.index(BEGIN), s.index(END)
    s = s[:i + len(BEGIN)] + "\n" + tables() + "\n" + s[j:]
    open(p, "w").write(s)
    print("DESIGN.md section 6 tables regenerated")


if __name__ == "__main__":
    main()
