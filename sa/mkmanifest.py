"""Regenerates /verif/MANIFEST.json from the rule modules present in sa/rules.

Run: /venv/bin/python -m sa.mkmanifest
"""
import importlib
import json
import os

VERIF = os.path.dirname(os.path.dirname(os.path.abspath(__file__)))

NOT_APPLICABLE = {
    "C37": "Spans/DataSpans are pure interval algebra: every clause is a statement about computed integer sets "
           "(value-level); no structural necessary condition exists that is not itself the arithmetic, so static "
           "analysis of the code's shape cannot decide it (DESIGN.md section 5, C37).",
}


def main():
    props = [json.loads(l) for l in open(os.path.join(VERIF, "properties.jsonl"))]
    checks = []
    na = []
    for p in props:
        pid = p["id"]
        path = os.path.join(VERIF, "sa", "rules", pid + ".py")
        if pid in NOT_APPLICABLE:
            na.append({"property_id": pid, "reason": NOT_APPLICABLE[pid]})
            continue
        accepted = set(open(os.path.join(VERIF, "sa", "accepted.txt")).read().split())
        if not os.path.exists(path) or pid not in accepted:
            na.append({"property_id": pid, "reason": "no check is registered for this property yet (static rules "
                       "planned in DESIGN.md section 5 are not built); not claimed."})
            continue
        mod = importlib.import_module("sa.rules." + pid)
        checks.append({
            "property_id": pid,
            "quick_cmd": "/venv/bin/python -m sa.check %s --tier quick" % pid,
            "thorough_cmd": "/venv/bin/python -m sa.check %s --tier thorough" % pid,
            "evidence_file": "/verif/evidence/%s.json" % pid,
            "replay_cmd_template": "cat {path}",
            "engine": "sa",
            "level_claimed": {
                "category": "other",
                "text": getattr(mod, "LEVEL_TEXT", None) or (
                    "Static decision of the structural necessary conditions listed in the evidence explanation: "
                    "each rule is checked on every path / call site / table row of the current source "
                    "(all-paths CFG x monitor exploration, who-may-call sweeps, table agreement), so within the "
                    "decided clauses the verdict holds for all inputs and schedules; the value-level remainder "
                    "of the property is explicitly not claimed. " + mod.EXPLANATION),
                "design_ref": "DESIGN.md section 5, %s" % pid,
            },
            "level_note": getattr(mod, "LEVEL_NOTE", None) or (
                "Trusted base: CPython ast, the sa engine (CFG construction, normaliser, name/MRO call "
                "resolution) and the rule tables in sa/rules/%s.py. Decides necessary structural conditions "
                "only; does not execute the code; undecided clauses are listed in the evidence." % pid),
            "technique": getattr(mod, "TECHNIQUE", "static analysis: AST/CFG path rules, who-may-call sweeps, table agreement"),
        })
    man = {
        "version": 1,
        "setup_cmd": "/venv/bin/python -c \"import ast,sys; assert sys.version_info >= (3, 9)\" && /venv/bin/python -m compileall -q sa",
        "hooks": {
            "guard": "TAHOE_LAFS_VERIF",
            "enable": "none needed: the checks read /repo's working tree with ast; no instrumentation hooks exist",
            "baseline_off_cmd": "cd /repo && /venv/bin/python -m pytest -ra -q -p no:cacheprovider --timeout=900 --continue-on-collection-errors",
            "source_commits": [],
            "add_only": True,
        },
        "engines": [{
            "name": "sa",
            "path": "/verif/sa",
            "serves_properties": [c["property_id"] for c in checks],
            "kind_free_text": "repository-specific static analysis over Python ast: statement CFG with "
                              "short-circuit decomposition, CFG x monitor product exploration, flow-sensitive "
                              "normaliser with polynomial normal forms, call-graph sweeps, constant folding and "
                              "regex/struct/format table extraction",
        }],
        "checks": checks,
        "not_applicable": na,
        "notes": "All checks are static (no code under test is executed). Exit 0 held / 1 VIOLATION / 2 ANALYSIS-ERROR. "
                 "Known findings: /verif/known_findings.json. Self-test variants (thorough tier): sa/selftest/.",
    }
    with open(os.path.join(VERIF, "MANIFEST.json"), "w") as f:
        json.dump(man, f, indent=1)
    print("MANIFEST.json: %d checks, %d not_applicable" % (len(checks), len(na)))


if __name__ == "__main__":
    main()
