"""Regenerate the generated part of DESIGN.md section 11 from seeded/results.json.

    /venv/bin/python -m sa.seeded_run      # writes seeded/RESULTS.md and seeded/results.json
    /venv/bin/python -m sa.mkseeded        # rewrites the part of DESIGN.md between the markers
"""
import json
import os

VERIF = os.path.dirname(os.path.dirname(os.path.abspath(__file__)))
BEGIN, END = "<!-- seeded-tables:begin -->", "<!-- seeded-tables:end -->"


def text() -> str:
    rows = json.load(open(os.path.join(VERIF, "seeded", "results.json")))
    out = []
    rounds = sorted({r["round"] for r in rows if r["round"] is not None})
    out += ["| round | changes kept | reported on the first run | reported now |", "|---|---|---|---|"]
    for rnd in rounds:
        rr = [r for r in rows if r["round"] == rnd]
        out.append("| %s | %d | %d | %d |" % (rnd, len(rr), sum(r["first_run"] == "caught" for r in rr),
                                             sum(r["verdict"] == "CAUGHT" for r in rr)))
    out += ["", "Changes the checks did not report when they were delivered, and the rule that reports each one now "
            "(the general necessary condition behind each rule is in the rule file's EXPLANATION and in RULES.md):", ""]
    for rnd in rounds:
        rr = [r for r in rows if r["round"] == rnd and r["first_run"] != "caught"]
        out += ["Round %s (%d):" % (rnd, len(rr)), "", "| id | what was changed (author's summary, shortened) | reported now by |",
                "|---|---|---|"]
        for r in rr:
            s = " ".join(r["summary"].split()).replace("|", "/")
            if len(s) > 230:
                s = s[:227] + "..."
            out.append("| %s | %s | %s at `%s` |" % (r["id"], s, r["rule"] or r["verdict"], r["construct"]))
        out.append("")
    return "\n".join(out)


def main():
    p = os.path.join(VERIF, "DESIGN.md")
    s = open(p).read()
    i, j = s.index(BEGIN), s.index(END)
    s = s[:i + len(BEGIN)] + "\n" + text() + "\n" + s[j:]
    open(p, "w").write(s)
    print("DESIGN.md section 11 tables regenerated")


if __name__ == "__main__":
    main()
