"""E2: expression normaliser.

Canonical textual form of expressions so that rules never match source text or
positions:  commutative operands are ordered, comparisons are flipped to a
canonical direction, ``not`` is pushed into comparisons, locals with a unique
definition are substituted (depth-limited), and integer arithmetic is put into
a polynomial normal form over opaque atoms (function calls such as
``div_ceil(a, b)``, ``//`` and ``%`` are uninterpreted symbols with normalised
arguments).
"""
from __future__ import annotations

import ast
from fractions import Fraction
from typing import Dict, List, Optional, Tuple

from .index import FuncInfo, func_own_nodes, own_nodes
from .index import aug_value
from . import cfg as _cfg


# ------------------------------------------------------------ local defs env
class Env:
    """Substitution environment for one function: local name -> defining
    expression, only for names with exactly one binding in the function (and
    that are not parameters)."""

    def __init__(self, fn: Optional[FuncInfo] = None, extra: Optional[Dict[str, ast.AST]] = None,
                 rename: Optional[Dict[str, str]] = None, depth: int = 4):
        self.defs: Dict[str, ast.AST] = {}
        self.depth = depth
        self.rename = rename or {}
        if fn is not None:
            self.defs = unique_defs(fn)
        if extra:
            self.defs.update(extra)


def all_defs(fn: FuncInfo) -> Dict[str, List[ast.AST]]:
    """name -> list of defining expressions (None entry for opaque bindings:
    loop targets, with-as, augmented assignment, parameters rebinding...)."""
    out: Dict[str, List[Optional[ast.AST]]] = {}

    def bind(t, v):
        if isinstance(t, ast.Name):
            out.setdefault(t.id, []).append(v)
        elif isinstance(t, (ast.Tuple, ast.List)):
            if isinstance(v, (ast.Tuple, ast.List)) and len(v.elts) == len(t.elts) \
                    and not any(isinstance(e, ast.Starred) for e in t.elts):
                for tt, vv in zip(t.elts, v.elts):
                    bind(tt, vv)
            else:
                for i, tt in enumerate(t.elts):
                    if v is not None and not isinstance(tt, ast.Starred):
                        sub = ast.Subscript(value=v, slice=ast.Constant(value=i), ctx=ast.Load())
                        bind(tt, sub)
                    else:
                        bind(tt, None)
        elif isinstance(t, ast.Starred):
            bind(t.value, None)

    for n in func_own_nodes(fn):
        if isinstance(n, ast.Assign):
            for t in n.targets:
                bind(t, n.value)
        elif isinstance(n, ast.AnnAssign) and n.value is not None:
            bind(n.target, n.value)
        elif isinstance(n, ast.AugAssign):
            bind(n.target, aug_value(n))
        elif isinstance(n, (ast.For, ast.AsyncFor)):
            bind(n.target, None)
        elif isinstance(n, ast.comprehension):
            bind(n.target, None)
        elif isinstance(n, (ast.With, ast.AsyncWith)):
            for it in n.items:
                if it.optional_vars is not None:
                    bind(it.optional_vars, None)
        elif isinstance(n, ast.ExceptHandler) and n.name:
            out.setdefault(n.name, []).append(None)
        elif isinstance(n, ast.NamedExpr):
            bind(n.target, n.value)
        elif isinstance(n, (ast.FunctionDef, ast.AsyncFunctionDef, ast.ClassDef)):
            out.setdefault(n.name, []).append(None)
    return out


def unique_defs(fn: FuncInfo) -> Dict[str, ast.AST]:
    params = set(fn.params)
    res = {}
    for name, vals in all_defs(fn).items():
        if name in params:
            continue
        if len(vals) == 1 and vals[0] is not None and not isinstance(vals[0], _MUTABLE_LITERALS) \
                and not _impure(vals[0]):
            res[name] = vals[0]
    return res


# containers built empty/literal and mutated afterwards are not values to substitute
_MUTABLE_LITERALS = (ast.Dict, ast.List, ast.Set, ast.ListComp, ast.DictComp, ast.SetComp)

# A local defined by one of these calls names "the value obtained at that
# point" (the call is not a function of its arguments): never substituted.
IMPURE_TAILS = {"pop", "popleft", "popitem", "next", "read", "readline", "recv", "time", "seconds", "now",
                "urandom", "random", "randrange", "choice", "shuffle", "Deferred", "get_nowait", "__next__",
                "mkdtemp", "mkstemp", "getpid", "monotonic"}


def _impure(v: ast.AST) -> bool:
    for x in own_nodes(v, into_lambda=True):
        if isinstance(x, ast.Call):
            f = x.func
            t = f.id if isinstance(f, ast.Name) else (f.attr if isinstance(f, ast.Attribute) else "")
            if t in IMPURE_TAILS:
                return True
        if isinstance(x, (ast.Yield, ast.YieldFrom, ast.Await)):
            return True
    return False


# ------------------------------------------------------------------- helpers
_CMP_FLIP = {ast.Gt: ast.Lt, ast.GtE: ast.LtE}
_CMP_NEG = {ast.Eq: ast.NotEq, ast.NotEq: ast.Eq, ast.Lt: ast.GtE, ast.LtE: ast.Gt,
            ast.Gt: ast.LtE, ast.GtE: ast.Lt, ast.Is: ast.IsNot, ast.IsNot: ast.Is,
            ast.In: ast.NotIn, ast.NotIn: ast.In}
_CMP_SYM = {ast.Eq: "==", ast.NotEq: "!=", ast.Lt: "<", ast.LtE: "<=", ast.Gt: ">", ast.GtE: ">=",
            ast.Is: "is", ast.IsNot: "is not", ast.In: "in", ast.NotIn: "not in"}
_BIN_SYM = {ast.Add: "+", ast.Sub: "-", ast.Mult: "*", ast.Div: "/", ast.FloorDiv: "//", ast.Mod: "%",
            ast.Pow: "**", ast.LShift: "<<", ast.RShift: ">>", ast.BitOr: "|", ast.BitAnd: "&",
            ast.BitXor: "^", ast.MatMult: "@"}


class Poly:
    """Polynomial with rational coefficients over opaque atom strings."""

    def __init__(self, terms: Optional[Dict[Tuple[str, ...], Fraction]] = None):
        self.t: Dict[Tuple[str, ...], Fraction] = {k: v for k, v in (terms or {}).items() if v != 0}

    @staticmethod
    def const(c) -> "Poly":
        return Poly({(): Fraction(c)})

    @staticmethod
    def atom(a: str) -> "Poly":
        return Poly({(a,): Fraction(1)})

    def __add__(self, o):
        r = dict(self.t)
        for k, v in o.t.items():
            r[k] = r.get(k, 0) + v
        return Poly(r)

    def __neg__(self):
        return Poly({k: -v for k, v in self.t.items()})

    def __sub__(self, o):
        return self + (-o)

    def __mul__(self, o):
        r: Dict[Tuple[str, ...], Fraction] = {}
        for k1, v1 in self.t.items():
            for k2, v2 in o.t.items():
                k = tuple(sorted(k1 + k2))
                r[k] = r.get(k, 0) + v1 * v2
        return Poly(r)

    def is_const(self) -> bool:
        return all(k == () for k in self.t)

    def const_value(self) -> Optional[Fraction]:
        if self.is_const():
            return self.t.get((), Fraction(0))
        return None

    def atoms(self) -> set:
        s = set()
        for k in self.t:
            s.update(k)
        return s

    def __eq__(self, o):
        return isinstance(o, Poly) and self.t == o.t

    def __hash__(self):
        return hash(tuple(sorted(self.t.items())))

    def __str__(self):
        if not self.t:
            return "0"
        parts = []
        for k in sorted(self.t, key=lambda k: (len(k), k)):
            c = self.t[k]
            cs = str(c.numerator) if c.denominator == 1 else "%s/%s" % (c.numerator, c.denominator)
            if k == ():
                parts.append(cs)
            elif c == 1:
                parts.append("*".join(k))
            else:
                parts.append(cs + "*" + "*".join(k))
        return "(" + " + ".join(parts) + ")"


class Normaliser:
    def __init__(self, env: Optional[Env] = None):
        self.env = env or Env()

    # -- public
    def norm(self, e: ast.AST, depth: Optional[int] = None) -> str:
        if depth is None:
            depth = self.env.depth
        return self._n(e, depth)

    def poly(self, e: ast.AST, depth: Optional[int] = None) -> Poly:
        if depth is None:
            depth = self.env.depth
        return self._poly(e, depth)

    def cmp(self, e: ast.AST, polarity: bool = True, depth: Optional[int] = None):
        """Canonical comparison: returns (op, lhs, rhs) with op in
        {'==','!=','<','<=','is','is not','in','not in','truth','false'};
        for 'truth'/'false' rhs is None.  `polarity=False` negates."""
        if depth is None:
            depth = self.env.depth
        return self._cmp(e, polarity, depth)

    # -- internals
    def _subst(self, name: str, depth: int) -> Optional[ast.AST]:
        if depth <= 0:
            return None
        return self.env.defs.get(name)

    def _cmp(self, e, pol, depth):
        while isinstance(e, ast.UnaryOp) and isinstance(e.op, ast.Not):
            e = e.operand
            pol = not pol
        if isinstance(e, ast.Name):
            d = self._subst(e.id, depth)
            if d is not None and isinstance(d, (ast.Compare, ast.UnaryOp, ast.BoolOp)):
                return self._cmp(d, pol, depth - 1)
        if isinstance(e, ast.Compare) and len(e.ops) == 1:
            op = type(e.ops[0])
            l, r = e.left, e.comparators[0]
            if not pol:
                op = _CMP_NEG[op]
            if op in _CMP_FLIP:
                op = _CMP_FLIP[op]
                l, r = r, l
            ls, rs = self._n(l, depth), self._n(r, depth)
            if op in (ast.Eq, ast.NotEq, ast.Is, ast.IsNot) and rs < ls:
                ls, rs = rs, ls
            # arithmetic comparisons: move everything to one canonical side
            if op in (ast.Lt, ast.LtE, ast.Eq, ast.NotEq):
                pl, pr = self._poly_or_none(l, depth), self._poly_or_none(r, depth)
                if pl is not None and pr is not None and (self._arith(l) or self._arith(r)):
                    diff = pr - pl   # l < r  <=>  0 < r - l
                    if op in (ast.Eq, ast.NotEq):
                        s1, s2 = str(diff), str(-diff)
                        return (_CMP_SYM[op], "0", min(s1, s2))
                    return (_CMP_SYM[op], "0", str(diff))
            return (_CMP_SYM[op], ls, rs)
        return ("truth" if pol else "false", self._n(e, depth), None)

    @staticmethod
    def _arith(e) -> bool:
        return isinstance(e, ast.BinOp) and isinstance(e.op, (ast.Add, ast.Sub, ast.Mult))

    def _poly_or_none(self, e, depth):
        try:
            return self._poly(e, depth)
        except Exception:
            return None

    def _poly(self, e, depth) -> Poly:
        if isinstance(e, ast.Constant) and isinstance(e.value, (int,)) and not isinstance(e.value, bool):
            return Poly.const(e.value)
        if isinstance(e, ast.Name):
            d = self._subst(e.id, depth)
            if d is not None:
                return self._poly(d, depth - 1)
            return Poly.atom(self.env.rename.get(e.id, e.id))
        if isinstance(e, ast.UnaryOp) and isinstance(e.op, ast.USub):
            return -self._poly(e.operand, depth)
        if isinstance(e, ast.UnaryOp) and isinstance(e.op, ast.UAdd):
            return self._poly(e.operand, depth)
        if isinstance(e, ast.BinOp):
            if isinstance(e.op, ast.Add):
                return self._poly(e.left, depth) + self._poly(e.right, depth)
            if isinstance(e.op, ast.Sub):
                return self._poly(e.left, depth) - self._poly(e.right, depth)
            if isinstance(e.op, ast.Mult):
                return self._poly(e.left, depth) * self._poly(e.right, depth)
            if isinstance(e.op, ast.Pow):
                b, x = self._poly(e.left, depth), self._poly(e.right, depth)
                bc, xc = b.const_value(), x.const_value()
                if bc is not None and xc is not None and xc.denominator == 1 and 0 <= xc <= 64:
                    return Poly.const(bc ** int(xc))
            if isinstance(e.op, (ast.FloorDiv, ast.Mod, ast.LShift)):
                l, r = self._poly(e.left, depth), self._poly(e.right, depth)
                lc, rc = l.const_value(), r.const_value()
                if lc is not None and rc is not None and rc != 0 and lc.denominator == 1 and rc.denominator == 1:
                    if isinstance(e.op, ast.FloorDiv):
                        return Poly.const(int(lc) // int(rc))
                    if isinstance(e.op, ast.Mod):
                        return Poly.const(int(lc) % int(rc))
                    return Poly.const(int(lc) << int(rc))
                return Poly.atom("(%s %s %s)" % (l, _BIN_SYM[type(e.op)], r))
        return Poly.atom(self._n_nonarith(e, depth))

    def _n(self, e, depth) -> str:
        if e is None:
            return "None"
        if isinstance(e, ast.BinOp) and isinstance(e.op, (ast.Add, ast.Sub, ast.Mult, ast.FloorDiv, ast.Mod)) \
                and not self._stringy(e):
            try:
                return str(self._poly(e, depth))
            except Exception:
                pass
        if isinstance(e, ast.UnaryOp) and isinstance(e.op, ast.USub):
            try:
                return str(self._poly(e, depth))
            except Exception:
                pass
        return self._n_nonarith(e, depth)

    @staticmethod
    def _stringy(e) -> bool:
        # '%' formatting or string/bytes concatenation: not arithmetic
        for x in (e.left, e.right):
            if isinstance(x, ast.Constant) and isinstance(x.value, (str, bytes)):
                return True
            if isinstance(x, ast.JoinedStr):
                return True
            if isinstance(x, ast.BinOp) and Normaliser._stringy(x):
                return True
        return False

    def _n_nonarith(self, e, depth) -> str:
        n = lambda x: self._n(x, depth)
        if isinstance(e, ast.Name):
            d = self._subst(e.id, depth)
            if d is not None:
                return self._n(d, depth - 1)
            return self.env.rename.get(e.id, e.id)
        if isinstance(e, ast.Constant):
            return repr(e.value)
        if isinstance(e, ast.Attribute):
            s = n(e.value) + "." + e.attr
            return self.env.rename.get(s, s)
        if isinstance(e, ast.Call):
            args = [n(a) for a in e.args]
            kws = sorted("%s=%s" % (k.arg, n(k.value)) if k.arg else "**" + n(k.value) for k in e.keywords)
            f = e.func
            fname = n(f) if not isinstance(f, ast.Name) else self.env.rename.get(f.id, f.id)
            if isinstance(f, ast.Name) and f.id in ("min", "max") and not kws:
                args = sorted(args)
            return "%s(%s)" % (fname, ", ".join(args + kws))
        if isinstance(e, ast.Compare) or (isinstance(e, ast.UnaryOp) and isinstance(e.op, ast.Not)):
            if isinstance(e, ast.Compare) and len(e.ops) != 1:
                parts = [n(e.left)]
                for op, c in zip(e.ops, e.comparators):
                    parts.append(_CMP_SYM[type(op)])
                    parts.append(n(c))
                return "(" + " ".join(parts) + ")"
            op, l, r = self._cmp(e, True, depth)
            if r is None:
                return "(%s %s)" % ("not" if op == "false" else "bool", l)
            return "(%s %s %s)" % (l, op, r)
        if isinstance(e, ast.BoolOp):
            vals = []
            for v in e.values:
                if isinstance(v, ast.BoolOp) and type(v.op) is type(e.op):
                    vals.extend(n(x) for x in v.values)
                else:
                    vals.append(n(v))
            sym = " and " if isinstance(e.op, ast.And) else " or "
            return "(" + sym.join(vals) + ")"
        if isinstance(e, ast.BinOp):
            return "(%s %s %s)" % (n(e.left), _BIN_SYM.get(type(e.op), "?"), n(e.right))
        if isinstance(e, ast.UnaryOp):
            return "(%s%s)" % ({ast.USub: "-", ast.UAdd: "+", ast.Invert: "~", ast.Not: "not "}[type(e.op)],
                               n(e.operand))
        if isinstance(e, ast.Subscript):
            return "%s[%s]" % (n(e.value), n(e.slice))
        if isinstance(e, ast.Slice):
            return "%s:%s%s" % (n(e.lower) if e.lower else "", n(e.upper) if e.upper else "",
                                (":" + n(e.step)) if e.step else "")
        if isinstance(e, ast.Tuple):
            return "(" + ", ".join(n(x) for x in e.elts) + ",)"
        if isinstance(e, ast.List):
            return "[" + ", ".join(n(x) for x in e.elts) + "]"
        if isinstance(e, ast.Set):
            return "{" + ", ".join(sorted(n(x) for x in e.elts)) + "}"
        if isinstance(e, ast.Dict):
            items = []
            for k, v in zip(e.keys, e.values):
                items.append("%s: %s" % (n(k) if k is not None else "**", n(v)))
            return "{" + ", ".join(sorted(items)) + "}"
        if isinstance(e, ast.IfExp):
            return "(%s if %s else %s)" % (n(e.body), n(e.test), n(e.orelse))
        if isinstance(e, ast.Starred):
            return "*" + n(e.value)
        if isinstance(e, ast.Lambda):
            return "lambda %s: %s" % (",".join(a.arg for a in e.args.args), self._n(e.body, 0))
        if isinstance(e, ast.Await):
            return "await " + n(e.value)
        if isinstance(e, (ast.Yield, ast.YieldFrom)):
            return "yield " + (n(e.value) if e.value else "")
        if isinstance(e, ast.NamedExpr):
            return n(e.value)
        try:
            return ast.unparse(e)
        except Exception:
            return "<?>"


def norm(e: ast.AST, fn: Optional[FuncInfo] = None, rename=None, depth: int = 4) -> str:
    return Normaliser(Env(fn, rename=rename, depth=depth)).norm(e)


def norm_plain(e: ast.AST) -> str:
    """Normal form without local substitution."""
    return Normaliser(Env(None, depth=0)).norm(e)


def parse_expr(src: str) -> ast.AST:
    return ast.parse(src, mode="eval").body


def norm_src(src: str, rename=None) -> str:
    return Normaliser(Env(None, rename=rename, depth=0)).norm(parse_expr(src))


class FlowNorm:
    """Flow-sensitive normaliser: a local is replaced by its defining
    expression when exactly one definition reaches the node and the names used
    by that definition have not been re-bound in between (SSA-lite)."""

    def __init__(self, fn: FuncInfo, rename=None, depth: int = 4, keep=()):
        """`keep`: local names that are never replaced by their definition
        (use it for names bound from mutable state, e.g. a heap top)."""
        self.fn = fn
        self.keep = set(keep)
        self.cfg = fn.cfg()
        self.rd = _cfg.reaching_defs(self.cfg)
        self.rename = rename
        self.depth = depth
        self._envs: Dict[int, Env] = {}
        self._facts: Dict[tuple, tuple] = {}

    def _def_value(self, def_node, name: str) -> Optional[ast.AST]:
        a = def_node.ast
        if def_node.kind != "stmt":
            return None
        if isinstance(a, ast.Assign):
            for t in a.targets:
                if isinstance(t, ast.Name) and t.id == name:
                    return a.value
                if isinstance(t, (ast.Tuple, ast.List)):
                    if isinstance(a.value, (ast.Tuple, ast.List)) and len(t.elts) == len(a.value.elts):
                        for tt, vv in zip(t.elts, a.value.elts):
                            if isinstance(tt, ast.Name) and tt.id == name:
                                return vv
                    else:
                        for i, tt in enumerate(t.elts):
                            if isinstance(tt, ast.Name) and tt.id == name:
                                return ast.Subscript(value=a.value, slice=ast.Constant(value=i), ctx=ast.Load())
        if isinstance(a, ast.AnnAssign) and isinstance(a.target, ast.Name) and a.target.id == name:
            return a.value
        return None

    def env_at(self, node) -> Env:
        e = self._envs.get(node.id)
        if e is not None:
            return e
        here = self.rd.get(node.id, {})
        defs: Dict[str, ast.AST] = {}
        for name, ds in here.items():
            if len(ds) != 1 or name in self.keep:
                continue
            (d,) = tuple(ds)
            if d == _cfg.PARAM_DEF:
                continue
            dn = self.cfg.nodes[d]
            v = self._def_value(dn, name)
            if v is None or isinstance(v, _MUTABLE_LITERALS) or _impure(v):
                continue
            there = self.rd.get(d, {})
            stable = True
            for x in own_nodes(v, into_lambda=True):
                if isinstance(x, ast.Name) and isinstance(x.ctx, ast.Load):
                    if x.id == name:
                        stable = False
                        break
                    if here.get(x.id) != there.get(x.id):
                        stable = False
                        break
            if stable:
                defs[name] = v
        e = Env(None, extra=defs, rename=self.rename, depth=self.depth)
        self._envs[node.id] = e
        return e

    def at(self, node) -> Normaliser:
        return Normaliser(self.env_at(node))

    def resolve(self, node, expr: ast.AST, depth: int = 4) -> ast.AST:
        """Follow a chain of plain-name copies to the defining expression."""
        env = self.env_at(node)
        while depth > 0 and isinstance(expr, ast.Name) and expr.id in env.defs:
            expr = env.defs[expr.id]
            depth -= 1
        return expr

    def norm(self, node, expr: Optional[ast.AST] = None) -> str:
        return self.at(node).norm(expr if expr is not None else node.ast)

    def edge_fact(self, node, lab):
        """Canonical comparison holding on the edge (node, lab), or None."""
        if node.kind != "test" or not isinstance(lab, tuple):
            return None
        key = (node.id, lab[0])
        hit = self._facts.get(key)
        if hit is None:
            hit = self.at(node).cmp(node.ast, lab[0] == "T")
            self._facts[key] = hit
        return hit
