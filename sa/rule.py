"""Rule context: obligations, violations, evidence, known findings, exit codes."""
from __future__ import annotations

import ast
import json
import os
import time
from typing import Any, Dict, List, Optional

from .index import AnalysisError, AnchorVanished, FuncInfo, Index

VERIF = os.path.dirname(os.path.dirname(os.path.abspath(__file__)))


class Violation:
    def __init__(self, prop: str, rule: str, construct: str, loc: str, msg: str,
                 witness: Optional[List[str]] = None, kind: str = ""):
        self.prop = prop
        self.rule = rule
        self.construct = construct   # qualified name of the offending construct (no line numbers)
        self.loc = loc               # file:line (for the human)
        self.msg = msg
        self.witness = witness or []
        self.kind = kind
        self.known = False

    def key(self):
        return (self.prop, self.rule, self.construct)

    def to_json(self):
        return {"property": self.prop, "rule": self.rule, "kind": self.kind, "construct": self.construct,
                "location": self.loc, "message": self.msg, "witness_path": self.witness,
                "known_finding": self.known}


class RuleInstance:
    """One rule of one property; used as a context manager so that an
    AnchorVanished inside is attributed to the rule."""

    def __init__(self, ctx: "Context", rid: str, kind: str, desc: str, expected: int = 1):
        self.ctx = ctx
        self.id = rid
        self.kind = kind
        self.desc = desc
        self.expected = expected
        self.sites: List[str] = []
        self.violations: List[Violation] = []
        self.samples: List[Any] = []
        self.states = 0

    def __enter__(self):
        return self

    def __exit__(self, et, ev, tb):
        if et is not None and issubclass(et, AnalysisError):
            if self.violations:
                # a violation already found in this rule wins over a later
                # analysis problem (typically caused by the same edit)
                self.ctx.note("%s: analysis stopped after reporting violations: %s" % (self.id, ev))
                self.ctx.rules.append(self)
                return True
            # remember it and let the remaining rules run: a violation found
            # by a later rule wins; otherwise the driver exits 2
            self.ctx.analysis_errors.append("%s: %s" % (self.id, ev))
            return True
        if et is None:
            try:
                self.ctx._finish(self)
            except AnalysisError as e:
                self.ctx.analysis_errors.append(str(e))
        return False

    def site(self, fn_or_loc, node: Optional[ast.AST] = None, note: str = ""):
        """Record one matched obligation site (what the rule was applied to)."""
        if isinstance(fn_or_loc, FuncInfo):
            loc = "%s %s" % (fn_or_loc.qual.split(":", 1)[1], fn_or_loc.loc(node))
        else:
            loc = str(fn_or_loc)
        if note:
            loc += " " + note
        self.sites.append(loc)

    def count(self, n: int):
        self.states += n

    def sample(self, s):
        if len(self.samples) < 4:
            self.samples.append(s)

    def violation(self, construct, loc: str, msg: str, witness=None):
        if isinstance(construct, FuncInfo):
            construct = construct.qual
        w = None
        if witness is not None:
            w = witness.lines() if hasattr(witness, "lines") else list(witness)
        self.violations.append(Violation(self.ctx.prop, self.id, construct, loc, msg, w, self.kind))

    def require(self, cond: bool, construct, loc: str, msg: str, witness=None) -> bool:
        if not cond:
            self.violation(construct, loc, msg, witness)
        return bool(cond)


class Context:
    def __init__(self, prop: str, idx: Index, tier: str = "quick"):
        self.prop = prop
        self.idx = idx
        self.tier = tier
        self.rules: List[RuleInstance] = []
        self.notes: List[str] = []
        self.analysis_errors: List[str] = []
        self.t0 = time.time()

    def rule(self, rid: str, kind: str, desc: str, expected: int = 1) -> RuleInstance:
        return RuleInstance(self, rid, kind, desc, expected)

    def _finish(self, r: RuleInstance):
        if len(r.sites) < r.expected and not r.violations:
            raise AnalysisError(
                "%s: rule matched %d site(s), fewer than the %d confirmed by hand (%s) - "
                "the rule would pass vacuously; sites=%s" % (r.id, len(r.sites), r.expected, r.desc, r.sites))
        self.rules.append(r)

    def note(self, s: str):
        self.notes.append(s)

    def include(self, other_prop: str, select, prefix: str):
        """Run the rules of another property and adopt the selected ones under this
        property (ids become `prefix` + the part after the other property's id).  Used
        where two properties rest on the same necessary condition."""
        import importlib
        mod = importlib.import_module("sa.rules.%s" % other_prop)
        sub = Context(self.prop, self.idx, self.tier)
        mod.run(sub)
        select = set(select)
        for r in sub.rules:
            if r.id in select:
                r.id = prefix + r.id[len(other_prop):]
                for v in r.violations:
                    v.rule = r.id
                self.rules.append(r)
        for e in sub.analysis_errors:
            if any(e.startswith(x + ":") or e.startswith(x + " ") for x in select):
                self.analysis_errors.append("%s (included from %s) %s" % (prefix, other_prop, e))
        got = {r.id for r in self.rules}
        for x in select:
            if prefix + x[len(other_prop):] not in got and not any(x in e for e in sub.analysis_errors):
                self.analysis_errors.append("%s: included rule %s of %s did not run" % (prefix, x, other_prop))

    @property
    def thorough(self) -> bool:
        return self.tier == "thorough"

    def violations(self) -> List[Violation]:
        out = []
        for r in self.rules:
            out.extend(r.violations)
        return out


# ------------------------------------------------------------ known findings
def load_known(path: Optional[str] = None) -> Dict[str, Any]:
    path = path or os.path.join(VERIF, "known_findings.json")
    if not os.path.exists(path):
        return {"findings": [], "fixed": []}
    with open(path) as f:
        return json.load(f)


def known_keys(known: Dict[str, Any]):
    return {(k["property"], k["rule"], k["construct"]): k for k in known.get("findings", [])}
