"""C01 Immutable upload/download round-trip.

The property itself (bytes in == bytes out for all sizes / k / N / orders) is
value-level.  Decided here: the structural necessary conditions of DESIGN.md
section 5, C01 (D1..D5) plus the layout-contiguity and block-addressing
conditions found while reading the code."""
import copy
import struct as _struct   # calcsize on folded constant formats only

from sa.h import *

EXPLANATION = (
    "Decided (structural necessary conditions): (1) the encoder and the downloader derive num_segments, tail "
    "size (with the 0 -> segment_size fix-up), padded tail, block size and tail block size by formulas with "
    "equal normal forms under the symbol map given by the verify cap built in Encoder.done and the UEB "
    "segment_size field; floor and ceiling quotients are identified only where the dividend is a proven multiple "
    "of k; (2) the uploadable rounds the segment size up to a multiple of k; (3) both share-header writers and "
    "both offset-table readers agree on version, field codes/widths, table start, header size and the order of "
    "the six offset names; (4) the regions laid out by _create_offsets are contiguous with the lengths the put_* "
    "methods assert, and the encoder sends them in layout order; (5) UEB keys read by the downloader are written "
    "by the encoder, fit the key grammar and integer keys are converted; (6) padding happens only for the tail "
    "segment with the tail codec, trimming only for the tail segment, and block addresses agree between "
    "put_block and _satisfy_data_block; (7) the AES-CTR counter is positioned with one constant equal to the "
    "cipher block size and the residue is consumed before any write; the encryptor starts at counter 0 and is "
    "created once; (8) response order 'DYHB answer vs UEB': once have_UEB is set every CommonShare is marked "
    "authoritative - the UEB event marks all registered ones in the same turn (after num_segments is stored), and a "
    "CommonShare created later is registered and marked at creation unless the count is still a guess; the marker "
    "always sets the flag and leaves a tree with the authoritative number of leaves; (9) response order of read "
    "answers: in every _satisfy_* stage the edge on which a fetched span is absent reaches no consumer of that data "
    "and returns a false value, and no consumer sits inside the fetch loop (a partial hash chain is never submitted); "
    "(10) satisfaction rounds (Share._get_satisfaction, run after every read answer): the unsatisfied edge of every "
    "_satisfy_* stage ends the round with a false value before any later stage runs, a round reports progress only after "
    "the head of the request queue was retired (BADSEGNUM round and delivered block alike), and a stage reports "
    "'unsatisfied' only on a path on which one of its fetched pieces was absent; (11) when the UEB is parsed the five results "
    "of _calculate_sizes are stored under their own names on every path and every table sized with the guessed segment "
    "count (ciphertext hash tree and its leaf count) is rebuilt with the authoritative one; in (6) also: under allow_short "
    "the padding is reachable without an exact-length precondition and a short tail cannot reach the return unpadded; "
    "(12) what the cap commits to covers every block of all N shares whoever receives them (rule C05.8 adopted as C01.12.8): "
    "every round of the share loop of Encoder._send_segment hashes its block into self.block_hashes, every share gets a root "
    "hash, the UEB hash entries are stored unconditionally and none of it depends on self.landlords / self.servermap; (13) "
    "what is stored is what was hashed: the (share, block) pair sent in that loop is the pair hashed and one (data, number) "
    "pair of the codec result, under the segment number of the round, a round skips the send only for a share without a "
    "bucket writer, and send_block hands (segment number, block) to the writer of that share on every path on which it has one; "
    "(14) the uploadable is read front to back: get_size() and every other method of the FileHandle family that moves the file "
    "handle leaves it at offset 0 and read(length) reads length bytes where the handle stands (rule C05.7 adopted as C01.12.7), "
    "and whatever EncryptAnUploadable.read_encrypted() runs for every segment (followed through self methods, the wrapped "
    "IUploadable's methods, closures, lambdas and method values handed on) reaches a call that repositions that handle - other "
    "than the data read itself - only behind a once-only guard: a test that a memo attribute is None / false, where the attribute "
    "is stored with a value on every path behind the test (directly or by a callback that path registers) and is never cleared "
    "outside __init__; (15) CRSDecoder.decode returns nothing but what zfec made of the blocks and share numbers, handed over "
    "pairwise in the caller's order after both length checks (rule C36.3 adopted as C01.15.3): the blocks arrive in the order the "
    "servers answered and only zfec puts the pieces in share-number order; (16) DownloadNode._decode_blocks returns nothing but the "
    "Deferred of that decode call, and its first callback joins the pieces with b'' in the order received and hands on (a slice "
    "of) that join; (17) there is no way from the public read() to the consumer around Segmentation: every normal return of "
    "ImmutableFileNode.read / CiphertextFileNode.read / DownloadNode.read lies behind the hand-over of the read to the next stage "
    "(for DownloadNode.read: the start() of a Segmentation built in that call) or behind the fact 'length == 0', and whole segments "
    "(get_segment) are requested only by Segmentation (which walks all segments of the range and trims them), by get_segsize and "
    "by the forwarding wrapper - a 'small file' short cut that hands over segment 0 is a by-pass of exactly this kind; in (7) also: "
    "on every path through DecryptingConsumer.__init__ the decryptor kept is the one keyed in that constructor from its own "
    "(readkey, offset), nobody else stores it, and the residue is consumed behind every such store; (18) every server that a "
    "ShareFinder method takes off the permuted-server iterator (the attribute fed from get_servers_for_psi; next() with or without "
    "default, pop-like calls, a `for` over it, or a helper method of the class that returns the element) is on every path to the "
    "method's normal exit asked for its shares (the get_buckets query, followed through send_request and other methods that hand "
    "their parameter over on every path, also deferred through eventually/callLater(self.meth, server)), put back / kept in an "
    "attribute of self, or returned to the caller - the edge on which the variable holds no element is exempt - and such a method "
    "overwrites the iterator attribute only behind evidence that it is exhausted (StopIteration edge of the take, end of the "
    "`for`, a take that came back empty, the attribute already None); reads of the iterator in any other form (islice, list(), "
    "comprehensions) are an ANALYSIS-ERROR.  "
    "Undecided: in (18) what becomes of an element that was stored into an attribute of self (it counts as kept), and whether a "
    "helper that returns None did so because the iterator is exhausted; the arithmetic identities themselves (sum of block sizes == share size), zfec, AES, hash trees; that the "
    "spans a stage fetches are the spans _desire_* requested (a mismatch stalls every download); the value-level guards "
    "(2**32 / 2**64 layout-version limits, the segnum >= num_segments BADSEGNUM boundary - SegmentFetcher re-checks it -, "
    "length assertions in put_* / _decode_blocks); corruption handling in the _satisfy_* except branches (honest servers "
    "never reach it); the verifier-only consistency checks of ValidatedExtendedURIProxy; range clipping and Segmentation "
    "(C04); and all other effects of server response orders (scheduling of Share/SegmentFetcher/ShareFinder loops, overdue "
    "handling, DataSpans semantics).")
TECHNIQUE = ("static analysis: symbolic normal forms of size formulas compared under a symbol map, struct-format "
             "folding of the share header, CFG gate rules for pad/trim, typestate exploration of CommonShare creation, "
             "of absent-data edges and of the satisfaction round (stage results, request retirement) in the downloader, "
             "inter-procedural reachability x memo-guard typestate for calls that move the uploadable's file handle, "
             "token typestate (taken server -> asked / kept / returned) over the CFGs of the ShareFinder methods with "
             "per-method hand-over and returns-an-element summaries")

ENC = "immutable.encode:Encoder"
NODE = "immutable.downloader.node:DownloadNode"
SHARE = "immutable.downloader.share:Share"
WBP = "immutable.layout:WriteBucketProxy"
WBP2 = "immutable.layout:WriteBucketProxy_v2"
RBP = "immutable.layout:ReadBucketProxy"
DECR = "immutable.filenode:DecryptingConsumer"

FIXUP = "__fixup__"          # synthetic: __fixup__(a, b) == (a if a != 0 else b)


# ===================================================================== toolkit
def node_of(fn, target):
    """CFG node that evaluates the AST node `target` (identity)."""
    for n in fn.cfg().nodes:
        for e in node_exprs(n):
            for x in own_nodes(e, into_lambda=True):
                if x is target:
                    return n
    raise AnalysisError("no CFG node evaluates %s in %s" % (src(fn, target), fn.qual))


def dominated_by(cfg, gate, target):
    """Every path entry -> target leaves the node `gate` first."""
    return not find_path_avoiding(cfg, lambda n: n is target, gate_node=lambda n: n is gate)


def zero_test(f, s):
    """Is the canonical edge fact f 'expression s is zero'?"""
    if not f:
        return False
    op, l, r = f
    return (op == "false" and l == s) or (op == "==" and {l, r} == {s, "0"})


class Sym:
    """Symbolic value of an expression at a CFG node of one function: locals are
    replaced by their reaching definition (evaluated at the definition), the
    two-definition 'x = a; if x == 0: x = b' shape becomes __fixup__(a, b),
    `a or b` likewise, self attributes stored earlier in the same function are
    replaced by the stored value (when expand_attrs), calls of mathutil helpers
    are named by the bare helper name, zero-argument self methods returning a
    constant are folded.  The result is an AST over parameters, self attributes
    and opaque calls."""

    def __init__(self, idx, fn, expand_attrs=False, keep=()):
        self.idx = idx
        self.fn = fn
        self.cfg = fn.cfg()
        self.fnorm = FlowNorm(fn)
        self.rd = self.fnorm.rd
        self.expand_attrs = expand_attrs
        self.keep = set(keep)
        self._attr_stores = None

    # -- attribute stores self.X = E (unique in the function)
    def attr_stores(self):
        if self._attr_stores is None:
            seen = {}
            for n in self.cfg.nodes:
                if n.kind != "stmt" or not isinstance(n.ast, ast.Assign):
                    for p in node_stores(n):
                        if p.startswith("self.") and not p.endswith("[]"):
                            seen.setdefault(p, []).append((n, None))
                    continue
                for p in node_stores(n):
                    if p.startswith("self.") and not p.endswith("[]"):
                        seen.setdefault(p, []).append((n, assign_value(n, p)))
            self._attr_stores = {p: v[0] for p, v in seen.items() if len(v) == 1 and v[0][1] is not None}
        return self._attr_stores

    def _fixup_parts(self, node, name, defs):
        """(d1 value node, E1, d2 node, E2) when the two reaching definitions form
        x = E1 ; if <x is zero>: x = E2."""
        if len(defs) != 2 or C.PARAM_DEF in defs:
            return None
        a, b = [self.cfg.nodes[d] for d in defs]
        for d1, d2 in ((a, b), (b, a)):
            v1, v2 = self.fnorm._def_value(d1, name), self.fnorm._def_value(d2, name)
            if v1 is None or v2 is None:
                continue
            preds = self.cfg.pred[d2.id]
            while len(preds) == 1 and self.cfg.nodes[preds[0][0]].kind == "stmt" \
                    and isinstance(self.cfg.nodes[preds[0][0]].ast, ast.Pass):
                preds = self.cfg.pred[preds[0][0]]
            if len(preds) != 1:
                continue
            pid, lab = preds[0]
            p = self.cfg.nodes[pid]
            if p.kind != "test" or self.rd.get(p.id, {}).get(name) != frozenset([d1.id]):
                continue
            t = p.ast
            while isinstance(t, ast.UnaryOp) and isinstance(t.op, ast.Not):
                t = t.operand
            if isinstance(t, ast.Compare):
                sides = [t.left] + list(t.comparators)
                if not any(isinstance(s, ast.Name) and s.id == name for s in sides):
                    continue
            elif not (isinstance(t, ast.Name) and t.id == name):
                continue
            s = self.fnorm.norm(p, ast.Name(id=name, ctx=ast.Load()))
            if zero_test(self.fnorm.edge_fact(p, lab), s):
                return d1, v1, d2, v2
        return None

    def expand(self, node, expr, depth=10):
        if depth <= 0:
            return copy.deepcopy(expr)
        sym = self

        class T(ast.NodeTransformer):
            def visit_Name(self, e):
                if not isinstance(e.ctx, ast.Load):
                    return e
                defs = sym.rd.get(node.id, {}).get(e.id)
                if not defs:
                    return e
                if len(defs) == 1:
                    (d,) = tuple(defs)
                    if d == C.PARAM_DEF:
                        return e
                    dn = sym.cfg.nodes[d]
                    v = sym.fnorm._def_value(dn, e.id)
                    if v is None or isinstance(v, (ast.Dict, ast.List, ast.Set, ast.ListComp, ast.DictComp, ast.SetComp)):
                        return e
                    return sym.expand(dn, v, depth - 1)
                fx = sym._fixup_parts(node, e.id, defs)
                if fx is not None:
                    d1, v1, d2, v2 = fx
                    return ast.Call(func=ast.Name(id=FIXUP, ctx=ast.Load()),
                                    args=[sym.expand(d1, v1, depth - 1), sym.expand(d2, v2, depth - 1)], keywords=[])
                return e

            def visit_Attribute(self, e):
                p = attr_path(e)
                if sym.expand_attrs and p and p.startswith("self.") and p not in sym.keep:
                    st = sym.attr_stores().get(p)
                    if st is not None and st[0] is not node and dominated_by(sym.cfg, st[0], node):
                        return sym.expand(st[0], st[1], depth - 1)
                return self.generic_visit(e)

            def visit_BoolOp(self, e):
                e = self.generic_visit(e)
                if isinstance(e.op, ast.Or) and len(e.values) == 2:
                    return ast.Call(func=ast.Name(id=FIXUP, ctx=ast.Load()), args=list(e.values), keywords=[])
                return e

            def visit_Call(self, e):
                e = self.generic_visit(e)
                f = e.func
                if isinstance(f, (ast.Name, ast.Attribute)):
                    r = None
                    try:
                        r = sym.idx.resolve_expr(sym.fn.module, f)
                    except Exception:
                        r = None
                    tail = f.attr if isinstance(f, ast.Attribute) else f.id
                    full = attr_path(f) or ""
                    target = sym.fn.module.imports.get(full.split(".")[0], "")
                    if tail in ("div_ceil", "next_multiple", "pad_size", "next_power_of_k") and (
                            target.startswith("allmydata.util.mathutil") or target.startswith("pyutil.mathutil")
                            or isinstance(r, FuncInfo)):
                        e.func = ast.Name(id=tail, ctx=ast.Load())
                    elif full.startswith("self.") and full.count(".") == 1 and not e.args and not e.keywords \
                            and sym.fn.cls is not None:
                        m = sym.fn.cls.lookup(tail)
                        if m is not None:
                            body = [s for s in m.body if not (isinstance(s, ast.Expr) and isinstance(s.value, ast.Constant))]
                            if len(body) == 1 and isinstance(body[0], ast.Return) and isinstance(body[0].value, ast.Constant):
                                return ast.Constant(value=body[0].value.value)
                return e
        return T().visit(copy.deepcopy(expr))


def subst_names(expr, mapping):
    """Replace parameter names by ASTs (inter-procedural composition)."""
    class T(ast.NodeTransformer):
        def visit_Name(self, e):
            if e.id in mapping:
                return copy.deepcopy(mapping[e.id])
            return e
    return T().visit(copy.deepcopy(expr))


def nf(expr, rename=None):
    return Normaliser(Env(None, rename=rename, depth=0)).norm(expr)


def quotient(expr, rename=None):
    """('ceil'|'floor', dividend nf, divisor nf, dividend ast) for div_ceil(a, b) / a // b."""
    if isinstance(expr, ast.Call) and isinstance(expr.func, ast.Name) and expr.func.id == "div_ceil" and len(expr.args) == 2:
        return ("ceil", nf(expr.args[0], rename), nf(expr.args[1], rename), expr.args[0])
    if isinstance(expr, ast.BinOp) and isinstance(expr.op, ast.FloorDiv):
        return ("floor", nf(expr.left, rename), nf(expr.right, rename), expr.left)
    return None


def is_multiple_call(expr, k_nf, rename):
    return isinstance(expr, ast.Call) and isinstance(expr.func, ast.Name) and expr.func.id == "next_multiple" \
        and len(expr.args) == 2 and nf(expr.args[1], rename) == k_nf


def bind_call_args(callee, call):
    """parameter name -> argument AST for a call of `callee` (positional + keyword)."""
    ps = first_positional_params(callee)
    out = {}
    for i, a in enumerate(call.args):
        if isinstance(a, ast.Starred) or i >= len(ps):
            raise AnalysisError("cannot bind arguments of %s" % ast.unparse(call))
        out[ps[i]] = a
    for kw in call.keywords:
        if kw.arg is None:
            raise AnalysisError("cannot bind **kwargs of %s" % ast.unparse(call))
        out[kw.arg] = kw.value
    return out


def bind_call_varargs(callee, call):
    """(parameter name -> argument AST, [ASTs that land in the callee's *vararg]) for a call of `callee`; a trailing
    `*x` of the call stays an ast.Starred in the list.  None when the call cannot be bound."""
    a_ = callee.node.args
    ps = [x.arg for x in getattr(a_, "posonlyargs", [])] + [x.arg for x in a_.args]
    if ps and ps[0] in ("self", "cls"):
        ps = ps[1:]
    va = a_.vararg
    named, extra = {}, []
    for i, a in enumerate(call.args):
        if isinstance(a, ast.Starred):
            if i < len(ps) or i != len(call.args) - 1 or va is None:
                return None
            extra.append(a)
        elif i < len(ps):
            named[ps[i]] = a
        elif va is not None:
            extra.append(a)
        else:
            return None
    for kw in call.keywords:
        if kw.arg is None:
            return None
        named[kw.arg] = kw.value
    return named, extra


class EffCall:
    """One call of a bucket-writer method: meth (str), recv / args (ASTs in the terms of the outermost function),
    chain [(FuncInfo, call AST, {name of that function -> outer AST})] from the outermost function to the call."""

    def __init__(self, meth, recv, args, chain, kws=None):
        self.meth, self.recv, self.args, self.chain, self.kws = meth, recv, args, chain, dict(kws or {})


class UnresolvedMethodName(AnalysisError):
    pass


def shareholder_calls(idx, cls, fn, env=None, extra=None, depth=3, nested=True, free=None):
    """The calls `fn` (a method of `cls`) makes on another object by method name: directly (`<recv>.<meth>(args)`), or
    through helper methods of `cls` that are handed the method - `getattr(<recv>, <name>)(*args)` with the name a
    constant string bound at the call site (possibly passed on through several helpers), or a bound method
    `<recv>.<meth>` handed to a helper that calls it.  Only calls whose callee is an attribute of a non-self receiver
    are reported.  A method name that is neither a constant nor a parameter raises UnresolvedMethodName."""
    sym = Sym(idx, fn)
    if free is None:
        # names of the outermost function: a method name that is still one of its parameters makes that function a
        # helper itself - its call sites are what binds the name
        free = set(fn.params) | ({fn.node.args.vararg.arg} if fn.node.args.vararg is not None else set())
    env = dict(env or {})
    va = fn.node.args.vararg.arg if fn.node.args.vararg is not None else None
    out = []
    calls = list(calls_in_func(fn, None, into_lambda=True))

    def node_for(c):
        try:
            return node_of(fn, c)
        except AnalysisError:
            return None

    def outer(n, e):
        e2 = sym.expand(n, e) if n is not None else e
        return subst_names(e2, env)

    def outer_args(n, args):
        res = []
        for a in args:
            if isinstance(a, ast.Starred):
                if isinstance(a.value, ast.Name) and a.value.id == va and extra is not None:
                    res.extend(extra)
                else:
                    res.append(a)
            else:
                res.append(outer(n, a))
        return res

    def outer_kws(n, c):
        return {k_.arg if k_.arg is not None else "**": outer(n, k_.value) for k_ in c.keywords}

    def alternatives(f):
        if isinstance(f, ast.IfExp):
            return alternatives(f.body) + alternatives(f.orelse)
        return [f]

    for c, f in [(c_, f_) for c_ in calls for f_ in alternatives(c_.func)]:
        n = node_for(c)
        if isinstance(f, ast.Call) and isinstance(f.func, ast.Name) and f.func.id == "getattr" and len(f.args) == 2 \
                and not f.keywords:
            nm = outer(n, f.args[1])
            if not isinstance(nm, ast.Constant) and not (isinstance(nm, ast.Name) and nm.id in free):
                try:             # "put_" + "block", a module-level / class-level constant
                    v = get_folder(idx).fold(nm, fn.module, cls)
                    if isinstance(v, str):
                        nm = ast.Constant(value=v)
                except Exception:
                    pass
            if isinstance(nm, ast.Constant) and isinstance(nm.value, str):
                out.append(EffCall(nm.value, outer(n, f.args[0]), outer_args(n, c.args), [(fn, c, env)], outer_kws(n, c)))
            elif isinstance(nm, ast.Name) and nm.id in free:
                pass
            else:
                raise UnresolvedMethodName("%s: the method called by %s is not named by a constant string" % (
                    short(fn), src(fn, c)))
            continue
        if isinstance(f, ast.Name):
            v = outer(n, f)
            if isinstance(v, ast.Attribute) and (f.id in env or v is not f) and attr_path(v.value) != "self" \
                    and not isinstance(v.value, ast.Name):
                out.append(EffCall(v.attr, v.value, outer_args(n, c.args), [(fn, c, env)], outer_kws(n, c)))
            continue
        if not isinstance(f, ast.Attribute):
            continue
        if attr_path(f.value) == "self":
            m = cls.lookup(f.attr)
            if m is None or m.qual == fn.qual or depth <= 0:
                continue
            b = bind_call_varargs(m, c)
            if b is None:
                continue
            named, ex = b
            env2 = {k_: outer(n, v_) for k_, v_ in named.items()}
            sub = shareholder_calls(idx, cls, m, env2, outer_args(n, ex), depth - 1, nested, free)
            for e in sub:
                out.append(EffCall(e.meth, e.recv, e.args, [(fn, c, env)] + e.chain, e.kws))
        else:
            out.append(EffCall(f.attr, outer(n, f.value), outer_args(n, c.args), [(fn, c, env)], outer_kws(n, c)))
    if nested:
        for subfn in fn.nested.values():
            out.extend(shareholder_calls(idx, cls, subfn, None, None, depth, nested, free | set(subfn.params)))
    return out


def the_call(fn, tail, pred=None, what=None):
    cs = [c for c in calls_in_func(fn, tail) if pred is None or pred(c)]
    if len(cs) != 1:
        raise AnchorVanished("%s: expected exactly one call of %s%s, found %d" % (
            short(fn), tail, (" " + what) if what else "", len(cs)))
    return cs[0]


def attr_store_value(sym, path):
    st = sym.attr_stores().get(path)
    if st is None:
        raise AnchorVanished("%s no longer stores %s exactly once" % (short(sym.fn), path))
    return st


def codec_share_size(idx, clsname):
    """share_size of codec.<clsname>.set_params as an AST over its parameters."""
    fn = idx.func("codec:%s.set_params" % clsname)
    return _share_size_of(idx, fn, 3)


def _share_size_of(idx, fn, depth):
    s = Sym(idx, fn, expand_attrs=True)
    stored = [q for q in fn.cfg().nodes if "self.share_size" in node_stores(q)]
    if stored or depth <= 0 or fn.cls is None:
        n, v = attr_store_value(s, "self.share_size")
        return fn, n, s.expand(n, v)
    # not stored here: stored by the set_params of a base class that this one calls (Base.set_params(self, ..) /
    # super().set_params(..)); its value is read over this method's own parameters
    mro = fn.cls.mro()
    hops = []
    for c in calls_in_func(fn, fn.name):
        f = c.func
        if not isinstance(f, ast.Attribute):
            continue
        base, args = None, None
        if isinstance(f.value, ast.Name) and c.args and isinstance(c.args[0], ast.Name) and c.args[0].id == "self":
            cands = [b for b in mro[1:] if b.name == f.value.id]
            if cands:
                base, args = cands[0], c.args[1:]
        elif isinstance(f.value, ast.Call) and isinstance(f.value.func, ast.Name) and f.value.func.id == "super":
            cands = [b for b in mro[1:] if fn.name in b.methods]
            if cands:
                base, args = cands[0], c.args
        if base is not None and fn.name in base.methods:
            hops.append((c, base.methods[fn.name], args))
    if len(hops) != 1:
        attr_store_value(s, "self.share_size")          # raises the fail-closed error
        raise AnchorVanished("%s: self.share_size is not stored" % short(fn))
    c, m, args = hops[0]
    call = ast.Call(func=c.func, args=list(args), keywords=list(c.keywords))
    bound = bind_call_args(m, call)
    n = node_of(fn, c)
    _m, mn, mv = _share_size_of(idx, m, depth - 1)
    ps = first_positional_params(m)
    if any(p_ not in bound for p_ in ps if any(isinstance(x, ast.Name) and x.id == p_ for x in ast.walk(mv))):
        raise AnalysisError("%s: cannot bind the arguments of %s" % (short(fn), src(fn, c)))
    return fn, n, subst_names(mv, {k_: s.expand(n, v_) for k_, v_ in bound.items()})


# ============================================================== rule bodies
def writer_symbols(idx, r=None):
    """Symbol map writer attribute -> canonical symbol, derived from the verify cap
    built by Encoder.done: CHKFileVerifierURI(.., needed_shares, total_shares, size)."""
    done = idx.func(ENC + ".done")
    call = the_call(done, "CHKFileVerifierURI")
    init = idx.func("uri:CHKFileVerifierURI.__init__")
    bound = bind_call_args(init, call)
    # __init__ must store each parameter under its own name (the reader uses self._verifycap.<name>)
    s = Sym(idx, init, expand_attrs=False)
    want = {"needed_shares": "K", "total_shares": "N", "size": "SIZE"}
    out = {}
    for pname, symb in want.items():
        st = s.attr_stores().get("self." + pname)
        ok = st is not None and isinstance(st[1], ast.Name) and st[1].id == pname
        if r is not None:
            r.require(ok, init, init.loc(st[0].ast if st else None),
                      "CHKFileVerifierURI.__init__ does not store parameter %s as self.%s" % (pname, pname))
        a = bound.get(pname)
        p = attr_path(a) if a is not None else None
        if p is None or not p.startswith("self."):
            raise AnchorVanished("Encoder.done: verify cap field %s is not built from an Encoder attribute" % pname)
        out[p] = symb
    return out, done, call


def ueb_aliases(fn):
    """Names bound to self.uri_extension_data in fn (plus the attribute path itself)."""
    al = {"self.uri_extension_data"}
    for n in fn.cfg().nodes:
        if n.kind == "stmt" and isinstance(n.ast, ast.Assign) and attr_path(n.ast.value) == "self.uri_extension_data":
            al.update(t.id for t in n.ast.targets if isinstance(t, ast.Name))
    return al


def ueb_stores(fn):
    """[(key, value expr, node)] for UEB[key] = value stores in fn."""
    al = ueb_aliases(fn)
    out = []
    for n in fn.cfg().nodes:
        if n.kind == "stmt" and isinstance(n.ast, ast.Assign):
            for t in n.ast.targets:
                if isinstance(t, ast.Subscript) and attr_path(t.value) in al and isinstance(t.slice, ast.Constant):
                    out.append((t.slice.value, n.ast.value, n))
    return out


def writer_seg_attr(idx):
    """SEG on the writer: the attribute stored under UEB key 'segment_size'."""
    w = idx.func(ENC + "._got_all_encoding_parameters")
    vals = [attr_path(v) for (k, v, n) in ueb_stores(w) if k == "segment_size"]
    if len(vals) != 1 or not vals[0] or not vals[0].startswith("self."):
        raise AnchorVanished("Encoder._got_all_encoding_parameters no longer stores UEB['segment_size'] from an attribute")
    return vals[0]


def run_formulas(ctx, r):
    idx = ctx.idx
    wmap, done, capcall = writer_symbols(idx, r)
    r.site(done, capcall, "symbol map " + ", ".join("%s=%s" % (v, k) for k, v in sorted(wmap.items(), key=lambda x: x[1])))
    w = idx.func(ENC + "._got_all_encoding_parameters")
    ws = Sym(idx, w, expand_attrs=False)
    seg_attr = writer_seg_attr(idx)
    wmap = dict(wmap)
    wmap[seg_attr] = "SEG"

    # ---- reader
    rd = idx.func(NODE + "._calculate_sizes")
    rs = Sym(idx, rd, expand_attrs=False)
    rp = first_positional_params(rd)
    if len(rp) != 1:
        raise AnchorVanished("_calculate_sizes signature changed")
    rmap = {"self._verifycap.size": "SIZE", "self._verifycap.needed_shares": "K",
            "self._verifycap.total_shares": "N", rp[0]: "SEG"}
    # the reader's SEG argument is the UEB field 'segment_size'
    p = idx.func(NODE + "._parse_and_store_UEB")
    ps = Sym(idx, p, expand_attrs=True)
    ccall = the_call(p, "_calculate_sizes")
    cn = node_of(p, ccall)
    a0 = ps.expand(cn, arg(ccall, 0, rp[0]))
    ok = isinstance(a0, ast.Subscript) and isinstance(a0.slice, ast.Constant) and a0.slice.value == "segment_size" \
        and isinstance(a0.value, ast.Call) and call_tail(a0.value) == "unpack_extension"
    r.site(p, ccall, "reader SEG = UEB['segment_size']")
    r.require(ok, p, p.loc(ccall), "_calculate_sizes is given %s, not the segment_size field of the unpacked UEB" % src(p, a0))
    # results of _calculate_sizes are stored under their own names
    res_names = [x.id for t in (n.ast.targets[0] for n in p.cfg().nodes if n.kind == "stmt" and isinstance(n.ast, ast.Assign)
                                and n.ast.value is ccall) for x in [t] if isinstance(x, ast.Name)]
    for n in p.cfg().nodes:
        if n.kind == "stmt" and isinstance(n.ast, ast.Assign) and isinstance(n.ast.value, ast.Subscript) \
                and isinstance(n.ast.value.value, ast.Name) and n.ast.value.value.id in res_names \
                and isinstance(n.ast.value.slice, ast.Constant):
            for t in n.ast.targets:
                tp = attr_path(t)
                if tp and tp.startswith("self."):
                    r.require(tp == "self." + n.ast.value.slice.value, p, p.loc(n.ast),
                              "%s is set from the %r entry of _calculate_sizes" % (tp, n.ast.value.slice.value))

    rets = rd.cfg().find(is_return)
    if len(rets) != 1:
        raise AnchorVanished("_calculate_sizes no longer has one return")
    rnode, rdict = rets[0], rets[0].ast.value
    if isinstance(rdict, ast.Name):       # dict literal bound to a local first
        ds = rs.rd.get(rnode.id, {}).get(rdict.id, frozenset())
        if len(ds) == 1 and C.PARAM_DEF not in ds:
            rnode = rd.cfg().nodes[next(iter(ds))]
            rdict = rs.fnorm._def_value(rnode, rdict.id)
    if not isinstance(rdict, ast.Dict):
        raise AnchorVanished("_calculate_sizes no longer returns one dict literal")
    rvals = {}
    for k_, v_ in zip(rdict.keys, rdict.values):
        if isinstance(k_, ast.Constant):
            rvals[k_.value] = rs.expand(rnode, v_)
    for need in ("tail_segment_size", "tail_segment_padded", "num_segments", "block_size", "tail_block_size"):
        if need not in rvals:
            raise AnchorVanished("_calculate_sizes no longer returns %r" % need)

    # ---- writer values
    n_ns, v_ns = attr_store_value(ws, "self.num_segments")
    w_numseg = ws.expand(n_ns, v_ns)
    enc_fn, enc_n, enc_share = codec_share_size(idx, "CRSEncoder")
    enc_params = first_positional_params(enc_fn)

    def codec_block(attr):
        c = the_call(w, "set_params", lambda c: attr_path(c.func.value) == attr, "on " + attr)
        n = node_of(w, c)
        bound = {k_: ws.expand(n, v_) for k_, v_ in bind_call_args(enc_fn, c).items()}
        for must, symb in ((enc_params[1], "K"), (enc_params[2], "N")):
            r.require(nf(bound.get(must), wmap) == symb, w, w.loc(c),
                      "%s.set_params %s is %s, not the %s of the verify cap" % (attr, must, src(w, bound.get(must)), symb))
        return c, bound[enc_params[0]], subst_names(enc_share, bound)
    c_main, w_seg_arg, w_block = codec_block("self._codec")
    c_tail, w_padded, w_tailblock = codec_block("self._tail_codec")

    def agree(name, wexpr, rexpr, wfn, wnode):
        a, b = nf(wexpr, wmap), nf(rexpr, rmap)
        r.site(rd, rnode.ast, "%s: writer %s | reader %s" % (name, a, b))
        r.count(1)
        if a == b:
            return True
        qa, qb = quotient(wexpr, wmap), quotient(rexpr, rmap)
        if qa and qb and qa[1] == qb[1] and qa[2] == qb[2] == "K":
            # floor == ceiling only for an exact multiple of k: SEG (rounded by the uploadable, rule C01.2)
            # or a next_multiple(.., k) value
            if qa[1] == "SEG" or (is_multiple_call(qa[3], "K", wmap) and is_multiple_call(qb[3], "K", rmap)):
                return True
        r.violation(rd, rd.loc(rnode.ast), "%s: the encoder computes %s (%s) but the downloader computes %s" % (
            name, a, wfn.loc(wnode), b))
        return False

    agree("num_segments", w_numseg, rvals["num_segments"], w, n_ns.ast)
    agree("padded tail size", w_padded, rvals["tail_segment_padded"], w, c_tail)
    # unpadded tail size: the first argument of the writer's next_multiple
    if isinstance(w_padded, ast.Call) and isinstance(w_padded.func, ast.Name) and w_padded.func.id == "next_multiple" \
            and len(w_padded.args) == 2:
        agree("tail segment size", w_padded.args[0], rvals["tail_segment_size"], w, c_tail)
        r.require(nf(w_padded.args[1], wmap) == "K", w, w.loc(c_tail), "the tail is padded to a multiple of %s, not of k"
                  % nf(w_padded.args[1], wmap))
    else:
        r.site(w, c_tail, "tail size")
        r.violation(w, w.loc(c_tail), "the tail codec is sized with %s, not next_multiple(tail, k)" % nf(w_padded, wmap))
    r.require(nf(w_seg_arg, wmap) == "SEG", w, w.loc(c_main), "the segment codec is sized with %s, not the UEB segment_size"
              % nf(w_seg_arg, wmap))
    agree("block size", w_block, rvals["block_size"], w, c_main)
    agree("tail block size", w_tailblock, rvals["tail_block_size"], w, c_tail)
    return wmap, rmap


def run_segsize(ctx, r):
    idx = ctx.idx
    g = idx.func("immutable.upload:BaseUploadable.get_all_encoding_parameters")
    inner = [f for f in g.nested.values() if any(isinstance(n, ast.Return) and n.value is not None for n in func_own_nodes(f))]
    tuples = []
    for f in inner:
        s = Sym(idx, f)
        for n in f.cfg().find(is_return):
            v = s.expand(n, n.ast.value)
            if isinstance(v, ast.Tuple) and len(v.elts) == 4:
                tuples.append((f, n, v))
    if len(tuples) != 1:
        raise AnchorVanished("BaseUploadable.get_all_encoding_parameters: the callback returning the (k, happy, n, segsize) "
                             "tuple was not found")
    f, n, v = tuples[0]
    r.site(f, n.ast, "segsize = %s" % nf(v.elts[3]))
    seg = v.elts[3]
    ok = isinstance(seg, ast.Call) and isinstance(seg.func, ast.Name) and seg.func.id == "next_multiple" \
        and len(seg.args) == 2 and nf(seg.args[1]) == nf(v.elts[0])
    r.require(ok, f, f.loc(n.ast), "segment size %s is not next_multiple(.., %s): the encoder requires a multiple of k"
              % (nf(seg), nf(v.elts[0])))
    # the encoder side: positions 0 and 3
    wmap, _done, _c = writer_symbols(idx)
    inv = {b: a for a, b in wmap.items()}
    w = idx.func(ENC + "._got_all_encoding_parameters")
    ws = Sym(idx, w, expand_attrs=True)
    p0 = first_positional_params(w)[0]
    wanted = {inv["K"]: 0, inv["N"]: 2}
    for path, pos in sorted(wanted.items()):
        node, val = attr_store_value(ws, path)
        got = nf(ws.expand(node, val))
        r.require(got == "%s[%d]" % (p0, pos), w, w.loc(node.ast), "%s is taken from %s, not from position %d of the "
                  "encoding-parameter tuple" % (path, got, pos))
    # segment size: the attribute stored in the UEB must be position 3
    segpaths = [p for p, (nd, val) in ws.attr_stores().items() if nf(ws.expand(nd, val)) == "%s[3]" % p0]
    r.site(w, None, "encoder unpack: k=[0], n=[2], segment size=[3] -> %s" % segpaths)
    r.require(segpaths == [writer_seg_attr(idx)], w, w.loc(), "the attribute written to UEB['segment_size'] (%s) is not "
              "the one set from position 3 (segment size) of the tuple (%s)" % (writer_seg_attr(idx), segpaths))


# ------------------------------------------------------------ share layout
def _const_key(e):
    if isinstance(e, ast.Subscript) and isinstance(e.slice, ast.Constant) and isinstance(e.slice.value, str):
        return e.slice.value
    return None


def writer_layout(idx, clsq):
    """Facts of one header writer, all obtained by folding / symbolic walk."""
    ci = idx.cls(clsq)
    fn = ci.lookup("_create_offsets")
    if fn is None or fn.cls is not ci:
        raise AnchorVanished("%s._create_offsets" % clsq)
    folder = get_folder(idx)
    pack = the_call(fn, "pack")
    try:
        fmt = folder.fold(pack.args[0], fn.module, ci)
    except NotConstant as e:
        raise AnalysisError("%s: header format is not a constant (%s)" % (short(fn), e))
    if isinstance(fmt, bytes):
        fmt = fmt.decode()
    prefix = fmt[0] if fmt and fmt[0] in "@=<>!" else ""
    codes = [c for (c, _n) in struct_fields(fmt)]
    args = list(pack.args[1:])
    if len(codes) != len(args) or len(args) < 4:
        raise AnalysisError("%s: %d header values for format %r" % (short(fn), len(args), fmt))
    try:
        version = folder.fold(args[0], fn.module, ci)
    except NotConstant:
        version = None
    names = [_const_key(a) for a in args[3:]]
    tables = {attr_path(a.value) for a in args[3:] if isinstance(a, ast.Subscript)}
    L = {"cls": ci, "fn": fn, "pack": pack, "fmt": fmt, "version": version, "names": names,
         "codes": codes, "prefix": prefix, "tables": tables,
         "table_start": _struct.calcsize(prefix + "".join(codes[:3])),
         "header": _struct.calcsize(fmt),
         "width": _struct.calcsize(prefix + codes[3]),
         "sizeargs": [attr_path(a) for a in args[1:3]]}
    # symbolic walk of the running offset
    cfg = fn.cfg()
    nrm = Normaliser(Env(None, depth=0))
    table_names = set(tables)
    store_nodes = {}
    var = set()
    for n in cfg.nodes:
        if n.kind == "stmt" and isinstance(n.ast, ast.Assign):
            for t in n.ast.targets:
                k = _const_key(t)
                if k is not None and attr_path(t.value) in table_names and isinstance(n.ast.value, ast.Name):
                    store_nodes[n.id] = k
                    var.add(n.ast.value.id)
    if len(var) != 1:
        raise AnchorVanished("%s: offsets are not stored from one running variable" % short(fn))
    x = var.pop()
    offs = {}

    def transfer(n, lab, nxt, st):
        if lab == "exc" or nxt.kind == "raise":
            return None
        if n.id in store_nodes and st != "?":
            offs.setdefault(store_nodes[n.id], set()).add(st)
        if n.kind == "stmt" and isinstance(n.ast, ast.Assign) and any(isinstance(t, ast.Name) and t.id == x for t in n.ast.targets):
            return nrm.poly(n.ast.value)
        if n.kind == "stmt" and isinstance(n.ast, ast.AugAssign) and isinstance(n.ast.target, ast.Name) and n.ast.target.id == x:
            if st == "?":
                return st
            if isinstance(n.ast.op, ast.Add):
                return st + nrm.poly(n.ast.value)
            if isinstance(n.ast.op, ast.Sub):
                return st - nrm.poly(n.ast.value)
            raise AnalysisError("%s: unsupported update of %s" % (short(fn), x))
        return st
    visited, _p = explore(cfg, "?", transfer)
    L["states"] = len(visited)
    L["offsets"] = offs
    return L


def reader_tables(idx, fn, name_targets):
    """Per version branch of an offset-table reader: {version: {target: const}} for the
    stores to the given names / attribute paths; plus the ordered list of offset names."""
    cfg = fn.cfg()
    fnorm = FlowNorm(fn)
    folder = get_folder(idx)
    vers = {}

    def version_of(n, lab):
        f = fnorm.edge_fact(n, lab)
        if not f or f[0] not in ("==", "!="):
            return None
        for a, b in ((f[1], f[2]), (f[2], f[1])):
            if a in ("1", "2") and re.search(r"unpack\(", b or ""):
                return (f[0], int(a))
        return None

    def transfer(n, lab, nxt, st):
        if lab == "exc" or nxt.kind == "raise":
            return None
        v = version_of(n, lab)
        if v is not None:
            if v[0] == "==":
                if st not in (0, v[1]) and not isinstance(st, tuple):
                    return None
                st = v[1]
            elif st == v[1]:
                return None
            elif st == 0:
                st = ("not", v[1])
            elif isinstance(st, tuple) and st[1] != v[1]:
                st = ("not", 0)
        if n.kind == "stmt" and isinstance(n.ast, ast.Assign) and st != 0:
            for t in n.ast.targets:
                p = attr_path(t)
                if p in name_targets:
                    try:
                        val = folder.fold(n.ast.value, fn.module, fn.cls)
                    except NotConstant:
                        val = None
                    vers.setdefault(st, {}).setdefault(p, set()).add(val)
        return st
    visited, _p = explore(cfg, 0, transfer)
    # ordered offset names: a for loop over a literal sequence of strings whose body stores into a dict by the loop variable
    names = None
    for n in cfg.nodes:
        if n.kind != "iter":
            continue
        it = n.ast.iter
        if isinstance(it, ast.Call) and call_tail(it) == "enumerate" and it.args:
            it = it.args[0]
        if isinstance(it, (ast.List, ast.Tuple)) and it.elts and all(isinstance(e, ast.Constant) and isinstance(e.value, str) for e in it.elts):
            names = [e.value for e in it.elts]
            loop = n
    if names is None:
        raise AnchorVanished("%s: the loop over the offset names was not found" % short(fn))
    return vers, names, loop, len(visited)


def run_layout_table(ctx, r):
    idx = ctx.idx
    writers = {}
    for clsq in (WBP, WBP2):
        L = writer_layout(idx, clsq)
        fn = L["fn"]
        r.site(fn, L["pack"], "v%s fmt=%s table@0x%x header=0x%x names=%s" % (
            L["version"], L["fmt"], L["table_start"], L["header"], ",".join(map(str, L["names"]))))
        r.count(L["states"])
        r.require(L["version"] in (1, 2) and L["version"] not in writers, fn, fn.loc(L["pack"]),
                  "header version is %r" % (L["version"],))
        writers[L["version"]] = L
        r.require(None not in L["names"] and len(L["tables"]) == 1, fn, fn.loc(L["pack"]),
                  "offset-table values are not all entries of one offsets dict")
        r.require(len(set(L["codes"][3:])) == 1, fn, fn.loc(L["pack"]), "offset fields have mixed widths: %s" % L["fmt"])
        r.require(L["prefix"] == ">", fn, fn.loc(L["pack"]), "header is not big-endian standard layout: %r" % L["fmt"])
        r.require(L["codes"][0] == "L", fn, fn.loc(L["pack"]), "version field is not a 4-byte big-endian integer: %r" % L["fmt"])
        # start of data == size of the header that put_header writes
        d0 = L["offsets"].get(L["names"][0] if L["names"] else None, set())
        r.require(len(d0) == 1 and next(iter(d0)).const_value() == L["header"], fn, fn.loc(),
                  "first region starts at %s but the packed header is 0x%x bytes" % (", ".join(map(str, d0)), L["header"]))
        # class constants used for the UEB length prefix
        folder = get_folder(idx)
        try:
            fs, fst = folder.class_attr(L["cls"], "fieldsize"), folder.class_attr(L["cls"], "fieldstruct")
        except NotConstant as e:
            raise AnchorVanished("%s.fieldsize/fieldstruct: %s" % (clsq, e))
        r.require(fst == ">" + L["codes"][3] and fs == L["width"] == _struct.calcsize(fst), fn, fn.loc(),
                  "%s: fieldsize=%r fieldstruct=%r do not match the offset field %r of the header" % (
                      L["cls"].name, fs, fst, L["codes"][3]))
    if set(writers) != {1, 2}:
        raise AnchorVanished("header writers for versions 1 and 2 not both found")
    r.require(writers[1]["names"] == writers[2]["names"], writers[2]["fn"], writers[2]["fn"].loc(writers[2]["pack"]),
              "v1 and v2 headers list the offsets in different orders")

    def compare(fn, vers, names, loop, keys, what):
        """keys: (start target, size target, struct target)"""
        for v in (1, 2):
            W = writers[v]
            cands = [k for k in vers if k == v or (v == 2 and k == ("not", 1)) or (v == 1 and k == ("not", 2))]
            if not cands:
                raise AnchorVanished("%s: no branch for share version %d" % (short(fn), v))
            t = vers[cands[0]]
            r.site(fn, loop.ast, "%s v%d: %s" % (what, v, {k: sorted(map(repr, x)) for k, x in sorted(t.items())}))
            r.count(1)
            st, sz, sc = (t.get(k, set()) for k in keys)
            r.require(st == {W["table_start"]}, fn, fn.loc(loop.ast), "%s reads the v%d offset table at %s; the writer puts "
                      "it at 0x%x" % (what, v, sorted(map(repr, st)), W["table_start"]))
            r.require(sz == {W["width"]}, fn, fn.loc(loop.ast), "%s uses field size %s for v%d; the writer packs %d-byte "
                      "fields" % (what, sorted(map(repr, sz)), v, W["width"]))
            codes = {(c or "").lstrip("><=!@") if isinstance(c, str) else c for c in sc}
            r.require(codes == {W["codes"][3]}, fn, fn.loc(loop.ast), "%s unpacks v%d fields as %s; the writer packs %r" % (
                what, v, sorted(map(repr, sc)), W["codes"][3]))
            r.require(names == W["names"], fn, fn.loc(loop.ast), "%s assigns the table to %s; the v%d writer packs %s" % (
                what, names, v, W["names"]))

    # reader 1: the downloader
    so = idx.func(SHARE + "._satisfy_offsets")
    tpops = [c for c in calls_in_func(so, "pop") if len(c.args) == 2 and isinstance(c.args[0], ast.Name)]
    if len(tpops) != 1:
        raise AnchorVanished("_satisfy_offsets: read of the offset table at a local start position not found")
    skeys = (tpops[0].args[0].id, "self._fieldsize", "self._fieldstruct")
    vers, names, loop, nst = reader_tables(idx, so, set(skeys))
    r.count(nst)
    compare(so, vers, names, loop, skeys, "Share._satisfy_offsets")
    # the table is unpacked as len(names) big-endian fields of that code and popped with len(names) * fieldsize
    nrm = N(so)
    up = [c for c in calls_in_func(so, "unpack") if len(c.args) == 2 and "self._fieldstruct" in nrm.norm(c.args[0])]
    if len(up) != 1:
        raise AnchorVanished("_satisfy_offsets: unpack of the offset table not found")
    for code in ("L", "Q"):
        class T(ast.NodeTransformer):
            def visit_Attribute(self, e):
                if attr_path(e) == "self._fieldstruct":
                    return ast.Constant(value=code)
                return self.generic_visit(e)
        e = Sym(idx, so).expand(node_of(so, up[0]), up[0].args[0])
        try:
            f = get_folder(idx).fold(T().visit(e), so.module, so.cls)
        except NotConstant as ex:
            raise AnalysisError("_satisfy_offsets: table format not foldable: %s" % ex)
        r.require(f == ">" + code * len(names), so, so.loc(up[0]), "offset table is unpacked with %r for %d names" % (f, len(names)))
    pops = [c for c in calls_in_func(so, "pop") if len(c.args) == 2]
    for c in pops:
        n = node_of(so, c)
        s = Sym(idx, so)
        a1 = N(so).poly(s.expand(n, c.args[1]))
        r.require(a1 == Poly.atom("self._fieldsize") * Poly.const(len(names)), so, so.loc(c),
                  "the offset table is read as %s bytes, not %d fields" % (a1, len(names)))
    if not pops:
        raise AnchorVanished("_satisfy_offsets: read of the offset table not found")

    # reader 2: ReadBucketProxy (checker / helper path)
    po = idx.func(RBP + "._parse_offsets")
    # the locals holding (table position, field size, field format): the names used by unpack(<fmt>, data[<pos>:<pos>+<size>])
    keys = None
    for c in calls_in_func(po, "unpack"):
        if len(c.args) == 2 and isinstance(c.args[0], ast.Name) and isinstance(c.args[1], ast.Subscript) \
                and isinstance(c.args[1].slice, ast.Slice):
            sl = c.args[1].slice
            if isinstance(sl.lower, ast.Name) and isinstance(sl.upper, ast.BinOp) and isinstance(sl.upper.op, ast.Add):
                ns = [x.id for x in (sl.upper.left, sl.upper.right) if isinstance(x, ast.Name)]
                if len(ns) == 2 and sl.lower.id in ns and ns[0] != ns[1]:
                    keys = (sl.lower.id, [x for x in ns if x != sl.lower.id][0], c.args[0].id)
    if keys is None:
        raise AnchorVanished("_parse_offsets: unpack(<format>, data[<pos>:<pos>+<size>]) of one table field not found")
    vers, names, loop, nst = reader_tables(idx, po, set(keys))
    r.count(nst)
    compare(po, vers, names, loop, keys, "ReadBucketProxy._parse_offsets")


# ------------------------------------------------------- region contiguity
def put_methods(idx, ci):
    """For each method of the writer class that calls self._queue_write(offset, data):
    (method, call, region key or None, offset AST, data AST, node, Sym)."""
    out = []
    seen = set()
    for c in ci.mro():
        for name, m in c.methods.items():
            if name in seen:
                continue
            seen.add(name)
            for call in calls_in_func(m, "_queue_write"):
                if call_name(call) != "self._queue_write" or len(call.args) != 2:
                    continue
                s = Sym(idx, m)
                n = node_of(m, call)
                off = s.expand(n, call.args[0])
                out.append((m, call, off, s.expand(n, call.args[1]), n, s))
    return out


def written_length(m, s, data):
    """Poly of the number of bytes `data` is asserted / constructed to have, or None."""
    nrm = Normaliser(Env(None, depth=0))
    if isinstance(data, ast.BinOp) and isinstance(data.op, ast.Mult):
        for a, b in ((data.left, data.right), (data.right, data.left)):
            if isinstance(a, ast.Constant) and isinstance(a.value, bytes):
                return Poly.const(len(a.value)) * nrm.poly(b)
    want = "len(%s)" % nf(data)
    found = []
    for p in m.cfg().nodes:
        if p.kind == "test" and p.assume and isinstance(p.ast, ast.Compare) and len(p.ast.ops) == 1 \
                and isinstance(p.ast.ops[0], ast.Eq):
            l, r_ = s.expand(p, p.ast.left), s.expand(p, p.ast.comparators[0])
            for a, b in ((l, r_), (r_, l)):
                if nf(a) == want:
                    found.append(nrm.poly(b))
    if len(found) == 1:
        return found[0]
    return None


def encoder_put_order(idx):
    """Ordered list of (registration call, [put_* tails reached]) on the Deferred chain of Encoder.start."""
    st = idx.func(ENC + ".start")
    enc = idx.cls(ENC)

    def self_calls(fn):
        out = []
        for c in calls_in_func(fn, None, into_lambda=True):
            nm = call_name(c)
            if nm.startswith("self.") and nm.count(".") == 1:
                out.append(nm.split(".")[1])
        for sub in fn.nested.values():
            out.extend(self_calls(sub))
        return out

    def puts_of(fn):
        out = [call_tail(c) for c in calls_in_func(fn, None, into_lambda=True) if call_tail(c).startswith("put_")]
        for sub in fn.nested.values():
            out.extend(puts_of(sub))
        return out

    def reach(name, seen):
        m = enc.lookup(name)
        if m is None or name in seen:
            return []
        seen.add(name)
        res = list(puts_of(m))
        # put_* calls made through helper methods that are handed the method name / the bound method
        res.extend(e.meth for e in shareholder_calls(idx, enc, m, depth=4) if len(e.chain) > 1 and e.meth.startswith("put_"))
        for nm in self_calls(m):
            res.extend(reach(nm, seen))
        return res
    order = []
    for reg in registrations(st):
        t = reg.target
        names = []
        if isinstance(t, ast.Lambda):
            for c in own_nodes(t.body, into_lambda=True):
                if isinstance(c, ast.Call) and call_name(c).startswith("self."):
                    names.append(call_name(c).split(".")[1])
        elif isinstance(t, ast.Attribute) and attr_path(t) and attr_path(t).startswith("self."):
            names.append(t.attr)
        puts = []
        for nm in names:
            puts.extend(reach(nm, set()))
        if puts:
            order.append((reg, sorted(set(puts))))
    return st, order


def run_contiguity(ctx, r):
    idx = ctx.idx
    nrm = Normaliser(Env(None, depth=0))
    region_of_put = {}
    for clsq in (WBP, WBP2):
        L = writer_layout(idx, clsq)
        ci, names, offs = L["cls"], L["names"], L["offsets"]
        for k in names:
            if len(offs.get(k, ())) != 1:
                raise AnalysisError("%s: offset of %r is not a single symbolic value: %s" % (clsq, k, offs.get(k)))
        off = {k: next(iter(offs[k])) for k in names}
        puts = put_methods(idx, ci)
        if len(puts) < 6:
            raise AnchorVanished("%s: fewer than 6 _queue_write sites" % clsq)
        covered = {}
        for (m, call, o, data, n, s) in puts:
            key = _const_key(o) if attr_path(getattr(o, "value", None)) in ("self._offsets",) else None
            if key is None:
                if isinstance(o, ast.Constant) and o.value == 0:
                    # the header itself: self._offset_data of len == header (asserted in _create_offsets)
                    covered.setdefault("<header>", []).append((m, call))
                    region_of_put.setdefault(m.name, set()).add(-1)
                elif isinstance(o, ast.BinOp):
                    covered.setdefault("<block>", []).append((m, call, o))
                    covered.setdefault(names[0], []).append((m, call))
                    region_of_put.setdefault(m.name, set()).add(0)
                else:
                    r.violation(m, m.loc(call), "%s writes at %s, not at an entry of the offset table" % (m.name, nf(o)))
                continue
            if key not in names:
                r.violation(m, m.loc(call), "%s writes at offsets[%r], which is not in the header" % (m.name, key))
                continue
            region_of_put.setdefault(m.name, set()).add(names.index(key))
            ln = written_length(m, s, data)
            i = names.index(key)
            if clsq == WBP:
                r.site(m, call, "region %s length %s" % (key, ln))
            r.count(1)
            if i + 1 < len(names):
                gap = off[names[i + 1]] - off[key]
                r.require(ln is not None and gap == ln, L["fn"], L["fn"].loc(), "%s: region %r is %s bytes long in "
                          "%s but %s writes %s bytes there (writes must be contiguous)" % (
                              ci.name, key, gap, short(L["fn"]), m.name, ln if ln is not None else "an unchecked number of"))
            else:
                # last region: <length field><data>; allocated size = offsets[last] + fieldsize + len(data)
                ok = isinstance(data, ast.BinOp) and isinstance(data.op, ast.Add) and isinstance(data.left, ast.Call) \
                    and call_tail(data.left) == "pack" and nf(data.left.args[0]) == "self.fieldstruct" \
                    and nf(data.left.args[1]) == "len(%s)" % nf(data.right)
                r.require(ok, m, m.loc(call), "%s does not write <length packed with self.fieldstruct><data>: %s" % (m.name, nf(data)))
                ln2 = written_length(m, s, data.right) if ok else None
                ga = ci.lookup("get_allocated_size")
                if ga is None:
                    raise AnchorVanished("%s.get_allocated_size" % clsq)
                rets = ga.cfg().find(is_return)
                tot = nrm.poly(Sym(idx, ga).expand(rets[0], rets[0].ast.value)) if len(rets) == 1 else None
                want = Poly.atom("self._offsets[%r]" % key) + Poly.atom("self.fieldsize") + (ln2 if ln2 is not None else Poly.atom("?"))
                r.require(tot == want, ga, ga.loc(), "allocated share size %s is not offsets[%r] + fieldsize + %s" % (tot, key, ln2))
            covered.setdefault(key, []).append((m, call))
        for k in names:
            r.require(k in covered, L["fn"], L["fn"].loc(), "%s: no put_* method writes region %r (the share would have a hole; "
                      "writes must be appended)" % (ci.name, k))
        # a put method that chains to another writer method covers that region too
        for c in ci.mro():
            for name, m in c.methods.items():
                for cl in calls_in_func(m, None, into_lambda=True):
                    nm = call_name(cl)
                    if nm.startswith("self.") and nm.split(".", 1)[1] in region_of_put and nm.split(".", 1)[1] != "_queue_write" \
                            and name != nm.split(".", 1)[1]:
                        region_of_put.setdefault(name, set()).update(region_of_put[nm.split(".", 1)[1]])
        # data region: data_size parameter; put_block addresses blocks at offsets['data'] + segnum * block_size
        fnp = first_positional_params(L["fn"])
        gap = off[names[1]] - off[names[0]]
        r.require(len(fnp) == 2 and gap == Poly.atom(fnp[1]) and L["sizeargs"] == fnp, L["fn"], L["fn"].loc(),
                  "%s: the data region is %s bytes, header size fields are %s (parameters %s)" % (ci.name, gap, L["sizeargs"], fnp))
        for (m, call, o) in covered.get("<block>", []):
            ps = first_positional_params(m)
            want = Poly.atom("self._offsets[%r]" % names[0]) + Poly.atom(ps[0]) * Poly.atom("self._block_size")
            if clsq == WBP:
                r.site(m, call, "block address %s" % nrm.poly(o))
            r.require(nrm.poly(o) == want, m, m.loc(call), "block %s is written at %s, not at offsets[%r] + %s * block_size" % (
                ps[0], nrm.poly(o), names[0], ps[0]))
        if not covered.get("<block>") or not covered.get("<header>"):
            raise AnchorVanished("%s: put_block / put_header write not found" % clsq)
        # _create_offsets(block_size, data_size) is called with the constructor's parameters, stored as _block_size
        init = ci.lookup("__init__")
        cc = the_call(init, "_create_offsets")
        b = bind_call_args(L["fn"], cc)
        si = Sym(idx, init, expand_attrs=True)
        nb, vb = attr_store_value(si, "self._block_size")
        r.require(nf(b[fnp[0]]) == nf(vb) and isinstance(vb, ast.Name), init, init.loc(cc),
                  "header block size %s differs from the block size %s used to address blocks" % (nf(b[fnp[0]]), nf(vb)))
    # order in which the encoder sends regions
    st, order = encoder_put_order(idx)
    seq = []
    for reg, puts in order:
        idxs = sorted({i for p_ in puts for i in region_of_put.get(p_, ())})
        unknown = [p_ for p_ in puts if p_ not in region_of_put]
        if unknown:
            r.violation(st, st.loc(reg.call), "encoder calls %s which writes no known region" % unknown)
        seq.append((reg, puts, idxs))
    r.site(st, None, "send order: " + " < ".join("+".join(p_) for _g, p_, _i in seq))
    flat = [i for _g, _p, ii in seq for i in ii]
    last = -2
    for reg, puts, idxs in seq:
        if idxs:
            r.require(idxs[0] >= last, st, st.loc(reg.call), "%s is sent after a later region of the share (regions must be "
                      "appended in layout order)" % "+".join(puts))
            last = max(last, idxs[-1])
    r.require(set(flat) >= set(range(-1, 6)), st, st.loc(), "the encoder does not send every region of the share: %s" % sorted(set(flat)))


# ------------------------------------------------------------------ UEB keys
def run_ueb(ctx, r):
    idx = ctx.idx
    enc = idx.cls(ENC)
    written = {}
    for m in enc.methods.values():
        for (k, v, n) in ueb_stores(m):
            written.setdefault(k, []).append((m, n))
    if len(written) < 8:
        raise AnchorVanished("Encoder: fewer than 8 UEB keys are stored (%s)" % sorted(written))
    r.site(enc.methods["_got_all_encoding_parameters"], None, "encoder writes UEB keys %s" % sorted(written))
    # the size pre-computation asserts the exact key set (put_uri_extension checks the length)
    gs = idx.func(ENC + ".get_uri_extension_size")
    sets = [c for n in gs.cfg().nodes if n.kind == "test" and n.assume and isinstance(n.ast, ast.Compare)
            for c in [n.ast.left] + n.ast.comparators if isinstance(c, ast.Set)]
    if len(sets) != 1:
        raise AnchorVanished("get_uri_extension_size: key-set assertion not found")
    declared = {e.value for e in sets[0].elts if isinstance(e, ast.Constant)}
    r.site(gs, sets[0], "declared key set")
    r.require(declared == set(written), gs, gs.loc(sets[0]), "the URI-extension size is computed for keys %s but the encoder "
              "writes %s" % (sorted(declared ^ set(written)), sorted(written)))
    # key grammar and integer conversion
    pk = idx.func("uri:pack_extension")
    pats = [c.args[0].value for c in calls_in_func(pk, "match") if c.args and isinstance(c.args[0], ast.Constant)
            and isinstance(c.args[0].value, (bytes, str))]
    if len(pats) != 1:
        raise AnchorVanished("pack_extension: key grammar not found")
    pat = pats[0] if isinstance(pats[0], bytes) else pats[0].encode()
    r.site(pk, None, "key grammar %r" % pat)
    for k in sorted(written):
        m, n = written[k][0]
        r.require(re.match(pat, k.encode()) is not None, m, m.loc(n.ast), "UEB key %r does not fit the key grammar %r of "
                  "pack_extension" % (k, pat))
    up = idx.func("uri:unpack_extension")
    intkeys = None
    for n in up.cfg().nodes:
        if n.kind == "iter" and isinstance(n.ast.iter, (ast.Tuple, ast.List)) \
                and all(isinstance(e, ast.Constant) and isinstance(e.value, str) for e in n.ast.iter.elts):
            body_ints = [c for c in calls_in_func(up, "int") if isinstance(c.args[0], ast.Subscript)
                         and isinstance(c.args[0].slice, ast.Name) and c.args[0].slice.id == getattr(n.ast.target, "id", None)]
            if body_ints:
                intkeys = {e.value for e in n.ast.iter.elts}
    if intkeys is None:
        raise AnchorVanished("unpack_extension: integer key conversion loop not found")
    r.site(up, None, "integer keys %s" % sorted(intkeys))

    def reads(fn):
        """[(key, node, unconditional)] for d[key] loads where d is the unpacked UEB."""
        s = Sym(idx, fn)
        cfg = fn.cfg()
        fnorm = FlowNorm(fn)
        out = []
        for n in cfg.nodes:
            for e in node_exprs(n):
                for x in own_nodes(e):
                    if isinstance(x, ast.Subscript) and isinstance(x.ctx, ast.Load) and _const_key(x) is not None \
                            and isinstance(x.value, ast.Name):
                        base = s.expand(n, x.value)
                        if isinstance(base, ast.Call) and call_tail(base) == "unpack_extension":
                            key = _const_key(x)

                            def guard(m, lab, _k=key):
                                f = fnorm.edge_fact(m, lab)
                                return bool(f) and f[0] == "in" and f[1] == repr(_k)
                            uncond = bool(find_path_avoiding(cfg, lambda q, _n=n: q is _n, gate_edge=guard))
                            out.append((key, n, uncond))
        return out
    for q, arith in ((NODE + "._parse_and_store_UEB", {"segment_size"}),
                     ("immutable.checker:ValidatedExtendedURIProxy._parse_and_validate", {"segment_size"})):
        fn = idx.func(q)
        rs = reads(fn)
        if not rs:
            raise AnchorVanished("%s reads no UEB field" % q)
        r.site(fn, None, "reads %s" % sorted({k for k, _n, u in rs if u}))
        for k, n, uncond in rs:
            if uncond:
                r.require(k in written, fn, fn.loc(n.ast), "%s needs UEB key %r which the encoder never writes" % (short(fn), k))
            if k in arith:
                r.require(k in intkeys, fn, fn.loc(n.ast), "UEB key %r is used as a number but unpack_extension does not convert it" % k)


# ------------------------------------------------------------- pad and trim
def gated_by_truth(fn, target_pred, name_nf, polarity="truth", also=None):
    """Paths to nodes satisfying target_pred that pass no edge on which `name_nf` is truthy
    (or on which the canonical fact `also` holds)."""
    cfg = fn.cfg()
    fnorm = FlowNorm(fn)

    def gate(n, lab):
        f = fnorm.edge_fact(n, lab)
        return bool(f) and ((f[0] == polarity and f[1] == name_nf) or (also is not None and f == also))
    return find_path_avoiding(cfg, target_pred, gate_edge=gate)


def tail_fact(seg_name, numseg_nf):
    return Normaliser(Env(None, depth=0)).cmp(parse_expr("%s == %s - 1" % (seg_name, numseg_nf)), True)


def is_tail_expr(fn, sym, node, e, seg_name, numseg_nf):
    """e is (seg == <num_segments> - 1)."""
    x = sym.expand(node, e)
    got = Normaliser(Env(None, depth=0)).cmp(x, True)
    want = Normaliser(Env(None, depth=0)).cmp(parse_expr("%s == %s - 1" % (seg_name, numseg_nf)), True)
    return got == want, got


def run_padtrim(ctx, r):
    idx = ctx.idx
    nrm = Normaliser(Env(None, depth=0))
    # ---- writer: _gather_data pads only when allow_short, up to read_size
    gd = idx.func(ENC + "._gather_data")
    got = gd.nested.get("_got")
    if got is None:
        raise AnchorVanished("Encoder._gather_data._got")
    gdp = first_positional_params(gd)

    def pads(n):
        return any(isinstance(x, ast.BinOp) and isinstance(x.op, ast.Mult) and any(
            isinstance(y, ast.Constant) and isinstance(y.value, bytes) for y in (x.left, x.right))
            for e in node_exprs(n) for x in own_nodes(e))
    pn = got.cfg().find(pads)
    if len(pn) != 1:
        raise AnchorVanished("_gather_data._got: padding statement not found")
    r.site(got, pn[0].ast, "tail padding")
    fng = FlowNorm(got)

    def pad_gate(n, lab):
        f = fng.edge_fact(n, lab)
        if not f:
            return False
        if f[0] == "truth" and f[1] == "allow_short":
            return True
        # an exact-length precondition makes the padding a no-op
        return f[0] == "==" and n.assume and any(re.match(r"^len\(.*\)$", x or "") for x in f[1:]) \
            and any(re.match(r"^\w+$", x or "") for x in f[1:])
    for (n, w) in find_path_avoiding(got.cfg(), pads, gate_edge=pad_gate):
        r.violation(got, got.loc(n.ast), "a short read of a non-tail segment is silently zero-padded: neither allow_short "
                    "nor an exact-length precondition holds (path: %s)" % w.brief(), w)
    # ... and for the tail (allow_short) the padding is reachable without an exact-length precondition
    def exact_len(n, lab):
        f = fng.edge_fact(n, lab)
        return bool(f) and f[0] == "==" and n.assume and any(re.match(r"^len\(.*\)$", x or "") for x in f[1:]) \
            and any(re.match(r"^\w+$", x or "") for x in f[1:])

    def pad_reach(n, lab, nxt, st):
        if lab == "exc" or nxt.kind == "raise":
            return None
        short, exact = st
        f = fng.edge_fact(n, lab)
        if f and f[0] in ("truth", "false") and f[1] == "allow_short":
            v = f[0] == "truth"
            if short is not None and short != v:
                return None
            short = v
        return (short, exact or exact_len(n, lab))
    vis_p, _par = explore(got.cfg(), (None, False), pad_reach)
    r.count(len(vis_p))
    r.require(any(got.cfg().nodes[i] is pn[0] and st[0] is not False and not st[1] for (i, st) in vis_p), got, got.loc(pn[0].ast),
              "with allow_short (the tail segment) the padding is only reached after a precondition that the data already has "
              "the full length: a tail whose size is not a multiple of k fails the precondition instead of being padded")
    # ... and a short tail never leaves unpadded: every path to the return on which allow_short may hold passes the
    # padding or an edge on which the data is known to have the full length
    def full_len(n, lab):
        f = fng.edge_fact(n, lab)
        if not f or f[0] not in ("==", "<=", "<"):
            return False
        l_, r_ = f[1] or "", f[2] or ""
        if f[0] == "==":
            return (bool(re.match(r"^len\(.*\)$", l_)) and bool(re.match(r"^\w+$", r_))) or \
                   (bool(re.match(r"^len\(.*\)$", r_)) and bool(re.match(r"^\w+$", l_)))
        return bool(re.match(r"^\w+$", l_)) and bool(re.match(r"^len\(.*\)$", r_))      # read_size <= / < len(data)

    def unpadded(n, lab, nxt, st):
        if lab == "exc" or nxt.kind == "raise" or n is pn[0]:
            return None
        f = fng.edge_fact(n, lab)
        if f and f[0] in ("truth", "false") and f[1] == "allow_short":
            v = "T" if f[0] == "truth" else "F"
            if st != "?" and st != v:
                return None
            st = v
        if full_len(n, lab):
            return None
        return st
    vis_u, par_u = explore(got.cfg(), "?", unpadded)
    r.count(len(vis_u))
    for (i, st) in sorted(vis_u):
        q = got.cfg().nodes[i]
        if is_return(q) and st != "F":
            w = witness(got.cfg(), par_u, (i, st))
            r.violation(got, got.loc(pn[0].ast), "a short tail read (allow_short) can reach the return without being padded to "
                        "num_chunks * input_chunk_size bytes: the last chunk is short and the tail codec refuses it (path: %s)"
                        % w.brief(), w)
            break
    a = pn[0].ast
    ok = isinstance(a, ast.AugAssign) and isinstance(a.op, ast.Add) and isinstance(a.target, ast.Name)
    if ok:
        mult = a.value
        other = mult.right if isinstance(mult.left, ast.Constant) else mult.left
        padlen = nrm.poly(other)
        gs = Sym(idx, gd)
        bound_outside = {x for n in gd.cfg().nodes for x in node_stores(n)}
        free = sorted((names_in(other) - {a.target.id}) & bound_outside)
        ok = len(free) == 1
        if ok:
            # the free name is bound in _gather_data: the requested read size
            dn = [n for n in gd.cfg().nodes if free[0] in node_stores(n)]
            ok = len(dn) == 1 and nrm.poly(gs.expand(dn[0], assign_value(dn[0], free[0]))) == \
                Poly.atom(gdp[0]) * Poly.atom(gdp[1]) and padlen == Poly.atom(free[0]) - Poly.atom("len(%s)" % a.target.id)
            rc = the_call(gd, "read_encrypted")
            ok = ok and nf(gs.expand(node_of(gd, rc), rc.args[0])) == nf(parse_expr("%s * %s" % (gdp[0], gdp[1])))
    r.require(ok, got, got.loc(a), "the tail is not padded to num_chunks * input_chunk_size bytes: %s" % src(got, a))
    # the chunks are input_chunk_size slices of the padded data
    rets = got.cfg().find(is_return)
    ch = _returned_ast(got.cfg(), fng.rd, rets[0]) if len(rets) == 1 else None
    ok = isinstance(ch, ast.ListComp) and isinstance(ch.elt, ast.Subscript) and isinstance(ch.elt.slice, ast.Slice) \
        and len(ch.generators) == 1 and isinstance(ch.generators[0].iter, ast.Call) and call_tail(ch.generators[0].iter) == "range"
    if ok:
        g = ch.generators[0]
        i = g.target.id if isinstance(g.target, ast.Name) else "?"
        ra = [nf(x) for x in g.iter.args]
        ok = nf(ch.elt.slice.lower) == i and nrm.poly(ch.elt.slice.upper) == Poly.atom(i) + Poly.atom(gdp[1]) \
            and len(ra) == 3 and ra[0] == "0" and ra[2] == gdp[1] and ra[1] == "len(%s)" % nf(ch.elt.value)
    r.require(ok, got, got.loc(rets[0].ast if rets else None), "chunks are not consecutive %s-byte slices of the data" % gdp[1])

    # ---- writer: _encode_segment ties is_tail to the tail codec and to allow_short
    es = idx.func(ENC + "._encode_segment")
    esp = first_positional_params(es)
    ss = Sym(idx, es)
    gc = the_call(es, "_gather_data")
    gn = node_of(es, gc)
    b = bind_call_args(gd, gc)
    r.site(es, gc, "allow_short=%s" % nf(b.get("allow_short")))
    r.require(nf(ss.expand(gn, b.get("allow_short", ast.Constant(value=False)))) == esp[1], es, es.loc(gc),
              "short reads are allowed for allow_short=%s, not exactly for the tail segment" % nf(b.get("allow_short")))
    wmap, _d, _c = writer_symbols(idx)
    r.require(nf(ss.expand(gn, b[gdp[0]]), wmap) == "K", es, es.loc(gc), "a segment is split into %s chunks, not k" % nf(b[gdp[0]]))
    ec = the_call(es.nested.get("_done_gathering") or es, "encode")
    recv = attr_path(ec.func.value)
    cdef = ss.expand(gn, ast.Name(id=recv or "?", ctx=ast.Load()))
    ok = isinstance(cdef, ast.IfExp) and nf(cdef.test) == esp[1] and nf(cdef.body) == "self._tail_codec" and nf(cdef.orelse) == "self._codec"
    r.require(ok, es, es.loc(ec), "the codec used for a segment is %s, not (tail codec if is_tail else segment codec)" % nf(cdef))
    r.require(nf(ss.expand(gn, b[gdp[1]])) == "%s.get_block_size()" % nf(cdef), es, es.loc(gc),
              "chunk size %s is not the block size of the codec that encodes the chunks" % nf(ss.expand(gn, b[gdp[1]])))
    gb = idx.func("codec:CRSEncoder.get_block_size")
    rr = gb.cfg().find(is_return)
    r.require(len(rr) == 1 and nf(_returned_ast(gb.cfg(), FlowNorm(gb).rd, rr[0])) == "self.share_size", gb, gb.loc(),
              "CRSEncoder.get_block_size does not return share_size")

    # ---- writer: start encodes num_segments-1 full segments and then exactly one tail
    st = idx.func(ENC + ".start")
    sts = Sym(idx, st)
    tails, fulls = [], []
    for c in calls_in_func(st, "_encode_segment", into_lambda=True):
        bb = bind_call_args(es, c)
        v = bb.get(esp[1])
        if isinstance(v, ast.Constant) and v.value is True:
            tails.append(c)
        elif isinstance(v, ast.Constant) and v.value is False:
            fulls.append(c)
        else:
            r.violation(st, st.loc(c), "_encode_segment is_tail=%s is not a constant" % nf(v))
    if not tails or not fulls:
        raise AnchorVanished("Encoder.start: tail / non-tail _encode_segment calls not found")
    r.site(st, tails[0], "one tail segment after num_segments-1 full ones")
    loops = [n for n in st.cfg().nodes if n.kind == "iter"]

    def in_loop(call):
        return [l for l in loops if any(x is call for x in ast.walk(l.ast))]
    for c in tails:
        r.require(not in_loop(c), st, st.loc(c), "the tail segment is encoded inside a loop")
    r.require(len(tails) == 1, st, st.loc(tails[-1]), "more than one tail segment is encoded")
    numseg_attr = "self.num_segments"
    for c in fulls:
        ls = in_loop(c)
        ok = len(ls) == 1 and isinstance(ls[0].ast.iter, ast.Call) and call_tail(ls[0].ast.iter) == "range" \
            and len(ls[0].ast.iter.args) == 1 and nrm.poly(sts.expand(ls[0], ls[0].ast.iter.args[0])) == \
            Poly.atom(numseg_attr) - Poly.const(1)
        r.require(ok, st, st.loc(c), "full segments are not encoded exactly num_segments-1 times")
    regs = registrations(st)
    pos_t = [i for i, g in enumerate(regs) if any(x is tails[0] for x in ast.walk(g.call))]
    pos_f = [i for i, g in enumerate(regs) if any(x is c for c in fulls for x in ast.walk(g.call))]
    r.require(bool(pos_t) and bool(pos_f) and max(pos_f) < min(pos_t), st, st.loc(tails[0]), "the tail segment is not encoded last")

    # ---- reader: _decode_blocks
    db = idx.func(NODE + "._decode_blocks")
    dbp = first_positional_params(db)
    ds = Sym(idx, db)
    dc = the_call(db, "decode")
    dn = node_of(db, dc)
    recv = attr_path(dc.func.value)
    tailname = None
    for n in db.cfg().nodes:
        if n.kind == "test" and isinstance(n.ast, ast.Name):
            okt, _g = is_tail_expr(db, ds, n, n.ast, dbp[0], "self.num_segments")
            if okt:
                tailname = n.ast.id
    r.site(db, dc, "tail decode")
    if tailname is None:
        r.violation(db, db.loc(), "_decode_blocks does not branch on %s == num_segments-1 (the padded tail segment "
                    "needs its own decoder and trimming)" % dbp[0])
        tailname = "?"
    sp = [c for c in calls_in_func(db, "set_params") if attr_path(c.func.value) == recv]
    if len(sp) != 1:
        raise AnchorVanished("_decode_blocks: tail codec set_params not found")
    dec_fn = idx.func("codec:CRSDecoder.set_params")
    b = {k_: nf(ds.expand(node_of(db, sp[0]), v_)) for k_, v_ in bind_call_args(dec_fn, sp[0]).items()}
    dpar = first_positional_params(dec_fn)
    r.require([b.get(x) for x in dpar] == ["self.tail_segment_padded", "self._verifycap.needed_shares", "self._verifycap.total_shares"],
              db, db.loc(sp[0]), "tail decoder parameters are %s" % b)
    tf = tail_fact(dbp[0], "self.num_segments")
    for (n, w) in gated_by_truth(db, lambda q: any(c is sp[0] for c in node_calls(q)), tailname, also=tf):
        r.violation(db, db.loc(n.ast), "the padded-tail decoder is configured for a non-tail segment", w)
    cdefs = db.cfg() and ds.rd.get(dn.id, {}).get(recv, frozenset())
    vals = sorted(nf(ds.fnorm._def_value(db.cfg().nodes[d], recv)) for d in cdefs if d != C.PARAM_DEF)
    r.require(vals == ["CRSDecoder()", "self._codec"], db, db.loc(dc), "segment decoder is one of %s" % vals)
    for d in cdefs:
        dnode = db.cfg().nodes[d]
        if nf(ds.fnorm._def_value(dnode, recv)) != "self._codec":
            for (n, w) in gated_by_truth(db, lambda q, _d=dnode: q is _d, tailname, also=tf):
                r.violation(db, db.loc(n.ast), "a fresh decoder replaces the segment decoder for a non-tail segment", w)
    # the full-segment decoder is configured from the UEB segment size
    pu = idx.func(NODE + "._parse_and_store_UEB")
    pus = Sym(idx, pu, expand_attrs=True, keep={"self._verifycap"})
    mc = the_call(pu, "set_params", lambda c: attr_path(c.func.value) == "self._codec")
    bb = {k_: nf(pus.expand(node_of(pu, mc), v_)) for k_, v_ in bind_call_args(dec_fn, mc).items()}
    r.require(re.match(r"^(\w+\.)*unpack_extension\(.*\)\['segment_size'\]$", bb.get(dpar[0], "")) is not None
              and [bb.get(x) for x in dpar[1:]] == ["self._verifycap.needed_shares", "self._verifycap.total_shares"],
              pu, pu.loc(mc), "segment decoder parameters are %s" % bb)
    # trimming in _process
    pr = db.nested.get("_process")
    if pr is None:
        raise AnchorVanished("_decode_blocks._process")

    def trims(n):
        return n.kind == "stmt" and isinstance(n.ast, ast.Assign) and isinstance(n.ast.value, ast.Subscript) \
            and isinstance(n.ast.value.slice, ast.Slice)
    tn = pr.cfg().find(trims)
    if len(tn) > 1:
        raise AnalysisError("_decode_blocks._process: several slicing assignments")
    if not tn:
        r.site(pr, None, "tail trim")
        r.violation(pr, pr.loc(), "the decoded tail segment is never trimmed to tail_segment_size (padding would be delivered)")
        return padtrim_share(ctx, r)
    r.site(pr, tn[0].ast, "tail trim")
    sl = tn[0].ast.value.slice
    r.require(sl.lower is None and sl.step is None and nf(sl.upper) == "self.tail_segment_size", pr, pr.loc(tn[0].ast),
              "the tail is trimmed to %s, not to [:tail_segment_size]" % src(pr, tn[0].ast.value))
    for (n, w) in gated_by_truth(pr, trims, tailname):
        r.violation(pr, pr.loc(n.ast), "a decoded segment is trimmed although it is not the tail", w)
    # the join feeds the trim and the return
    rets = pr.cfg().find(is_return)
    rv = _returned_ast(pr.cfg(), FlowNorm(pr).rd, rets[0]) if len(rets) == 1 else None
    ok = isinstance(rv, ast.Tuple) and isinstance(rv.elts[0], ast.Name) and rv.elts[0].id in node_stores(tn[0])
    r.require(ok, pr, pr.loc(rets[0].ast if rets else None), "the trimmed segment is not what _process returns")
    # must-follow: on the tail path the trim is not skipped
    cfgp = pr.cfg()
    fnp = FlowNorm(pr)
    for n in cfgp.nodes:
        if n.kind == "test":
            for (d, lab) in cfgp.succ[n.id]:
                f = fnp.edge_fact(n, lab)
                if f and f[0] == "truth" and f[1] == tailname:
                    vis, par = explore(cfgp, 0, lambda a_, l_, nx, st_: None if trims(a_) else 0, start=cfgp.nodes[d])
                    if not trims(cfgp.nodes[d]) and any(cfgp.nodes[i].kind == "exit" for (i, _s) in vis):
                        r.violation(pr, pr.loc(n.ast), "the tail segment can be returned without trimming the padding")

    padtrim_share(ctx, r)


def padtrim_share(ctx, r):
    idx = ctx.idx
    nrm = Normaliser(Env(None, depth=0))
    # ---- reader: block addressing in the share vs the writer's put_block
    sd = idx.func(SHARE + "._satisfy_data_block")
    sdp = first_positional_params(sd)
    sds = Sym(idx, sd)
    pc = the_call(sd, "pop", lambda c: len(c.args) == 2)
    pn_ = node_of(sd, pc)
    start = nrm.poly(sds.expand(pn_, pc.args[0]))
    want = Poly.atom("self.actual_offsets['data']") + Poly.atom(sdp[0]) * Poly.atom("self._node.block_size")
    r.site(sd, pc, "block address %s" % start)
    r.require(start == want, sd, sd.loc(pc), "block %s is read at %s; the writer puts it at offsets['data'] + %s * block_size" % (
        sdp[0], start, sdp[0]))
    ln = pc.args[1]
    defs = sds.rd.get(pn_.id, {}).get(ln.id, frozenset()) if isinstance(ln, ast.Name) else frozenset()
    vals = {}
    for d in defs:
        if d != C.PARAM_DEF:
            vals[nf(sds.fnorm._def_value(sd.cfg().nodes[d], ln.id))] = sd.cfg().nodes[d]
    r.require(sorted(vals) == ["self._node.block_size", "self._node.tail_block_size"], sd, sd.loc(pc),
              "block length is one of %s" % sorted(vals))
    tn2 = None
    for n in sd.cfg().nodes:
        if n.kind == "test" and isinstance(n.ast, ast.Name):
            okt, _g = is_tail_expr(sd, sds, n, n.ast, sdp[0], "self._node.num_segments")
            if okt:
                tn2 = n.ast.id
    if tn2 is None:
        r.violation(sd, sd.loc(), "_satisfy_data_block has no branch on segnum == num_segments-1")
    elif "self._node.tail_block_size" in vals:
        tnode = vals["self._node.tail_block_size"]
        tf2 = tail_fact(sdp[0], "self._node.num_segments")
        for (n, w) in gated_by_truth(sd, lambda q: q is tnode, tn2, also=tf2):
            r.violation(sd, sd.loc(n.ast), "the tail block length is used for a non-tail segment", w)
        # and the tail never keeps the full block length
        cfgs = sd.cfg()
        fns = FlowNorm(sd)
        for n in cfgs.nodes:
            if n.kind == "test":
                for (d, lab) in cfgs.succ[n.id]:
                    f = fns.edge_fact(n, lab)
                    if f and (f == tf2 or (f[0] == "truth" and f[1] == tn2)) and cfgs.nodes[d] is not tnode:
                        vis, par = explore(cfgs, 0, lambda a_, l_, nx, st_: None if a_ is tnode else 0, start=cfgs.nodes[d])
                        if any(cfgs.nodes[i] is pn_ for (i, _s) in vis):
                            r.violation(sd, sd.loc(n.ast), "the tail block can be read with the full block length")


# --------------------------------------------------------------- AES-CTR
def run_ctr(ctx, r):
    """DecryptingConsumer positions the AES-CTR counter from the read offset (shared with C04)."""
    idx = ctx.idx
    nrm = Normaliser(Env(None, depth=0))
    folder = get_folder(idx)
    block = len(folder.module_const("crypto.aes", "DEFAULT_IV"))
    init = idx.func(DECR + ".__init__")
    ps = first_positional_params(init)
    if len(ps) < 3:
        raise AnchorVanished("DecryptingConsumer.__init__ signature changed")
    # (consumer, readkey, offset, ...): further parameters are tolerated, the decryptor may not come from them (below)
    off = ps[2]
    s = Sym(idx, init)
    cd = the_call(init, "create_decryptor")
    cn = node_of(init, cd)
    r.site(init, cd, "counter from offset, block=%d" % block)
    r.require(len(cd.args) == 2 and nf(cd.args[0]) == ps[1], init, init.loc(cd), "decryptor key is %s" % nf(cd.args[0]) if cd.args else "?")
    iv = s.expand(cn, cd.args[1]) if len(cd.args) > 1 else None
    ok = isinstance(iv, ast.Call) and call_tail(iv) == "unhexlify" and len(iv.args) == 1 and isinstance(iv.args[0], ast.BinOp) \
        and isinstance(iv.args[0].op, ast.Mod) and isinstance(iv.args[0].left, ast.Constant)
    big = None
    if ok:
        m = re.match(r"^%0(\d+)x$", iv.args[0].left.value if isinstance(iv.args[0].left.value, str) else "")
        r.require(m is not None and int(m.group(1)) == 2 * block, init, init.loc(cd), "the IV is formatted with %r, not as %d "
                  "hex digits (one cipher block)" % (iv.args[0].left.value, 2 * block))
        big = iv.args[0].right
    else:
        r.violation(init, init.loc(cd), "the IV is %s, not the hex encoding of the block counter" % nf(iv))
    okb = isinstance(big, ast.BinOp) and isinstance(big.op, ast.FloorDiv) and nf(big.left) == off and \
        isinstance(big.right, ast.Constant) and big.right.value == block
    r.require(okb, init, init.loc(cd), "the block counter is %s, not %s // %d" % (nf(big), off, block))
    # store and residue
    # provenance of the decryptor that write() uses: on every path through __init__ it is stored, and every store keeps
    # the create_decryptor(readkey, iv(offset)) call of this very constructor - an AES-CTR context taken from anywhere
    # else (a parameter, a cache, an earlier read) stands wherever its previous user left it
    icfg = init.cfg()
    stores_ = [n for n in icfg.nodes if "self._decryptor" in node_stores(n)]
    foreign = []
    for n in stores_:
        v = assign_value(n, "self._decryptor")
        if v is not None and s.expand(n, v) is not None and isinstance(s.expand(n, v), ast.Call) \
                and ast.dump(s.expand(n, v)) == ast.dump(s.expand(cn, cd)):
            continue
        foreign.append(n)
        r.violation(init, init.loc(n.ast), "self._decryptor is set to %s, which is not the decryptor keyed in this constructor "
                    "from its own (readkey, offset): a context that comes from elsewhere (a parameter, a cache, a previous "
                    "read) stands wherever its last user left it - after a failed or stopped read not at this read's offset - "
                    "and the consumer receives garbage" % (src(init, v) if v is not None else src(init, n.ast)))
    r.require(bool(stores_), init, init.loc(cd), "the positioned decryptor is not what is kept in self._decryptor")
    own_store = lambda n: any(n is m for m in stores_) and not any(n is m for m in foreign)
    for (t, w) in find_path_avoiding(icfg, lambda n: n.kind == "exit", gate_node=own_store):
        if not foreign:
            r.violation(init, init.loc(), "DecryptingConsumer.__init__ can return without keeping a decryptor positioned at "
                        "its offset (path: %s)" % w.brief(), w)
    cg_ = get_callgraph(idx)
    for (f, nd) in cg_.attr_stores("_decryptor"):
        if attr_path(nd.value) != "self":
            r.violation(f, f.loc(nd), "%s stores the _decryptor of another object: only DecryptingConsumer.__init__ positions "
                        "the AES-CTR counter (from its own offset)" % short(f))
    stores_ = [n for n in stores_ if not any(n is m for m in foreign)] or stores_
    dd = [c for c in calls_in_func(init, "decrypt_data")]
    if len(dd) != 1:
        r.violation(init, init.loc(), "the intra-block residue of the offset is not consumed in __init__ (found %d "
                    "decrypt_data calls)" % len(dd))
    else:
        c = dd[0]
        n = node_of(init, c)
        e = s.expand(n, c.args[1]) if len(c.args) == 2 else None
        ok = len(c.args) == 2 and nf(c.args[0]) == "self._decryptor" and isinstance(e, ast.BinOp) and isinstance(e.op, ast.Mult)
        small = None
        if ok:
            for a_, b_ in ((e.left, e.right), (e.right, e.left)):
                if isinstance(a_, ast.Constant) and isinstance(a_.value, bytes) and len(a_.value) == 1:
                    small = b_
        oks = isinstance(small, ast.BinOp) and isinstance(small.op, ast.Mod) and nf(small.left) == off and \
            isinstance(small.right, ast.Constant) and small.right.value == block
        r.require(ok and oks, init, init.loc(c), "the decryptor is advanced by %s, not by %s %% %d bytes" % (nf(e), off, block))
        r.require(bool(stores_) and dominated_by(init.cfg(), stores_[0], n), init, init.loc(c),
                  "the residue is consumed before the decryptor exists")
        # ... on every path from the store to the return, unless the path established that there is no residue
        res_nf = nf(small) if (ok and oks) else None

        def no_residue(q, lab):
            f = s.fnorm.edge_fact(q, lab)
            return bool(f) and res_nf is not None and ((f[0] == "false" and f[1] == res_nf) or
                                                       (f[0] == "==" and {f[1], f[2]} == {res_nf, "0"}))
        for sn in stores_:
            def tr(q, lab, nxt, st_, _sn=sn):
                if lab == "exc" or (q is n and q is not _sn) or no_residue(q, lab):
                    return None
                return 0
            visited, parent = explore(icfg, 0, tr, start=sn)
            hit = [(nid, st_) for (nid, st_) in sorted(visited) if icfg.nodes[nid].kind == "exit"]
            if hit and sn is not n:
                w = witness(icfg, parent, hit[0])
                r.violation(init, init.loc(sn.ast), "the constructor can return with a decryptor whose intra-block residue "
                            "(%s %% %d bytes) was not consumed (path: %s)" % (off, block, w.brief()), w)
    ci = idx.cls(DECR)
    for m in ci.methods.values():
        if m.name != "__init__":
            for n in m.cfg().nodes:
                if "self._decryptor" in node_stores(n):
                    r.violation(m, m.loc(n.ast), "%s re-binds the decryptor (the counter position is lost)" % m.name)
    # write: decrypt the parameter with that decryptor, write the plaintext
    w = idx.func(DECR + ".write")
    wp = first_positional_params(w)
    ws = Sym(idx, w)
    wc = the_call(w, "write")
    r.site(w, wc, "decrypt-then-write")
    pt = ws.expand(node_of(w, wc), wc.args[0]) if wc.args else None
    ok = isinstance(pt, ast.Call) and call_tail(pt) == "decrypt_data" and len(pt.args) == 2 and \
        nf(pt.args[0]) == "self._decryptor" and nf(pt.args[1]) == wp[0] and call_name(wc) == "self._consumer.write"
    r.require(ok, w, w.loc(wc), "write passes %s to %s" % (nf(pt), call_name(wc)))
    r.require(len(calls_in_func(w, "decrypt_data")) == 1, w, w.loc(), "write decrypts more or less than once per chunk")
    # the node passes one offset to both the decryptor and the ciphertext reader
    rd = idx.func("immutable.filenode:ImmutableFileNode.read")
    rp = first_positional_params(rd)
    rs = Sym(idx, rd)
    dc = the_call(rd, "DecryptingConsumer")
    rc = the_call(rd, "read", lambda c: isinstance(c.func, ast.Attribute) and
                  nf(rs.expand(node_of(rd, c), c.func.value)) == "self._cnode")
    r.site(rd, dc, "same offset for counter and ciphertext")
    b1 = bind_call_args(init, dc)
    cread = idx.func("immutable.filenode:CiphertextFileNode.read")
    b2 = bind_call_args(cread, rc)
    cp = first_positional_params(cread)
    r.require(nf(b1.get(off)) == rp[1] and nf(b2.get(cp[1])) == rp[1], rd, rd.loc(rc), "the decryptor is positioned at %s "
              "but ciphertext is read from %s" % (nf(b1.get(off)), nf(b2.get(cp[1]))))
    got = rs.expand(node_of(rd, rc), b2.get(cp[0]))
    r.require(got is not None and isinstance(got, ast.Call) and call_tail(got) == "DecryptingConsumer", rd, rd.loc(rc),
              "ciphertext is delivered to %s, not to the decrypting consumer" % nf(got))
    r.require(nf(b1.get(ps[0])) == rp[0] and nf(b1.get(ps[1])) == "self._readkey" and nf(b2.get(cp[2])) == rp[2], rd, rd.loc(dc),
              "consumer/key/size are not passed through")
    cn_ = idx.func("immutable.filenode:CiphertextFileNode.read")
    nr = the_call(cn_, "read")
    dnr = idx.func(NODE + ".read")
    b3 = bind_call_args(dnr, nr)
    r.require([nf(b3.get(x)) for x in first_positional_params(dnr)] == cp, cn_, cn_.loc(nr),
              "CiphertextFileNode.read does not pass (consumer, offset, size) through")


def run_encryptor(ctx, r):
    idx = ctx.idx
    ea = idx.cls("immutable.upload:EncryptAnUploadable")
    ge = idx.func("immutable.upload:EncryptAnUploadable._get_encryptor")
    got = ge.nested.get("_got")
    if got is None:
        raise AnchorVanished("_get_encryptor._got")
    ce = the_call(got, "create_encryptor")
    r.site(got, ce, "counter starts at 0")
    r.require(len(ce.args) == 1 and not ce.keywords, got, got.loc(ce), "the encryptor is created with an explicit IV: %s" % src(got, ce))
    st = [n for n in got.cfg().nodes if "self._encryptor" in node_stores(n)]
    r.require(len(st) == 1 and assign_value(st[0], "self._encryptor") is ce, got, got.loc(ce), "the encryptor is not kept in self._encryptor")
    # created once: the key is fetched only when no encryptor exists yet
    for (n, w) in gated_by_truth(ge, has_call("get_encryption_key"), "self._encryptor", polarity="false"):
        r.violation(ge, ge.loc(n.ast), "a new encryptor (counter 0) can be created although one exists", w)
    for m in ea.methods.values():
        if m.name in ("__init__", "_get_encryptor"):
            continue
        for f in [m] + list(m.nested.values()):
            for n in f.cfg().nodes:
                if "self._encryptor" in node_stores(n):
                    r.violation(f, f.loc(n.ast), "%s re-binds the encryptor" % short(f))
    # every chunk read advances the counter (also when only hashing)
    he = idx.func("immutable.upload:EncryptAnUploadable._hash_and_encrypt_plaintext")
    cfg = he.cfg()
    enc_nodes = cfg.find(has_call("encrypt_data"))
    if not enc_nodes:
        raise AnchorVanished("_hash_and_encrypt_plaintext: encrypt_data call not found")
    r.site(he, enc_nodes[0].ast, "every chunk is encrypted in order")
    for n in enc_nodes:
        for c in calls_at(n, "encrypt_data"):
            r.require(len(c.args) == 2 and nf(c.args[0]) == "self._encryptor", he, he.loc(c), "chunk is encrypted with %s" % src(he, c))
    pops = cfg.find(has_call("pop"))
    for (sn, w) in find_path_from_to_avoiding(cfg, lambda q: q in pops, has_call("encrypt_data"),
                                             ends=lambda q: q.kind == "exit" or q in pops):
        r.violation(he, he.loc(sn.ast), "a chunk can be consumed without advancing the AES counter", w)


# ------------------------------------------- response orders in the downloader
FINDER = "immutable.downloader.finder:ShareFinder"
CSHARE = "immutable.downloader.share:CommonShare"


def _plain():
    return Normaliser(Env(None, depth=0))


def _self_callees(fn, cls):
    """Methods of `cls` that `fn` calls as self.<name>(..), in call order."""
    out = []
    for c in calls_in_func(fn, None, into_lambda=True):
        nm = call_name(c)
        if nm.startswith("self.") and nm.count(".") == 1:
            m = cls.lookup(nm.split(".")[1])
            if m is not None and m not in out:
                out.append(m)
    return out


def _numsegs_source(fn):
    """Receiver R of the one <R>.get_num_segments() call in fn, the normal forms that denote the authoritative
    segment count, and the canonical facts meaning 'the count is still a guess'."""
    recvs = {attr_path(c.func.value) for c in calls_in_func(fn, "get_num_segments") if isinstance(c.func, ast.Attribute)}
    recvs.discard(None)
    if len(recvs) != 1:
        raise AnchorVanished("%s: expected the segment count to come from one <node>.get_num_segments(), found %s" % (
            short(fn), sorted(recvs)))
    R = recvs.pop()
    counts = {norm_src("%s.get_num_segments()[0]" % R), norm_src("%s.num_segments" % R)}
    guess = {_plain().cmp(parse_expr(s % R), True) for s in ("not %s.get_num_segments()[1]", "not %s.have_UEB",
                                                              "%s.num_segments is None")}
    return R, counts, guess


def run_authoritative(ctx, r):
    """Invariant: once the node has a validated UEB, every CommonShare a Share can hold is marked authoritative
    (Share._get_satisfaction then calls CommonShare methods that assert it).  DYHB answers and the UEB arrive in
    any order, so the invariant has to be established by the UEB event for the CommonShares that exist and by
    the creation site for the ones created later."""
    idx = ctx.idx
    plain = _plain()
    cs_ci = idx.cls(CSHARE)
    # ---- the flag the CommonShare methods insist on, and the method that sets it
    asserted = {}
    for m in cs_ci.methods.values():
        for n in m.cfg().nodes:
            if n.kind == "test" and n.assume and isinstance(n.ast, ast.Attribute):
                p = attr_path(n.ast)
                if p and p.startswith("self."):
                    asserted.setdefault(p, set()).add(m.name)
    if len(asserted) != 1:
        raise AnchorVanished("CommonShare: expected one asserted 'authoritative' flag, found %s" % sorted(asserted))
    flag = next(iter(asserted))
    mark = idx.func(CSHARE + ".set_authoritative_num_segments")
    mp = first_positional_params(mark)
    if len(mp) != 1:
        raise AnchorVanished("set_authoritative_num_segments signature changed")
    mcfg = mark.cfg()

    def sets_flag(n):
        return n.kind == "stmt" and isinstance(n.ast, ast.Assign) and flag in node_stores(n) \
            and isinstance(n.ast.value, ast.Constant) and n.ast.value.value is True
    r.site(mark, None, "marks %s (asserted by %s)" % (flag, ",".join(sorted(asserted[flag]))))
    for (n, w) in find_path_avoiding(mcfg, lambda q: q.kind == "exit", gate_node=sets_flag, skip_exc_edges=True):
        r.violation(mark, mark.loc(), "%s can return without setting %s: a CommonShare whose guessed segment count was "
                    "right is never marked authoritative and dies on the assertion in %s (path: %s)" % (
                        mark.name, flag, sorted(asserted[flag])[0], w.brief()), w)
    # the tree it leaves behind has the authoritative number of leaves
    pb = idx.func(CSHARE + ".process_block_hashes")
    tree = attr_path(the_call(pb, "set_hashes").func.value)

    def rebuilds(n):
        v = assign_value(n, tree) if n.kind == "stmt" and tree in node_stores(n) else None
        return isinstance(v, ast.Call) and call_tail(v) == "IncompleteHashTree" and len(v.args) == 1 and nf(v.args[0]) == mp[0]
    size_attrs = set()

    def same_size(n, lab):
        if n.kind != "test" or not isinstance(lab, tuple):
            return False
        f = plain.cmp(n.ast, lab[0] == "T")
        if f and f[0] == "==" and mp[0] in (f[1], f[2]):
            other = f[2] if f[1] == mp[0] else f[1]
            if other and other.startswith("self."):
                size_attrs.add(other)
                return True
        return False
    for (n, w) in find_path_avoiding(mcfg, lambda q: q.kind == "exit", gate_node=rebuilds, gate_edge=same_size,
                                     skip_exc_edges=True):
        r.violation(mark, mark.loc(), "%s can mark the block hash tree authoritative although it neither has %s leaves nor "
                    "is rebuilt with IncompleteHashTree(%s) (path: %s)" % (mark.name, mp[0], mp[0], w.brief()), w)
    for la in sorted(size_attrs):
        def keeps(n, _la=la):
            return n.kind == "stmt" and _la in node_stores(n) and nf(assign_value(n, _la)) == mp[0]
        for rb in mcfg.find(rebuilds):
            before = find_path_avoiding(mcfg, lambda q, _rb=rb: q is _rb, gate_node=keeps, skip_exc_edges=True)
            after = find_path_from_to_avoiding(mcfg, lambda q, _rb=rb: q is _rb, keeps)
            if before and after:
                r.violation(mark, mark.loc(rb.ast), "the block hash tree is rebuilt for %s leaves but %s keeps the guessed count" % (
                    mp[0], la), after[0][1])

    # ---- UEB event: ShareFinder.update_num_segments marks every registered CommonShare
    upd = idx.func(FINDER + ".update_num_segments")
    ucfg = upd.cfg()
    us = Sym(idx, upd)
    R, counts, _guess = _numsegs_source(upd)
    loops = []
    for n in ucfg.nodes:
        if n.kind == "iter" and isinstance(n.ast.iter, ast.Call) and call_tail(n.ast.iter) in ("values", "items") \
                and not n.ast.iter.args:
            reg = attr_path(n.ast.iter.func.value)
            t = n.ast.target
            if call_tail(n.ast.iter) == "items":
                t = t.elts[1] if isinstance(t, ast.Tuple) and len(t.elts) == 2 else None
            if reg and reg.startswith("self.") and isinstance(t, ast.Name):
                loops.append((n, reg, t.id))
    if len(loops) != 1:
        raise AnchorVanished("update_num_segments: the loop over the registered CommonShares was not found")
    loop, registry, lv = loops[0]
    r.site(upd, loop.ast, "every CommonShare in %s is marked with %s" % (registry, sorted(counts)[0]))

    def marks_loopvar(n):
        for c in calls_at(n, mark.name):
            if isinstance(c.func, ast.Attribute) and isinstance(c.func.value, ast.Name) and c.func.value.id == lv \
                    and us.rd.get(n.id, {}).get(lv) == frozenset([loop.id]):
                return True
        return False
    body = [ucfg.nodes[d] for (d, lab) in ucfg.succ[loop.id] if lab == "iter"]
    skipped = False
    for b in body:
        vis, par = explore(ucfg, 0, lambda a_, l_, nx, st_: None if (l_ == "exc" or marks_loopvar(a_)) else 0, start=b)
        if not marks_loopvar(b) and any(ucfg.nodes[i] is loop or ucfg.nodes[i].kind == "exit" for (i, _s) in vis):
            skipped = True
    r.require(bool(body) and not skipped, upd, upd.loc(loop.ast), "update_num_segments does not call %s on every CommonShare in %s: "
              "a share found before the UEB stays non-authoritative and dies on the assertion" % (mark.name, registry))
    for (n, w) in find_path_avoiding(ucfg, lambda q: q.kind == "exit", gate_node=lambda q: q is loop, skip_exc_edges=True):
        r.violation(upd, upd.loc(), "update_num_segments can return without visiting the CommonShares in %s" % registry, w)
    for n in ucfg.find(marks_loopvar):
        for c in calls_at(n, mark.name):
            got = nf(us.expand(n, arg(c, 0, mp[0])))
            r.require(got in counts, upd, upd.loc(c), "existing CommonShares are marked authoritative with %s, not with the "
                      "node's authoritative segment count" % got)

    # ---- UEB event: the node runs the update in the same turn in which have_UEB becomes true
    node_ci = idx.cls(NODE)

    def sets_have_ueb(n):
        return n.kind == "stmt" and isinstance(n.ast, ast.Assign) and "self.have_UEB" in node_stores(n) \
            and isinstance(n.ast.value, ast.Constant) and n.ast.value.value is True
    ev = [(m, n) for m in node_ci.methods.values() if m.name != "__init__" for n in m.cfg().find(sets_have_ueb)]
    if len(ev) != 1:
        raise AnchorVanished("DownloadNode: expected one method setting have_UEB = True, found %d" % len(ev))
    vfn, hn = ev[0]
    vcfg = vfn.cfg()
    updates = has_call(upd.name)
    r.site(vfn, hn.ast, "have_UEB = True is accompanied by %s()" % upd.name)
    before = find_path_avoiding(vcfg, lambda q: q is hn, gate_node=updates, skip_exc_edges=True)
    after = find_path_from_to_avoiding(vcfg, lambda q: q is hn, updates)
    if before and after:
        r.violation(vfn, vfn.loc(hn.ast), "%s sets have_UEB without calling the share finder's %s(): the CommonShares created "
                    "before the UEB arrived are never marked authoritative and every share dies on the assertion" % (
                        vfn.name, upd.name), after[0][1])
    # ... and only after the authoritative count has been stored (update_num_segments insists on it)
    setters = [m for m in _self_callees(vfn, node_ci) if any(
        "self.num_segments" in node_stores(n) for n in m.cfg().nodes)]
    if any("self.num_segments" in node_stores(n) for n in vcfg.nodes):
        parsed = stores("self.num_segments")
    elif setters:
        parsed = lambda q: any(call_name(c) == "self." + m.name for m in setters for c in node_calls(q))
    else:
        raise AnchorVanished("%s no longer stores the authoritative num_segments" % short(vfn))
    for (n, w) in find_path_avoiding(vcfg, updates, gate_node=parsed, skip_exc_edges=True):
        r.violation(vfn, vfn.loc(n.ast), "%s() runs before the authoritative num_segments is stored" % upd.name, w)

    # ---- creation: a CommonShare made after the UEB is known is marked at once; every one is registered
    cg = get_callgraph(idx)
    ctors = [cs for cs in cg.calls_named("CommonShare") if ".test." not in cs.fn.module.name + "."
             and isinstance(cs.call.func, (ast.Name, ast.Attribute))]
    if not ctors:
        raise AnchorVanished("no CommonShare(..) construction found in the package")
    for site in ctors:
        fn, call = site.fn, site.call
        cfg = fn.cfg()
        sym = Sym(idx, fn)
        cn = node_of(fn, call)
        if not (cn.kind == "stmt" and isinstance(cn.ast, ast.Assign) and cn.ast.value is call
                and len(cn.ast.targets) == 1 and isinstance(cn.ast.targets[0], ast.Name)):
            raise AnalysisError("%s: the new CommonShare is not bound to a local name" % short(fn))
        var = cn.ast.targets[0].id
        R2, counts2, guess = _numsegs_source(fn)
        r.site(fn, call, "new CommonShare %s: registered in %s, marked unless the count is a guess" % (var, registry))

        def is_new(n, e):
            return isinstance(e, ast.Name) and e.id == var and sym.rd.get(n.id, {}).get(var) == frozenset([cn.id])

        def transfer(n, lab, nxt, st, _fn=fn, _cn=cn):
            if lab == "exc":
                return None
            stored, marked = st
            if n is not _cn and n.kind == "stmt" and var in node_stores(n):
                return None          # the name now denotes another object
            if n.kind == "test" and isinstance(lab, tuple):
                f = plain.cmp(sym.expand(n, n.ast), lab[0] == "T")
                if f in guess:
                    marked = True
            if n.kind == "stmt":
                if registry + "[]" in node_stores(n) and isinstance(n.ast, ast.Assign) and is_new(n, n.ast.value):
                    stored = True
                for c in node_calls(n):
                    if call_tail(c) == mark.name and isinstance(c.func, ast.Attribute) and is_new(n, c.func.value):
                        marked = True
                    elif call_name(c) == "self." + upd.name and stored:
                        marked = True
            return (stored, marked)
        vis, par = explore(cfg, (False, False), transfer, start=cn)
        r.count(len(vis))
        told = set()
        for (nid, st) in sorted(vis):
            if cfg.nodes[nid].kind != "exit":
                continue
            w = witness(cfg, par, (nid, st))
            if not st[1] and "m" not in told:
                told.add("m")
                r.violation(fn, fn.loc(call), "a CommonShare created when the node already knows the real segment count (a "
                            "DYHB answer that arrives after another share's UEB was validated) is not marked with %s: "
                            "%s() only runs once, at the moment the UEB is validated, so this share dies on the assertion "
                            "of %s (path: %s)" % (mark.name, upd.name, flag, w.brief()), w)
            if not st[0] and "s" not in told:
                told.add("s")
                r.violation(fn, fn.loc(call), "a new CommonShare can leave %s without being stored in %s: %s() will never "
                            "reach it (path: %s)" % (short(fn), registry, upd.name, w.brief()), w)
        for n in cfg.nodes:
            for c in node_calls(n):
                if call_tail(c) == mark.name and isinstance(c.func, ast.Attribute) and is_new(n, c.func.value):
                    got = nf(sym.expand(n, arg(c, 0, mp[0])))
                    r.require(got in counts2, fn, fn.loc(c), "the new CommonShare is marked authoritative with %s, not with the "
                              "node's authoritative segment count" % got)
                    # the mark must not be applied while the count is a guess
                    def known(m_, lab):
                        if m_.kind != "test" or not isinstance(lab, tuple):
                            return False
                        return plain.cmp(sym.expand(m_, m_.ast), lab[0] != "T") in guess
                    for (t, w) in find_path_avoiding(cfg, lambda q, _n=n: q is _n, gate_edge=known, start=cn, skip_exc_edges=True):
                        r.violation(fn, fn.loc(c), "the new CommonShare is marked authoritative although the segment count may "
                                    "still be a guess (path: %s)" % w.brief(), w)


def _satisfy_stages(idx):
    """The _satisfy_* stages of Share._get_satisfaction: methods it calls on self that read the span store."""
    share = idx.cls(SHARE)
    gs = idx.func(SHARE + "._get_satisfaction")
    store = "self._received"

    def is_fetch(c):
        return call_name(c) in (store + ".get", store + ".pop")
    stages = [m for m in _self_callees(gs, share) if any(is_fetch(c) for c in calls_in_func(m, None, into_lambda=True))]
    if len(stages) < 6:
        raise AnchorVanished("_get_satisfaction: fewer than 6 _satisfy_* stages read %s (%s)" % (store, [m.name for m in stages]))
    return share, gs, store, is_fetch, stages


def _absent_edges(cfg, rd, plain, fnode, X):
    """[(test node, label, successor)]: the edges on which the value X fetched at fnode is absent (falsy / None)."""
    missing = []
    for t in cfg.nodes:
        if t.kind != "test" or rd.get(t.id, {}).get(X) != frozenset([fnode.id]):
            continue
        if X not in names_in(t.ast):
            continue
        for (d, lab) in cfg.succ[t.id]:
            if not isinstance(lab, tuple):
                continue
            f = plain.cmp(t.ast, lab[0] == "T")
            if f and ((f[0] == "false" and f[1] == X) or (f[0] in ("is", "==") and {f[1], f[2]} == {X, "None"})):
                missing.append((t, lab, cfg.nodes[d]))
    return missing


def _flag_step(n, lab, st, plain):
    """Tiny constant propagation of local boolean flags along one CFG edge: returns the new frozenset of
    (name, bool) facts, or None when the edge contradicts a flag set on this path."""
    d = dict(st)
    if n.kind == "test" and isinstance(lab, tuple):
        f = plain.cmp(n.ast, lab[0] == "T")
        if f and f[0] in ("truth", "false") and f[1] in d and d[f[1]] != (f[0] == "truth"):
            return None
    if n.kind == "stmt":
        for s_ in node_stores(n):
            d.pop(s_, None)
        a = n.ast
        if isinstance(a, ast.Assign) and len(a.targets) == 1 and isinstance(a.targets[0], ast.Name) \
                and isinstance(a.value, ast.Constant) and isinstance(a.value.value, bool):
            d[a.targets[0].id] = a.value.value
    return frozenset(d.items())


def _returned_ast(cfg, rd, q):
    """The expression a return node hands back, followed through copies into plain locals with one reaching definition."""
    v, node = q.ast.value, q
    for _hop in range(4):
        if not isinstance(v, ast.Name):
            break
        ds = rd.get(node.id, {}).get(v.id, frozenset())
        if len(ds) != 1 or C.PARAM_DEF in ds:
            break
        dn = cfg.nodes[next(iter(ds))]
        if not (dn.kind == "stmt" and isinstance(dn.ast, ast.Assign) and len(dn.ast.targets) == 1
                and isinstance(dn.ast.targets[0], ast.Name)):
            break
        v, node = dn.ast.value, dn
    return v


def _return_truth(q, flags, cfg=None, rd=None):
    """True / False when the return node q certainly returns a true / false value, None when unknown."""
    v = q.ast.value
    if v is None:
        return False
    if isinstance(v, ast.Name) and v.id in flags:
        return flags[v.id]
    if cfg is not None:
        v = _returned_ast(cfg, rd, q)
    if isinstance(v, ast.Constant):
        return bool(v.value)
    if isinstance(v, ast.Name) and v.id in flags:
        return flags[v.id]
    return None


def run_complete_before_submit(ctx, r):
    """Share._satisfy_*: data is handed to its consumer (struct parse, UEB check, hash tree, block check) only when
    every piece fetched for it has arrived.  Read answers arrive in any order and the loop runs after each one, so a
    partially answered request is the normal case: submitting it makes the hash tree raise NotEnoughHashesError /
    the parser fail, and a good share is reported corrupt and abandoned."""
    idx = ctx.idx
    plain = _plain()
    share, gs, store, is_fetch, stages = _satisfy_stages(idx)
    for m in stages:
        cfg = m.cfg()
        rd = FlowNorm(m).rd
        defs = def_exprs(m)
        local_names = {s for n in cfg.nodes for s in node_stores(n) if "." not in s and not s.endswith("[]")}
        for fnode in cfg.nodes:
            for fc in [c for c in node_calls(fnode) if is_fetch(c)]:
                if not (fnode.kind == "stmt" and isinstance(fnode.ast, ast.Assign) and fnode.ast.value is fc
                        and len(fnode.ast.targets) == 1 and isinstance(fnode.ast.targets[0], ast.Name)):
                    raise AnalysisError("%s: the result of %s is not bound to a local name" % (short(m), src(m, fc)))
                X = fnode.ast.targets[0].id
                r.site(m, fc, "%s tested for absence before use" % X)

                # consumers: calls (not on the span store, not logging, not methods of local containers) fed by X
                def consumes(q, _X=X):
                    if q is fnode:
                        return None
                    for k in node_calls(q, into_lambda=True):
                        nm = call_name(k)
                        if nm.startswith(store + ".") or nm.startswith("log.") or nm in ("len", "repr", "str", "bool"):
                            continue
                        if isinstance(k.func, ast.Attribute) and not (attr_path(k.func.value) or "").startswith("self.") \
                                and not (isinstance(k.func.value, ast.Name) and k.func.value.id not in local_names):
                            continue        # method of a local object / literal (dict.update, ",".join, o.notify)
                        for a in list(k.args) + [kw.value for kw in k.keywords]:
                            if _X in depends_on(m, a, defs=defs):
                                return k
                    return None
                cons = [q for q in cfg.nodes if consumes(q) is not None]
                if not cons:
                    raise AnchorVanished("%s: no consumer of the fetched %s found" % (short(m), X))
                # the edges on which the fetched value is absent
                missing = _absent_edges(cfg, rd, plain, fnode, X)
                if not missing:
                    q = cons[0]
                    r.violation(m, m.loc(fc), "%s = %s is never tested for absence before %s uses it: the answer to this read "
                                "may not have arrived when the loop runs" % (X, src(m, fc), src(m, consumes(q))))
                    continue

                def transfer(n, lab, nxt, st):
                    if lab == "exc":
                        return None
                    d = dict(st)
                    if n.kind == "test" and isinstance(lab, tuple):
                        f = plain.cmp(n.ast, lab[0] == "T")
                        if f and f[0] in ("truth", "false") and f[1] in d and d[f[1]] != (f[0] == "truth"):
                            return None      # contradicts a flag set on this path
                    if n.kind == "stmt":
                        for s in node_stores(n):
                            d.pop(s, None)
                        a = n.ast
                        if isinstance(a, ast.Assign) and len(a.targets) == 1 and isinstance(a.targets[0], ast.Name) \
                                and isinstance(a.value, ast.Constant) and isinstance(a.value.value, bool):
                            d[a.targets[0].id] = a.value.value
                    return frozenset(d.items())
                told = set()
                for (t, lab, first) in missing:
                    vis, par = explore(cfg, frozenset(), transfer, start=first)
                    r.count(len(vis))
                    for (nid, st) in sorted(vis, key=lambda x: (x[0], sorted(x[1]))):
                        q = cfg.nodes[nid]
                        k = consumes(q)
                        if k is not None and ("c", nid) not in told:
                            told.add(("c", nid))
                            w = witness(cfg, par, (nid, st))
                            r.violation(m, m.loc(k), "%s reaches %s although %s (from %s) has not arrived: a partially "
                                        "answered request is submitted, the consumer raises and the good share is "
                                        "reported corrupt and abandoned (path from the absent-data edge at %s: %s)" % (
                                            short(m), src(m, k), X, src(m, fc), m.loc(t.ast), w.brief()), w)
                        elif is_return(q) and ("r", nid) not in told:
                            v = q.ast.value
                            flags = dict(st)
                            ok = v is None or (isinstance(v, ast.Constant) and not v.value) or \
                                (isinstance(v, ast.Name) and flags.get(v.id) is False)
                            if not ok:
                                told.add(("r", nid))
                                w = witness(cfg, par, (nid, st))
                                r.violation(m, m.loc(q.ast), "%s reports the stage as satisfied (%s) although %s has not arrived "
                                            "(path: %s)" % (short(m), src(m, q.ast), X, w.brief()), w)
                # a consumer inside the fetch loop is fed one piece at a time
                for q in cons:
                    vis, _p = explore(cfg, 0, lambda a_, l_, nx, st_: None if l_ == "exc" else 0, start=q)
                    if any(i == fnode.id for (i, _s) in vis):
                        r.violation(m, m.loc(consumes(q)), "%s is called inside the loop that fetches %s: pieces are submitted "
                                    "before the rest of the request is known to have arrived" % (src(m, consumes(q)), X))


def run_satisfaction_loop(ctx, r):
    """Share._do_loop runs `while self._get_satisfaction(): pass` after every read answer; the answers come in any
    order, so every round sees an arbitrary subset of the requested spans.  Three structural conditions keep a round
    from (A) running a later stage on data an earlier stage reported absent, (B) claiming progress without retiring
    the request at the head of the queue, (C) giving up although nothing was absent."""
    idx = ctx.idx
    plain = _plain()
    share, gs, store, is_fetch, stages = _satisfy_stages(idx)
    cfg = gs.cfg()
    rd = FlowNorm(gs).rd
    by_name = {m.name: m for m in stages}

    def stage_calls(n):
        out = []
        for c in node_calls(n):
            nm = call_name(c)
            if nm.startswith("self.") and nm.count(".") == 1 and nm.split(".")[1] in by_name:
                out.append(c)
        return out

    def noexc(a_, l_, nx, st_):
        return None if l_ == "exc" else 0

    # the request queue whose head the round works on
    act = idx.func(SHARE + "._active_segnum_and_observers")
    ard = FlowNorm(act).rd
    queues = {attr_path(x.value) for n in act.cfg().find(is_return) if n.ast.value is not None
              for x in own_nodes(_returned_ast(act.cfg(), ard, n))
              if isinstance(x, ast.Subscript) and isinstance(x.slice, ast.Constant) and x.slice.value == 0}
    queues.discard(None)
    if len(queues) != 1 or not next(iter(queues)).startswith("self."):
        raise AnchorVanished("_active_segnum_and_observers no longer returns the head of one request queue (%s)" % sorted(queues))
    queue = queues.pop()

    def retires(n):
        for c in node_calls(n):
            if isinstance(c.func, ast.Attribute) and attr_path(c.func.value) == queue:
                if c.func.attr == "pop" and len(c.args) == 1 and isinstance(c.args[0], ast.Constant) and c.args[0].value == 0:
                    return True
                if c.func.attr in ("popleft", "clear") and not c.args:
                    return True
        if n.kind == "stmt" and isinstance(n.ast, ast.Delete):
            return any(isinstance(t, ast.Subscript) and attr_path(t.value) == queue and isinstance(t.slice, ast.Constant)
                       and t.slice.value == 0 for t in n.ast.targets)
        return n.kind == "stmt" and isinstance(n.ast, (ast.Assign, ast.AugAssign)) and queue in node_stores(n)

    # ---- (A) the unsatisfied edge of every stage leaves the round before any other stage runs
    def flagged(a_, l_, nx, st_):
        return None if l_ == "exc" else _flag_step(a_, l_, st_, plain)
    rets = cfg.find(is_return)
    tested, returned = [], []
    for n in cfg.nodes:
        for c in stage_calls(n):
            m = by_name[call_name(c).split(".")[1]]
            rq = [q for q in rets if _returned_ast(cfg, rd, q) is c]
            if rq:
                returned.extend((q, c, m) for q in rq)
                r.site(gs, c, "%s: last stage, its result is the result of the round" % m.name)
                continue
            r.site(gs, c, "%s: unsatisfied -> the round ends before any later stage" % m.name)
            unsat = []
            if n.kind == "test" and n.ast is c:
                unsat = [(n, lab, cfg.nodes[d]) for (d, lab) in cfg.succ[n.id] if isinstance(lab, tuple) and lab[0] == "F"]
            elif n.kind == "stmt" and isinstance(n.ast, ast.Assign) and n.ast.value is c and len(n.ast.targets) == 1 \
                    and isinstance(n.ast.targets[0], ast.Name):
                unsat = _absent_edges(cfg, rd, plain, n, n.ast.targets[0].id)
            if not unsat:
                r.violation(gs, gs.loc(c), "the result of %s is not tested: when the answer to its read has not arrived yet the "
                            "round goes on to the later stages, which use hashes / offsets that are not there, raise, and the "
                            "good share is reported corrupt and abandoned" % src(gs, c))
                continue
            tested.append(m)
            told = set()
            for (t, lab, first) in unsat:
                vis, par = explore(cfg, frozenset(), flagged, start=first)
                r.count(len(vis))
                for (nid, st) in sorted(vis, key=lambda x: (x[0], sorted(x[1]))):
                    q = cfg.nodes[nid]
                    later = stage_calls(q)
                    if later and "s" not in told:
                        told.add("s")
                        w = witness(cfg, par, (nid, st))
                        r.violation(gs, gs.loc(later[0]), "%s runs although %s reported its data absent (answers to reads arrive "
                                    "in any order): the later stage works on hashes / offsets that are not there, raises, and "
                                    "the good share is reported corrupt and abandoned (path from the unsatisfied edge at %s: %s)" % (
                                        src(gs, later[0]), m.name, gs.loc(t.ast), w.brief()), w)
                    elif is_return(q) and not later and _return_truth(q, dict(st), cfg, rd) is not False and "r" not in told:
                        told.add("r")
                        w = witness(cfg, par, (nid, st))
                        r.violation(gs, gs.loc(q.ast), "the round reports progress (%s) although %s found its data absent: "
                                    "_do_loop calls it again at once, forever (path: %s)" % (src(gs, q.ast), m.name, w.brief()), w)
    if len(tested) + len(returned) < 6 or len(returned) != 1:
        raise AnchorVanished("_get_satisfaction: expected >= 5 tested stages and one returned stage, found %d / %d" % (
            len(tested), len(returned)))

    # ---- (B) a round returns a true value only after the head request was retired
    def check_retire(fn, fcfg, what):
        frd = FlowNorm(fn).rd

        def transfer(n, lab, nxt, st):
            if lab == "exc":
                return None
            done, flags = st
            flags = _flag_step(n, lab, flags, plain)
            if flags is None:
                return None
            return (done or retires(n), flags)
        vis, par = explore(fcfg, (False, frozenset()), transfer)
        r.count(len(vis))
        told = set()
        for q in fcfg.find(retires):
            r.site(fn, q.ast, "%s retires the head of %s before a true value is returned" % (src(fn, q.ast), queue))
        for (nid, st) in sorted(vis, key=lambda x: (x[0], x[1][0], sorted(x[1][1]))):
            q = fcfg.nodes[nid]
            if not is_return(q) or st[0] or nid in told or any(q is n_ for (n_, _c, _m) in returned):
                continue
            if _return_truth(q, dict(st[1]), fcfg, frd) is False:
                continue
            told.add(nid)
            w = witness(fcfg, par, (nid, st))
            r.violation(fn, fn.loc(q.ast), "%s %s (%s) without removing the head of %s: the share keeps working on the same "
                        "request (the loop `while _get_satisfaction()` runs again with the same head; a BADSEGNUM round "
                        "never ends, a delivered block is fetched and delivered again and later segments are never "
                        "served) (path: %s)" % (short(fn), what, src(fn, q.ast), queue, w.brief()), w)
    check_retire(gs, cfg, "reports progress")
    for (_n, _c, m) in returned:
        check_retire(m, m.cfg(), "reports the block as retired")

    # ---- (C) a tested stage reports 'unsatisfied' only on a path on which a fetched piece was absent
    for m in tested:
        mcfg = m.cfg()
        mrd = FlowNorm(m).rd
        absent = set()
        for fnode in mcfg.nodes:
            for fc in [c for c in node_calls(fnode) if is_fetch(c)]:
                if fnode.kind == "stmt" and isinstance(fnode.ast, ast.Assign) and fnode.ast.value is fc \
                        and len(fnode.ast.targets) == 1 and isinstance(fnode.ast.targets[0], ast.Name):
                    for (t, lab, first) in _absent_edges(mcfg, mrd, plain, fnode, fnode.ast.targets[0].id):
                        absent.add((t.id, lab[0]))
        if not absent:
            raise AnchorVanished("%s: no absent-data edge found" % short(m))

        def transfer(n, lab, nxt, st, _absent=absent):
            if lab == "exc":
                return None
            seen, flags = st
            flags = _flag_step(n, lab, flags, plain)
            if flags is None:
                return None
            if isinstance(lab, tuple) and (n.id, lab[0]) in _absent:
                seen = True
            return (seen, flags)
        vis, par = explore(mcfg, (False, frozenset()), transfer)
        r.count(len(vis))
        told = set()
        for (nid, st) in sorted(vis, key=lambda x: (x[0], x[1][0], sorted(x[1][1]))):
            q = mcfg.nodes[nid]
            if is_return(q) and not st[0] and _return_truth(q, dict(st[1]), mcfg, mrd) is False and nid not in told:
                told.add(nid)
                w = witness(mcfg, par, (nid, st))
                r.violation(m, m.loc(q.ast), "%s reports the stage as unsatisfied (%s) on a path on which every piece it fetched "
                            "had arrived: the round ends, and when these were the last answers outstanding nothing runs "
                            "the loop again - the data for the later stages sits in the span store and the download stalls "
                            "(path: %s)" % (short(m), src(m, q.ast), w.brief()), w)
        # falling off the end is `return None`
        for (nid, st) in sorted(vis, key=lambda x: (x[0], x[1][0], sorted(x[1][1]))):
            q = mcfg.nodes[nid]
            if is_return(q) or q.kind in ("exit", "raise", "entry") or "x" in told:
                continue
            for (d, lab) in mcfg.succ[nid]:
                nst = transfer(q, lab, mcfg.nodes[d], st)
                if mcfg.nodes[d].kind == "exit" and nst is not None and not nst[0]:
                    told.add("x")
                    w = witness(mcfg, par, (nid, st))
                    r.violation(m, m.loc(q.ast), "%s can fall off its end (returning None = unsatisfied) on a path on which "
                                "every piece it fetched had arrived: the round ends and, when these were the last answers "
                                "outstanding, the download stalls (path: %s)" % (short(m), w.brief()), w)
                    break

def run_authoritative_tables(ctx, r):
    """When the UEB is parsed every size the downloader guessed (or left None) is replaced by the authoritative one."""
    idx = ctx.idx
    p = idx.func(NODE + "._parse_and_store_UEB")
    pcfg = p.cfg()
    rd_fn = idx.func(NODE + "._calculate_sizes")
    ps = Sym(idx, p)
    ccall = the_call(p, "_calculate_sizes")
    res_names = [t.id for n in pcfg.nodes if n.kind == "stmt" and isinstance(n.ast, ast.Assign) and n.ast.value is ccall
                 for t in n.ast.targets if isinstance(t, ast.Name)]
    stored = {}
    for n in pcfg.nodes:
        if n.kind == "stmt" and isinstance(n.ast, ast.Assign):
            v = ps.expand(n, n.ast.value)
            k = _const_key(v)
            base = v.value if isinstance(v, ast.Subscript) else None
            if k is not None and (base is ccall or (isinstance(base, ast.Call) and call_tail(base) == "_calculate_sizes")
                                  or (isinstance(base, ast.Name) and base.id in res_names)):
                for t in n.ast.targets:
                    tp = attr_path(t)
                    if tp and tp.startswith("self."):
                        stored.setdefault(k, []).append((tp, n))
    for key in ("tail_segment_size", "tail_segment_padded", "num_segments", "block_size", "tail_block_size"):
        r.site(p, None, "self.%s <- _calculate_sizes()[%r]" % (key, key))
        hits = [n for (tp, n) in stored.get(key, []) if tp == "self." + key]
        if not hits:
            r.violation(p, p.loc(ccall), "_parse_and_store_UEB does not store the %r entry of _calculate_sizes as self.%s: the "
                        "downloader keeps the value it had before the UEB (None) for a size that block addressing / decoding "
                        "/ trimming read" % (key, key))
            continue
        for (t, w) in find_path_avoiding(pcfg, lambda q: q.kind == "exit", gate_node=lambda q, _h=hits: any(q is h for h in _h),
                                         skip_exc_edges=True):
            r.violation(p, p.loc(hits[0].ast), "self.%s is not set on every path through _parse_and_store_UEB (path: %s)" % (
                key, w.brief()), w)
    # tables built from the guessed segment count are rebuilt from the authoritative one
    g = idx.func(NODE + "._build_guessed_tables")
    gsym = Sym(idx, g)
    ren_g = {"self.guessed_num_segments": "NUMSEG", "self.guessed_segment_size": "SEG"}
    ren_p = {"self.num_segments": "NUMSEG", "self.segment_size": "SEG"}
    ns_nodes = [n for n in pcfg.nodes if n.kind == "stmt" and "self.num_segments" in node_stores(n)]
    guessed = []
    for n in g.cfg().nodes:
        if n.kind == "stmt" and isinstance(n.ast, ast.Assign):
            for path in sorted(node_stores(n)):
                if path.startswith("self.") and not path.startswith("self.guessed_") and not path.endswith("[]"):
                    gv = gsym.expand(n, n.ast.value)
                    if {"NUMSEG", "SEG"} & names_in(parse_expr(nf(gv, ren_g))):
                        guessed.append((path, n, gv))
    if not guessed:
        raise AnchorVanished("_build_guessed_tables no longer builds any table from the guessed segment count")
    for (path, gn, gv) in guessed:
        r.site(g, gn.ast, "%s is rebuilt from the authoritative count in _parse_and_store_UEB" % path)
        want = nf(gv, ren_g)
        hits = [n for n in pcfg.nodes if n.kind == "stmt" and isinstance(n.ast, ast.Assign) and path in node_stores(n)]
        if not hits:
            r.violation(p, p.loc(), "%s is built from the guessed segment count (%s) and never rebuilt when the UEB gives the "
                        "real one: when the guess was wrong (segment size of the upload differs from this client's default) "
                        "hashes of segments beyond the guess are never requested / do not fit, and the download stalls or "
                        "fails" % (path, g.loc(gn.ast)))
            continue
        for h in hits:
            got = nf(ps.expand(h, h.ast.value), ren_p)
            r.require(got == want, p, p.loc(h.ast), "%s is rebuilt as %s; the guessed table is %s with the guessed count" % (
                path, nf(ps.expand(h, h.ast.value)), nf(gv)))
            r.require(bool(ns_nodes) and all(dominated_by(pcfg, x, h) for x in ns_nodes[:1]), p, p.loc(h.ast),
                      "%s is rebuilt before self.num_segments holds the authoritative count" % path)
        for (t, w) in find_path_avoiding(pcfg, lambda q: q.kind == "exit", gate_node=lambda q, _h=hits: any(q is h for h in _h),
                                         skip_exc_edges=True):
            r.violation(p, p.loc(hits[0].ast), "%s is not rebuilt on every path through _parse_and_store_UEB (path: %s)" % (
                path, w.brief()), w)


# ----------------------------------------- the blocks that are sent are the blocks that are hashed
def _no_writer_edge(fnorm, n, lab, share_nfs):
    """The edge (n, lab) holds only when the share has no bucket writer: `<share> not in self.landlords`
    or `self.landlords.get(<share>)` absent."""
    f = fnorm.edge_fact(n, lab)
    if not f:
        return False
    if f[0] == "not in" and f[2] == "self.landlords" and f[1] in share_nfs:
        return True
    gets = {"self.landlords.get(%s)" % x for x in share_nfs} | {"self.landlords.get(%s, None)" % x for x in share_nfs}
    if f[0] == "false" and f[1] in gets:
        return True
    return f[0] in ("is", "==") and ({f[1], f[2]} - gets) == {"None"} and ({f[1], f[2]} & gets)


def _block_hash_sites(idx, fn, enc, depth=1):
    """[(CFG node of fn, share-index AST, block AST)]: self.block_hashes[<share>].append(block_hash(<block>)) done at that
    node, directly or by a call of an Encoder method that does it (arguments substituted for its parameters)."""
    s = Sym(idx, fn)
    out = []
    for n in fn.cfg().nodes:
        for c in node_calls(n):
            if not isinstance(c.func, ast.Attribute):
                continue
            if c.func.attr == "append" and len(c.args) == 1:
                tgt = s.fnorm.resolve(n, c.func.value) if isinstance(c.func.value, ast.Name) else c.func.value
                h = s.fnorm.resolve(n, c.args[0])
                if isinstance(tgt, ast.Subscript) and attr_path(tgt.value) == "self.block_hashes" \
                        and isinstance(h, ast.Call) and call_tail(h) == "block_hash" and len(h.args) == 1:
                    out.append((n, tgt.slice, h.args[0]))
            elif depth > 0 and attr_path(c.func.value) == "self":
                m = enc.lookup(c.func.attr)
                if m is None or m.qual == fn.qual:
                    continue
                sub = _block_hash_sites(idx, m, enc, depth - 1)
                if not sub:
                    continue
                bound = bind_call_args(m, c)
                ms = Sym(idx, m)
                for (mn, sh, bl) in sub:
                    out.append((n, subst_names(ms.expand(mn, sh), bound), subst_names(ms.expand(mn, bl), bound)))
    return out


def _codec_pairing(sym, node, block, share, pair_param):
    """Is (block, share) at `node` one (share data, share number) pair of the codec result `pair_param` = (shares, shareids)?
    -> True / False / None (form not recognised)."""
    cfg = sym.cfg
    b, s_ = sym.expand(node, block), sym.expand(node, share)

    def half(e):
        """(0|1, index nf) for <pair_param>[0|1][index]"""
        if isinstance(e, ast.Subscript) and isinstance(e.value, ast.Subscript) and isinstance(e.value.value, ast.Name) \
                and e.value.value.id == pair_param and isinstance(e.value.slice, ast.Constant) and e.value.slice.value in (0, 1) \
                and not isinstance(e.slice, ast.Slice):
            return (e.value.slice.value, nf(e.slice))
        if isinstance(e, ast.Name):          # for <i>, <e> in enumerate(<pair_param>[0|1])
            ds = sym.rd.get(node.id, {}).get(e.id)
            L = cfg.nodes[next(iter(ds))] if ds and len(ds) == 1 and C.PARAM_DEF not in ds else None
            if L is not None and L.kind == "iter" and isinstance(L.ast.iter, ast.Call) and call_name(L.ast.iter) == "enumerate" \
                    and len(L.ast.iter.args) == 1 and not L.ast.iter.keywords and isinstance(L.ast.target, ast.Tuple) \
                    and len(L.ast.target.elts) == 2 and all(isinstance(t, ast.Name) for t in L.ast.target.elts) \
                    and L.ast.target.elts[1].id == e.id and L.ast.target.elts[0].id != e.id:
                i = L.ast.target.elts[0].id
                seq = nf(sym.expand(L, L.ast.iter.args[0]))
                for h in (0, 1):
                    if seq == "%s[%d]" % (pair_param, h) and sym.rd.get(node.id, {}).get(i) == ds:
                        return (h, i)
        return None
    hb, hs = half(b), half(s_)
    if hb is not None and hs is not None:
        return hb[0] == 0 and hs[0] == 1 and hb[1] == hs[1]
    if isinstance(b, ast.Name) and isinstance(s_, ast.Name):
        db, ds = sym.rd.get(node.id, {}).get(b.id), sym.rd.get(node.id, {}).get(s_.id)
        if db and db == ds and len(db) == 1 and C.PARAM_DEF not in db:
            L = cfg.nodes[next(iter(db))]
            if L.kind == "iter" and isinstance(L.ast.target, (ast.Tuple, ast.List)) and isinstance(L.ast.iter, ast.Call) \
                    and call_name(L.ast.iter) == "zip" and len(L.ast.iter.args) == len(L.ast.target.elts) \
                    and not L.ast.iter.keywords:
                pos = {t.id: i for i, t in enumerate(L.ast.target.elts) if isinstance(t, ast.Name)}
                if b.id in pos and s_.id in pos:
                    src_b = nf(sym.expand(L, L.ast.iter.args[pos[b.id]]))
                    src_s = nf(sym.expand(L, L.ast.iter.args[pos[s_.id]]))
                    if {src_b, src_s} == {"%s[0]" % pair_param, "%s[1]" % pair_param}:
                        return src_b == "%s[0]" % pair_param
    return None


def run_sent_is_hashed(ctx, r):
    """Every block the codec produces is hashed for its share (C01.12).  The round trip also needs the other half:
    the block stored on the server of share S for segment n is that same block - so in the share loop of
    Encoder._send_segment the (share, block) pair that is hashed is the pair that is sent, under the segment number of
    the round; a round skips the send only for a share without a bucket writer; and send_block hands exactly
    (segment number, block) to the writer of that share."""
    idx = ctx.idx
    enc = idx.cls(ENC)
    ss = idx.func(ENC + "._send_segment")
    ssp = first_positional_params(ss)
    if len(ssp) != 2:
        raise AnchorVanished("Encoder._send_segment(shares_and_shareids, segnum)")
    sb = idx.func(ENC + ".send_block")
    sbp = first_positional_params(sb)
    if len(sbp) < 3:
        raise AnchorVanished("Encoder.send_block(shareid, segment_num, block, ..)")
    sym = Sym(idx, ss)
    cfg = ss.cfg()
    fnorm = sym.fnorm
    hashed = [h for h in _block_hash_sites(idx, ss, enc) if h[0].kind in ("stmt", "test")]
    if not hashed:
        raise AnchorVanished("Encoder._send_segment: no self.block_hashes[..].append(block_hash(..))")
    sends = []
    for n in cfg.nodes:
        for c in node_calls(n):
            if call_name(c) == "self." + sb.name:
                b = bind_call_args(sb, c)
                if not all(p in b for p in sbp[:3]):
                    raise AnalysisError("%s: cannot bind %s" % (short(ss), src(ss, c)))
                sends.append((n, c, b[sbp[0]], b[sbp[1]], b[sbp[2]]))
    if not sends:
        puts = [m for m in enc.methods.values() if calls_in_func(m, "put_block", into_lambda=True)]
        if not puts:
            raise AnchorVanished("Encoder: no put_block call")
        r.site(ss, None, "share loop")
        r.violation(ss, ss.loc(), "Encoder._send_segment hashes the blocks but never calls %s: no block reaches a bucket "
                    "writer (put_block is only reached from %s)" % (sb.name, ", ".join(short(m) for m in puts)))
        return

    def key(n, e):
        return nf(sym.expand(n, e))
    hkeys = {(key(n, sh), key(n, bl)) for (n, sh, bl) in hashed}
    for (n, c, sh, seg, bl) in sends:
        r.site(ss, c, "sent (share %s, block %s) is what is hashed" % (key(n, sh), key(n, bl)))
        got = (key(n, sh), key(n, bl))
        r.require(got in hkeys, ss, ss.loc(c), "the share loop of Encoder._send_segment sends block %s as share %s but hashes %s: "
                  "the block hash tree of the share (and through it the UEB hash in the cap) does not describe the bytes "
                  "stored on the server, and the downloader rejects every block" % (
                      got[1], got[0], " / ".join("block %s for share %s" % (b_, s_) for (s_, b_) in sorted(hkeys))))
        r.require(key(n, seg) == ssp[1], ss, ss.loc(c), "the blocks of segment %s are sent as segment %s: put_block stores them "
                  "at offsets['data'] + segnum * block_size, so the share holds them at the wrong place" % (ssp[1], key(n, seg)))
        pairing = _codec_pairing(sym, n, bl, sh, ssp[0])
        if pairing is None:
            raise AnalysisError("%s: cannot decide whether (%s, %s) is a (share data, share number) pair of %s" % (
                short(ss), src(ss, bl), src(ss, sh), ssp[0]))
        r.require(pairing, ss, ss.loc(c), "block %s is sent as share %s: these are not the data and the number of the same "
                  "share in the codec result %s" % (key(n, bl), key(n, sh), ssp[0]))
    # a round of the share loop sends, unless the share has no bucket writer
    send_nodes = {n.id for (n, _c, _s, _g, _b) in sends}
    loops = []
    for L in cfg.nodes:
        if L.kind == "iter":
            body = {id(x) for st_ in L.ast.body for x in ast.walk(st_)}
            if any(n.ast is not None and id(n.ast) in body for (n, _c, _s, _g, _b) in sends):
                loops.append((L, body))
    if not loops:
        r.violation(ss, ss.loc(sends[0][1]), "Encoder._send_segment does not send the blocks from a loop over the shares")
    for (L, body) in loops:
        r.site(ss, L.ast, "every round sends the block unless the share has no bucket writer")
        share_nfs = set()
        for (n, _c, sh, _g, _b) in sends:
            share_nfs.add(nf(sh))
            share_nfs.add(fnorm.norm(n, sh))
            share_nfs.add(key(n, sh))

        def tr(n, lab, nxt, st, _L=L):
            if lab == "exc":
                return None
            if n.kind == "test" and isinstance(lab, tuple) and isinstance(n.ast, ast.Constant) \
                    and bool(n.ast.value) != (lab[0] == "T"):
                return None
            if st == 0:
                return 1 if (n is _L and lab == "iter") else None
            if n is _L or n.id in send_nodes or _no_writer_edge(fnorm, n, lab, share_nfs):
                return None
            return 1
        visited, parent = explore(cfg, 0, tr, start=L)
        r.count(len(visited))
        for (nid, st) in sorted(visited):
            m = cfg.nodes[nid]
            if st == 1 and (m is L or m.kind == "exit" or (m.ast is not None and id(m.ast) not in body)):
                w = witness(cfg, parent, (nid, st))
                r.violation(ss, ss.loc(L.ast), "a round of the share loop of Encoder._send_segment can finish without %s although "
                            "the share may have a bucket writer (path: %s): the share on the server lacks this block - "
                            "later blocks are still written at their own offsets - and fails its block hash on download" % (
                                sb.name, w.brief()), w)
                break
        dep = depends_on(ss, L.ast.iter)
        r.require(ssp[0] in dep or "self.num_shares" in dep, ss, ss.loc(L.ast), "the share loop of Encoder._send_segment (%s) "
                  "does not run over the shares it was given (%s)" % (src(ss, L.ast.iter), ssp[0]))

    # send_block: (segment number, block) go to the writer of that share on every path on which it has one
    bs = Sym(idx, sb)
    bcfg = sb.cfg()
    bnorm = bs.fnorm
    pb = idx.cls(WBP).lookup("put_block")
    if pb is None:
        raise AnchorVanished("WriteBucketProxy.put_block")
    pbp = first_positional_params(pb)
    # put_block calls of send_block: its own, or made for it by Encoder helper methods that are handed the method
    # name / the bound method (receiver and arguments read in send_block's terms)
    puts = [e for e in shareholder_calls(idx, enc, sb, depth=3) if e.meth == "put_block"]
    r.site(sb, puts[0].chain[0][1] if puts else None, "put_block(%s, %s) on self.landlords[%s]" % (sbp[1], sbp[2], sbp[0]))
    if not puts:
        r.violation(sb, sb.loc(), "Encoder.send_block never calls put_block: no block reaches a bucket writer")
        return
    good = {}                # (function qualname, share names there) -> (FuncInfo, {node ids of the good calls})
    for e in puts:
        c = e.chain[0][1]
        recv = nf(e.recv)
        ok_r = recv in ("self.landlords[%s]" % sbp[0], "self.landlords.get(%s)" % sbp[0])
        r.require(ok_r, sb, sb.loc(c), "block of share %s is put to %s, not to the bucket writer of that share" % (sbp[0], recv))
        ok_a = len(pbp) == 2 and not any(isinstance(a, ast.Starred) for a in e.args) and len(e.args) <= 2 and "**" not in e.kws
        if ok_a:
            b = {pbp[i]: nf(a) for i, a in enumerate(e.args)}
            b.update({k_: nf(v_) for k_, v_ in e.kws.items()})
            ok_a = set(b) == set(pbp) and b.get(pbp[0]) == sbp[1] and b.get(pbp[1]) == sbp[2]
        r.require(ok_a, sb, sb.loc(c), "send_block(%s) calls %s%s: the writer is not given (segment number, block) as received" % (
            ", ".join(sbp[:3]), src(sb, c), "" if len(e.chain) == 1 else " (put_block(%s) in %s)" % (
                ", ".join(nf(a) for a in e.args), short(e.chain[-1][0]))))
        if ok_r and ok_a:
            for lvl, (f_, c_, env_) in enumerate(e.chain):
                names = frozenset([sbp[0]]) if lvl == 0 else frozenset(
                    k_ for k_, v_ in env_.items() if not isinstance(v_, list) and nf(v_) == sbp[0])
                try:
                    nid = node_of(f_, c_).id
                except AnalysisError:
                    raise AnalysisError("%s: no CFG node for %s" % (short(f_), src(f_, c_)))
                good.setdefault((f_.qual, names), (f_, set()))[1].add(nid)
    for (_q, names), (f_, nids) in sorted(good.items(), key=lambda kv: kv[0][0]):
        fnorm_ = bnorm if f_ is sb else FlowNorm(f_)
        for (t, w) in find_path_avoiding(f_.cfg(), lambda q: q.kind == "exit", gate_node=lambda q, _s=nids: q.id in _s,
                                         gate_edge=lambda n_, lab, _f=fnorm_, _n=names: _no_writer_edge(_f, n_, lab, set(_n)),
                                         skip_exc_edges=True):
            r.violation(sb, sb.loc(), "Encoder.send_block can return without put_block although the share may have a bucket "
                        "writer (path%s: %s): the share on the server lacks this block and fails its block hash on download"
                        % ("" if f_ is sb else " in " + short(f_), w.brief()), w)


# ============================================ C01.14 the data reads of one upload are sequential
EAU = "immutable.upload:EncryptAnUploadable"
UPLOADABLE_IFACE = "IUploadable"
DATA_READ = "read"                 # IUploadable.read(length): the data read itself
# calls that leave a file object at another position than before
HANDLE_MOVERS = {"seek", "read", "read1", "readline", "readlines", "readinto", "write", "writelines", "truncate"}
HANDLE_INSPECTORS = {"isinstance", "hasattr", "id", "type", "repr", "str", "callable"}
_ABSENT_PATH = re.compile(r"^self\.\w+$")


def _infeasible_edge(n, lab):
    return n.kind == "test" and isinstance(lab, tuple) and isinstance(n.ast, ast.Constant) \
        and bool(n.ast.value) != (lab[0] == "T")


def _descendant_funcs(fn):
    out = []
    for g in fn.nested.values():
        out.append(g)
        out.extend(_descendant_funcs(g))
    return out


def _uploadable_family(idx):
    """Classes declared @implementer(IUploadable) and their subclasses."""
    roots = []
    for ci in idx.classes.values():
        for d in ci.node.decorator_list:
            if isinstance(d, ast.Call) and call_tail(d) == "implementer" and any(
                    (attr_path(a) or "").split(".")[-1] == UPLOADABLE_IFACE for a in d.args):
                roots.append(ci)
    if not roots:
        raise AnchorVanished("no class is declared @implementer(%s)" % UPLOADABLE_IFACE)
    fam = []
    for ci in roots:
        for c in [ci] + list(idx.subclasses(ci)):
            if c not in fam:
                fam.append(c)
    return fam


def _absent_attr(fact):
    """'self.x' when the canonical edge fact says that attribute is None / false, else None."""
    if not fact:
        return None
    op, l, r = fact
    a = None
    if op == "false":
        a = l
    elif op in ("is", "==") and "None" in (l, r):
        a = r if l == "None" else l
    return a if isinstance(a, str) and _ABSENT_PATH.match(a) else None


class _Memo:
    """Is `if self.a is None / not self.a` in f a once-only guard?  It is when whatever runs behind it stores a value in
    self.a before f (or the callback f registers) is done, and nothing else puts None back."""

    def __init__(self, idx):
        self.idx = idx
        self.cache = {}
        self.rejected = {}          # (function qual, attribute) -> why the test does not count

    @staticmethod
    def _sets(n, a):
        if a not in node_stores(n) or n.kind != "stmt" or not isinstance(n.ast, (ast.Assign, ast.AnnAssign)):
            return False
        v = assign_value(n, a)
        return not (isinstance(v, ast.Constant) and not v.value)

    def _escapes_unset(self, cfg, start, is_set):
        """A normal path from `start` to the exit of the function on which no node of is_set runs."""
        if is_set(start):
            return False

        def tr(n, lab, nxt, st):
            if lab == "exc" or _infeasible_edge(n, lab) or is_set(nxt):
                return None
            return 0
        visited, _p = explore(cfg, 0, tr, start=start)
        return any(cfg.nodes[i].kind == "exit" for (i, _s) in visited)

    def _is_set_pred(self, f, a, depth, busy):
        """Predicate on the CFG nodes of f: the node stores self.a, or mentions a closure of f / a method of f's class that
        stores it on every path (the memo is written by a callback or a helper)."""
        memo_ = {}

        def sets_always(g):
            if g.qual not in memo_:
                memo_[g.qual] = depth < 3 and g.qual not in busy and not isinstance(g.node, ast.Lambda) \
                    and self.always_sets(g, a, depth + 1, busy | {f.qual})
            return memo_[g.qual]

        def is_set(n):
            if self._sets(n, a):
                return True
            if n.kind in ("entry", "exit", "raise"):
                return False
            for e in node_exprs(n):
                for x in own_nodes(e, into_lambda=True):
                    if isinstance(x, ast.Name) and isinstance(x.ctx, ast.Load) and x.id in f.nested:
                        if sets_always(f.nested[x.id]):
                            return True
                    elif isinstance(x, ast.Attribute) and isinstance(x.ctx, ast.Load) and f.cls is not None:
                        p = attr_path(x)
                        if p and p.startswith("self.") and p.count(".") == 1:
                            m = f.cls.lookup(x.attr)
                            if m is not None and m is not f and sets_always(m):
                                return True
            return False
        return is_set

    def always_sets(self, g, a, depth=0, busy=frozenset()):
        cfg = g.cfg()
        return not self._escapes_unset(cfg, cfg.entry, self._is_set_pred(g, a, depth, busy))

    def valid(self, f, a, target):
        """`target`: the CFG node of f reached by the edge on which self.a is absent."""
        key = (f.qual, a, target.id)
        if key in self.cache:
            return self.cache[key]
        cfg = f.cfg()
        is_set = self._is_set_pred(f, a, 0, frozenset())
        why = None
        if self._escapes_unset(cfg, target, is_set):
            why = "%s is not stored on every path behind the test in %s" % (a, short(f))
        else:
            classes = []
            if f.cls is not None:
                classes = list(f.cls.mro()) + list(self.idx.subclasses(f.cls))
            for ci in classes:
                for m in ci.methods.values():
                    if m.name == "__init__":
                        continue
                    for g in [m] + _descendant_funcs(m):
                        for n in g.cfg().nodes:
                            if a in node_stores(n) and n.kind == "stmt" and (
                                    isinstance(n.ast, ast.Delete) or (isinstance(n.ast, (ast.Assign, ast.AnnAssign))
                                                                      and not self._sets(n, a))):
                                why = "%s is cleared again in %s" % (a, short(g))
        if why:
            self.rejected[(f.qual, a)] = why
        self.cache[key] = why is None
        return why is None


def run_sequential_reads(ctx, r):
    """EncryptAnUploadable.read_encrypted() runs once per segment and ends in original.read(): the uploadable delivers
    the file front to back only if nothing else that call runs repositions the uploadable's file handle.  Everything
    on the way that does (measuring the size by seeking to the end, hashing the file for the convergent key) has to sit
    behind a once-only guard - a test of a memo attribute that is absent only the first time."""
    idx = ctx.idx
    root = idx.func(EAU + ".read_encrypted")
    eau = root.cls
    family = _uploadable_family(idx)
    fam_all = []
    for ci in family:
        for c in ci.mro():
            if c not in fam_all:
                fam_all.append(c)
    # the attributes of EncryptAnUploadable that hold the wrapped uploadable
    init = eau.lookup("__init__")
    if init is None:
        raise AnchorVanished("EncryptAnUploadable.__init__")
    iparams = set(init.params)
    wrapped = set()
    for n in init.cfg().nodes:
        if n.kind == "stmt" and isinstance(n.ast, ast.Assign):
            v = n.ast.value
            if (isinstance(v, ast.Call) and call_tail(v) == UPLOADABLE_IFACE) or (isinstance(v, ast.Name) and v.id in iparams
                                                                                  and v.id != "self"):
                wrapped.update(p for p in node_stores(n) if _ABSENT_PATH.match(p))
    # the file handle: what the data read of the family reads from
    readers = []
    for ci in family:
        m = ci.lookup(DATA_READ)
        if m is not None and m not in readers:
            readers.append(m)
    handles = set()
    for m in readers:
        fm = FlowNorm(m)
        for n in m.cfg().nodes:
            for c in node_calls(n):
                if call_tail(c) in ("read", "read1", "readinto") and isinstance(c.func, ast.Attribute):
                    p = fm.norm(n, c.func.value)
                    if _ABSENT_PATH.match(p or ""):
                        handles.add(p)
    if not readers or not handles:
        raise AnchorVanished("no %s.%s() reads from a file handle attribute" % (UPLOADABLE_IFACE, DATA_READ))

    memo = _Memo(idx)
    fnorms = {}

    def fnorm_of(f):
        if f.qual not in fnorms:
            fnorms[f.qual] = FlowNorm(f)
        return fnorms[f.qual]

    def is_handle(f, n, e):
        try:
            p = fnorm_of(f).norm(n, e)
        except Exception:
            p = None
        if p in handles:
            return True
        if isinstance(e, ast.Name):               # closure variable bound to the handle in an enclosing function
            g = f.parent
            while g is not None:
                ds = def_exprs(g).get(e.id)
                if ds:
                    return all(attr_path(d) in handles for d in ds)
                g = g.parent
        return False

    def moving_ops(f, n):
        if f.cls is None or f.cls not in fam_all:
            return []
        out = []
        for c in node_calls(n):
            t = call_tail(c)
            if isinstance(c.func, ast.Attribute) and t in HANDLE_MOVERS and is_handle(f, n, c.func.value):
                if not (f in readers and t in ("read", "read1", "readinto")):
                    out.append((c, "%s()" % t))
            elif t not in HANDLE_INSPECTORS:
                for a in list(c.args) + [k.value for k in c.keywords]:
                    if is_handle(f, n, a.value if isinstance(a, ast.Starred) else a):
                        out.append((c, "the handle is given to %s()" % (call_name(c) or t)))
        return out

    def callees(f, n):
        """Functions that run because of what node n of f mentions (a call, a method / closure handed on as a value)."""
        out = []
        for e in node_exprs(n):
            for x in own_nodes(e):
                g = None
                if isinstance(x, ast.Lambda):
                    out.append(idx.lambda_func(f, x))
                    continue
                if isinstance(x, ast.Name) and isinstance(x.ctx, ast.Load):
                    h = f
                    while h is not None and g is None:
                        g = h.nested.get(x.id)
                        h = h.parent
                    if g is not None:
                        out.append(g)
                    continue
                if not isinstance(x, ast.Attribute) or not isinstance(x.ctx, ast.Load):
                    continue
                p = attr_path(x)
                if not p:
                    continue
                if p.startswith("self.") and p.count(".") == 1 and f.cls is not None:
                    if f.cls in fam_all:
                        out.extend(m for m in (ci.lookup(x.attr) for ci in family if f.cls in ci.mro()) if m is not None)
                    else:
                        m = f.cls.lookup(x.attr)
                        if m is not None:
                            out.append(m)
                elif p.rsplit(".", 1)[0] in wrapped and f.cls is eau:
                    out.extend(m for m in (ci.lookup(x.attr) for ci in family) if m is not None)
                else:
                    try:
                        g = idx.resolve_expr(f.module, x)
                    except Exception:
                        g = None
                    if isinstance(g, FuncInfo) and g.cls is not None and (g.cls in fam_all or g.cls is eau):
                        out.append(g)          # Base.method(self, ..)
        uniq = []
        for g in out:
            if g not in uniq:
                uniq.append(g)
        return uniq

    UNGUARDED = ""
    seen = {}                 # (function qual, guard) -> (caller key or None)
    work = [(root, UNGUARDED, None)]
    ops = {}                  # id(call) -> [function, call, what, {guards}, key of an unguarded visit]
    read_reached = False
    while work:
        f, g0, via = work.pop()
        key = (f.qual, g0)
        if key in seen:
            continue
        seen[key] = via
        cfg = f.cfg()
        fm = fnorm_of(f)

        def tr(n, lab, nxt, st, f=f, cfg=cfg, fm=fm):
            if lab == "exc" or _infeasible_edge(n, lab):
                return None
            if st == UNGUARDED and n.kind == "test" and isinstance(lab, tuple):
                a = _absent_attr(fm.edge_fact(n, lab))
                if a is not None and memo.valid(f, a, nxt):
                    return "%s in %s" % (a, short(f))
            return st
        visited, _parent = explore(cfg, g0, tr)
        r.count(len(visited))
        for (nid, st) in sorted(visited):
            n = cfg.nodes[nid]
            if n.kind in ("entry", "exit", "raise"):
                continue
            for (c, what) in moving_ops(f, n):
                rec = ops.setdefault(id(c), [f, c, what, set(), None])
                rec[3].add(st)
                if st == UNGUARDED and rec[4] is None:
                    rec[4] = key
            for g in callees(f, n):
                if g in readers:
                    read_reached = True
                work.append((g, st, key))
    if not read_reached:
        raise AnchorVanished("EncryptAnUploadable.read_encrypted no longer reaches the uploadable's %s()" % DATA_READ)
    r.site(root, None, "per-segment entry; data read: %s; file handle: %s" % (
        ", ".join(short(m) for m in readers), ", ".join(sorted(handles))))

    def chain(key):
        out = []
        while key is not None:
            out.append(key[0].split(":", 1)[1])
            key = seen.get(key)
        return " <- ".join(out)
    by_fn = {}
    for rec in ops.values():
        by_fn.setdefault(rec[0].qual, []).append(rec)
    for q in sorted(by_fn):
        recs = sorted(by_fn[q], key=lambda x: (x[1].lineno, x[1].col_offset))
        f = recs[0][0]
        guards = sorted(set().union(*[x[3] for x in recs]) - {UNGUARDED})
        r.site(f, recs[0][1], "moves the file handle (%s); reached per segment only behind: %s" % (
            ", ".join(sorted({x[2] for x in recs})), "; ".join(guards) or "-"))
        bad = [x for x in recs if x[4] is not None]
        if bad:
            x = bad[0]
            on_chain, k_ = set(), x[4]
            while k_ is not None:
                on_chain.add(k_[0])
                k_ = seen.get(k_)
            notes = sorted({why for (fq, _a), why in memo.rejected.items() if fq in on_chain})
            r.violation(f, f.loc(x[1]), "%s repositions the uploadable's file handle (%s) and is reached from every "
                        "read_encrypted() call without passing a once-only guard (call chain: %s): each segment after the "
                        "first is then read from the wrong offset, the upload succeeds and the file reads back with wrong "
                        "bytes%s" % (short(f), ", ".join(src(f, y[1]) for y in bad), chain(x[4]),
                                     ("; tests that do not count as a guard: " + "; ".join(notes)) if notes else ""))


# ================================ C01.16 the segment is the decoder's output, joined in the decoder's order
def _order_kept(e, name):
    """e is `name`, list(name) / tuple(name) or [x for x in name]: the same items in the same order."""
    if isinstance(e, ast.Name):
        return e.id == name
    if isinstance(e, ast.Call) and isinstance(e.func, ast.Name) and e.func.id in ("list", "tuple") and len(e.args) == 1 \
            and not e.keywords:
        return _order_kept(e.args[0], name)
    if isinstance(e, (ast.ListComp, ast.GeneratorExp)) and len(e.generators) == 1:
        g = e.generators[0]
        return not g.ifs and isinstance(g.target, ast.Name) and isinstance(e.elt, ast.Name) and e.elt.id == g.target.id \
            and _order_kept(g.iter, name)
    return False


def run_decoded_join(ctx, r):
    """The blocks arrive in the order the servers answered; only the codec knows how to turn them into the k input
    pieces in share-number order.  So whatever DownloadNode._decode_blocks hands on must be the codec's result, joined
    piece by piece in the order the codec returned them."""
    idx = ctx.idx
    db = idx.func(NODE + "._decode_blocks")
    cfg = db.cfg()
    fn_ = FlowNorm(db)
    dc = the_call(db, "decode")
    dn = node_of(db, dc)
    r.site(db, dc, "every result of _decode_blocks is the codec's Deferred")
    dvars = [t.id for t in (dn.ast.targets if dn.kind == "stmt" and isinstance(dn.ast, ast.Assign) and dn.ast.value is dc
                            else []) if isinstance(t, ast.Name)]

    def unchained(v):
        while isinstance(v, ast.Call) and isinstance(v.func, ast.Attribute) and v.func.attr in ("addCallback", "addBoth",
                                                                                                "addCallbacks", "addErrback"):
            v = v.func.value
        return v
    rets = cfg.find(is_return)
    if not rets:
        raise AnchorVanished("_decode_blocks returns nothing")
    for q in rets:
        v = unchained(q.ast.value) if q.ast.value is not None else None
        ok = v is dc
        if not ok and isinstance(v, ast.Name) and v.id in dvars:
            ds = fn_.rd.get(q.id, {}).get(v.id, frozenset())
            ok = ds == frozenset([dn.id])
        r.require(ok, db, db.loc(q.ast), "_decode_blocks can return %s, which is not the result of %s: the blocks are in the "
                  "order the servers answered, and only the codec puts the pieces of the segment in share-number order" % (
                      src(db, q.ast.value) if q.ast.value is not None else "None", src(db, dc)))
    # the callback that turns the codec's pieces into the segment: the first one registered on that Deferred
    regs = []
    for v in dvars:
        regs.extend(registrations(db, v))
    if not dvars:
        regs = [g for g in registrations(db) if any(x is dc for x in ast.walk(g.call))]
    regs = [g for g in regs if g.kind in ("cb", "both", "pair")]
    regs.sort(key=lambda g: (g.call.lineno, g.call.col_offset))
    if not regs:
        raise AnchorVanished("_decode_blocks registers no callback on the Deferred of %s" % src(db, dc))
    t = regs[0].target
    pr = None
    if isinstance(t, ast.Name):
        pr = db.nested.get(t.id)
    elif isinstance(t, ast.Lambda):
        pr = idx.lambda_func(db, t)
    elif isinstance(t, ast.Attribute) and (attr_path(t) or "").startswith("self.") and db.cls is not None:
        pr = db.cls.lookup(t.attr)
    if pr is None:
        raise AnchorVanished("_decode_blocks: cannot resolve the first callback (%s) of the decode Deferred" % regs[0].target_name())
    pp = [p for p in pr.params if p != "self"]
    if not pp:
        raise AnchorVanished("%s takes no result parameter" % short(pr))
    pcfg = pr.cfg()
    pn = FlowNorm(pr)
    joins = [(n, c) for n in pcfg.nodes for c in node_calls(n) if call_tail(c) == "join"]
    if len(joins) != 1:
        raise AnchorVanished("%s: expected exactly one join of the decoded pieces, found %d" % (short(pr), len(joins)))
    jn, jc = joins[0]
    r.site(pr, jc, "segment = join of the codec's pieces, in the codec's order")
    sep = jc.func.value if isinstance(jc.func, ast.Attribute) else None
    a0 = jc.args[0] if len(jc.args) == 1 and not jc.keywords else None
    at = jn
    for _hop in range(4):                      # a temporary holding the pieces
        if not (isinstance(a0, ast.Name) and a0.id != pp[0]):
            break
        ds = pn.rd.get(at.id, {}).get(a0.id, frozenset())
        if len(ds) != 1 or C.PARAM_DEF in ds:
            break
        at = pcfg.nodes[next(iter(ds))]
        v = pn._def_value(at, a0.id)
        if v is None:
            break
        a0 = v
    r.require(isinstance(sep, ast.Constant) and sep.value == b"" and a0 is not None and _order_kept(a0, pp[0]), pr, pr.loc(jc),
              "the segment is built as %s, not as b''.join(%s): the decoded pieces are not concatenated as the codec "
              "returned them" % (src(pr, jc), pp[0]))
    # ... and that join is the segment handed on
    jt = [x.id for x in (jn.ast.targets if jn.kind == "stmt" and isinstance(jn.ast, ast.Assign) else []) if isinstance(x, ast.Name)]
    prets = pcfg.find(is_return)
    if not prets:
        raise AnchorVanished("%s returns nothing" % short(pr))
    for q in prets:
        v = _returned_ast(pcfg, pn.rd, q)
        first = v.elts[0] if isinstance(v, ast.Tuple) and v.elts else v
        ok = first is jc or any(x is jc for x in ast.walk(first)) if first is not None else False
        if not ok and isinstance(first, ast.Name):
            # every definition of the returned name is the join, a copy of it, or a slice of such a value (the tail trim)
            seen_d, ok = set(), True
            todo = [(first.id, d) for d in pn.rd.get(q.id, {}).get(first.id, frozenset())]
            while todo and ok:
                nm, d = todo.pop()
                if (nm, d) in seen_d:
                    continue
                seen_d.add((nm, d))
                if d == C.PARAM_DEF or d < 0:
                    ok = False
                    break
                n2 = pcfg.nodes[d]
                if n2 is jn and nm in jt:
                    continue
                val = pn._def_value(n2, nm)
                if val is jc:
                    continue
                if isinstance(val, ast.Subscript) and isinstance(val.slice, ast.Slice):
                    val = val.value
                if isinstance(val, ast.Name):
                    todo.extend((val.id, d2) for d2 in pn.rd.get(n2.id, {}).get(val.id, frozenset()))
                    continue
                ok = False
            ok = ok and bool(seen_d)
        r.require(ok, pr, pr.loc(q.ast), "%s returns %s as the segment, which is not (a slice of) %s" % (
            short(pr), src(pr, first) if first is not None else "None", src(pr, jc)))


# ------------------------------------------ the read path: entry point -> Segmentation
IFN_READ = "immutable.filenode:ImmutableFileNode.read"
CFN_READ = "immutable.filenode:CiphertextFileNode.read"
SEGM = "immutable.downloader.segmentation:Segmentation"


class ReadStage:
    """One stage of the chain ImmutableFileNode.read -> CiphertextFileNode.read -> DownloadNode.read -> Segmentation:
    the function, its (consumer, offset, size) parameters, and the sites of its own CFG that hand the read on to the
    next stage (`forwards`: (cfg node, call) - for DownloadNode.read the start() of a Segmentation built in this call;
    `ctor` is then the Segmentation(..) call)."""

    def __init__(self, idx, qual, what, tail=None, recv=None):
        self.fn = idx.func(qual)
        self.what = what
        ps = first_positional_params(self.fn)
        if len(ps) < 3:
            raise AnchorVanished("%s no longer takes (consumer, offset, size)" % short(self.fn))
        self.consumer, self.offset, self.size = ps[:3]
        self.sym = Sym(idx, self.fn)
        self.cfg = self.sym.cfg
        self.forwards = []
        self.ctor = {}
        for n in self.cfg.nodes:
            for c in node_calls(n):
                if not isinstance(c.func, ast.Attribute):
                    continue
                if tail is not None:
                    if c.func.attr == tail and nf(self.sym.expand(n, c.func.value)) == recv:
                        self.forwards.append((n, c))
                elif c.func.attr == "start":
                    rv = self.sym.expand(n, c.func.value)
                    if isinstance(rv, ast.Call) and call_tail(rv) == "Segmentation":
                        # the original constructor call (rv is an expanded copy) and the node that evaluates it
                        for m in self.cfg.nodes:
                            for c2 in node_calls(m):
                                if call_tail(c2) == "Segmentation" and ast.dump(self.sym.expand(m, c2)) == ast.dump(rv):
                                    self.ctor[id(c)] = (m, c2)
                        if id(c) in self.ctor:
                            self.forwards.append((n, c))
        if not self.forwards:
            raise AnchorVanished("%s: %s not found" % (short(self.fn), what))

    def is_forward(self, n):
        return any(m is n for (m, _c) in self.forwards)

    def later_code(self):
        """(function, call) for every call in code of this stage that runs on a later turn or repeatedly out of the
        stage's own control flow: nested defs and lambdas (Deferred callbacks, eventually())."""
        own = {id(x) for x in func_own_nodes(self.fn)}
        out = []
        for x in ast.walk(self.fn.node):
            if isinstance(x, ast.Call) and id(x) not in own:
                out.append(x)
        return out


def read_stages(idx):
    """The three forwarding stages of an immutable read (shared with C02)."""
    return [ReadStage(idx, IFN_READ, "the call self._cnode.read(..)", tail="read", recv="self._cnode"),
            ReadStage(idx, CFN_READ, "the call self._node.read(..)", tail="read", recv="self._node"),
            ReadStage(idx, NODE + ".read", "the start() of a Segmentation built for this read")]


def zero_size_edge(st, n, lab, want_defs):
    """The edge (n, lab) establishes `<size> == 0` for a local/parameter whose reaching definitions at n are
    want_defs(name) (so that it is the length of this read, not some other number)."""
    f = st.sym.fnorm.edge_fact(n, lab)
    if not f or f[0] != "==" or "0" not in (f[1], f[2]):
        return False
    t = n.ast
    if not (isinstance(t, ast.Compare) and len(t.ops) == 1):
        return False
    sides = [t.left, t.comparators[0]]
    nm = [s for s in sides if isinstance(s, ast.Name)]
    k = [s for s in sides if isinstance(s, ast.Constant) and s.value == 0 and not isinstance(s.value, bool)]
    if len(nm) != 1 or len(k) != 1:
        return False
    return st.sym.rd.get(n.id, {}).get(nm[0].id) == want_defs(nm[0].id)


def run_read_path(ctx, r):
    """Every normal return of the three read() stages lies behind the hand-over to the next stage (or behind the fact
    that the length of the read is zero): Segmentation is the only code that walks all segments of [offset, offset+size)
    and cuts them to the range, so a return that by-passes it delivers something else than the requested bytes."""
    idx = ctx.idx
    stages = read_stages(idx)
    for st in stages:
        fn = st.fn
        r.site(fn, st.forwards[0][1], "every return behind " + st.what)
        if st.ctor:
            # DownloadNode.read: the zero length is the length given to the Segmentation (the clipped one)
            size_defs = set()
            for (n, c) in st.forwards:
                sinit = idx.func(SEGM + ".__init__")
                (cn, cc) = st.ctor[id(c)]
                a = bind_call_args(sinit, cc).get(first_positional_params(sinit)[2])
                if isinstance(a, ast.Name):
                    size_defs.add((a.id, st.sym.rd.get(cn.id, {}).get(a.id)))
            want = lambda name, _s=size_defs: next((d for (nm, d) in _s if nm == name), None)
        else:
            want = lambda name, _st=st: frozenset([C.PARAM_DEF]) if name == _st.size else None
        gate_e = lambda n, lab, _st=st, _w=want: _w is not None and zero_size_edge(_st, n, lab, _w)
        bad = find_path_avoiding(st.cfg, lambda n: n.kind == "exit", gate_node=st.is_forward, gate_edge=gate_e)
        r.count(len(st.cfg.nodes))
        for (t, w) in bad:
            last = [n for (n, _l) in w.path if n.kind == "stmt" and isinstance(n.ast, ast.Return)]
            at = last[-1].ast if last else None
            r.violation(fn, fn.loc(at) if at is not None else fn.loc(),
                        "%s can return%s without passing through %s (and without having established that the length of the "
                        "read is 0): what the consumer then receives is not cut out of the file's segments by Segmentation, "
                        "the only code that fetches every segment of [offset, offset+size) and trims it to the range "
                        "(path: %s)" % (short(fn), (" " + src(fn, at.value)) if at is not None and at.value is not None else "",
                                        st.what, w.brief()), w)
    # segment data is requested only by Segmentation (which trims it), by get_segsize (which throws it away) and by the
    # forwarding wrapper of the ciphertext node
    allowed = [SEGM + "._fetch_next", NODE + ".get_segsize", "immutable.filenode:CiphertextFileNode.get_segment"]
    bad, badrefs, total = callers_outside(idx, "get_segment", allowed)
    r.site("callers of get_segment: %d" % total)
    if total < 1:
        raise AnchorVanished("no caller of get_segment found")
    for cs in bad:
        # a caller that throws the segment away (a prefetch) delivers nothing; one that writes somewhere, or hands the
        # result to code that is not in sight (a callback that is not a nested def / lambda), may deliver the segment
        top = cs.fn
        while top.parent is not None:
            top = top.parent
        writes = [x for x in ast.walk(top.node) if isinstance(x, ast.Call) and call_tail(x) == "write"]
        hidden = [x for x in ast.walk(top.node) if isinstance(x, ast.Call) and call_tail(x) in (
            "addCallback", "addCallbacks", "addBoth") and x.args and not (
                isinstance(x.args[0], ast.Lambda) or (isinstance(x.args[0], ast.Name) and x.args[0].id in top.nested))]
        if not writes and not hidden:
            continue
        r.violation(cs.fn, cs.loc, "%s asks for a whole segment (get_segment) outside Segmentation and %s: a segment is not the "
                    "requested range - only Segmentation._got_segment cuts it to [offset, offset+size) and goes on to the "
                    "next segment" % (short(cs.fn), ("writes (%s)" % src(top, writes[0])[:60]) if writes else
                                      "hands the result to a callback that is not in sight"))
    for (f, nd) in badrefs:
        r.violation(f, f.loc(nd), "%s takes get_segment as a value" % short(f))


# ------------------------------------------ every server taken off the finder's server iterator is asked
_TAKE_METHODS = ("pop", "popleft", "__next__", "next")
_KEEP_METHODS = ("append", "appendleft", "add", "insert", "extend", "extendleft", "put", "put_nowait", "push")


def _carried_names(e):
    """Plain names whose *value* is part of the value of e (`x`, `[x]`, `f(x)`), not names that are only the receiver
    of an attribute access (`x.get_name()` carries a name of x, not x)."""
    skip = set()
    out = set()
    for x in own_nodes(e, into_lambda=True):
        if isinstance(x, ast.Attribute) and isinstance(x.value, ast.Name):
            skip.add(id(x.value))
    for x in own_nodes(e, into_lambda=True):
        if isinstance(x, ast.Name) and id(x) not in skip:
            out.add(x.id)
    return out


def _is_none(e):
    return isinstance(e, ast.Constant) and e.value is None


class ServerFlow:
    """The flow of the elements of ShareFinder's permuted-server iterator.  The iterator attribute is found by role (the
    attribute that is given the servers of get_servers_for_psi()); an element is *taken* by next(<attr>[, default]),
    <attr>.pop()/popleft()/__next__(), a `for` over the attribute, or a call of a method of the class that returns a
    taken element; it is *handed over* by the query itself (<element>...get_buckets(..)), by a call (direct, or deferred
    through eventually/callLater-style `f(self.meth, element)`) of a method of the class that hands its parameter over on
    every path, by being put back / kept (a store into an attribute of self, an append-like call on one), or by being
    returned to the caller."""

    def __init__(self, idx):
        self.idx = idx
        self.ci = idx.cls(FINDER)
        self.cg = get_callgraph(idx)
        self.fns = []
        for c in self.ci.mro():
            for m in c.methods.values():
                if all(m.name != f.name for f in self.fns):
                    self.fns.append(m)
        self.attrs, self.attr_site = self._iterator_attrs()
        self._hand = {}
        self._src = {}
        self._flow = {}
        self.states = 0

    # ---- the iterator attribute, by role
    def _iterator_attrs(self):
        attrs, site = set(), None
        for fn in self.fns:
            for x in func_own_nodes(fn):
                if not isinstance(x, ast.Assign):
                    continue
                if not any(call_tail(c) == "get_servers_for_psi" for c in calls_feeding(fn, x.value)):
                    continue
                for t in x.targets:
                    p = attr_path(t) if isinstance(t, ast.Attribute) else None
                    if p and p.startswith("self.") and p.count(".") == 1:
                        attrs.add(p)
                        site = site or (fn, x)
        if not attrs:
            raise AnchorVanished("ShareFinder no longer keeps the servers of get_servers_for_psi() in an attribute of its own")
        return attrs, site

    def is_attr(self, e):
        return isinstance(e, ast.Attribute) and attr_path(e) in self.attrs

    def check_uses(self):
        """Fail closed: every read of the iterator attribute inside the class is one of the forms the flow understands."""
        parent = {}
        for x in ast.walk(self.ci.node):
            for ch in ast.iter_child_nodes(x):
                parent[id(ch)] = x
        for x in ast.walk(self.ci.node):
            if not (self.is_attr(x) and isinstance(x.ctx, ast.Load)):
                continue
            p = parent.get(id(x))
            ok = False
            if isinstance(p, ast.Call) and isinstance(p.func, ast.Name) and p.func.id == "next" and p.args and p.args[0] is x \
                    and len(p.args) <= 2 and not p.keywords:
                ok = True
            elif isinstance(p, ast.Attribute) and p.attr in _TAKE_METHODS and isinstance(parent.get(id(p)), ast.Call) \
                    and parent[id(p)].func is p:
                ok = True
            elif isinstance(p, ast.Attribute) and p.attr in _KEEP_METHODS:
                ok = True
            elif isinstance(p, (ast.For, ast.AsyncFor)) and p.iter is x:
                ok = True
            elif isinstance(p, ast.Compare) and len(p.ops) == 1 and isinstance(p.ops[0], (ast.Is, ast.IsNot, ast.Eq, ast.NotEq)) \
                    and any(_is_none(o) for o in [p.left] + p.comparators):
                ok = True
            elif isinstance(p, (ast.If, ast.While, ast.IfExp, ast.Assert)) and p.test is x:
                ok = True
            elif isinstance(p, ast.BoolOp) or (isinstance(p, ast.UnaryOp) and isinstance(p.op, ast.Not)):
                # operand of and / or / not in a truth position (a test), not a value (`for s in self._servers or ()`)
                top = p
                while isinstance(parent.get(id(top)), ast.BoolOp) or (isinstance(parent.get(id(top)), ast.UnaryOp)
                                                                      and isinstance(parent[id(top)].op, ast.Not)):
                    top = parent[id(top)]
                pp = parent.get(id(top))
                ok = isinstance(pp, (ast.If, ast.While, ast.IfExp, ast.Assert)) and pp.test is top
            else:
                # a re-store of the attribute that keeps what it held: self._servers = chain([server], self._servers)
                q = p
                while q is not None and not isinstance(q, ast.stmt):
                    q = parent.get(id(q))
                if isinstance(q, ast.Assign) and any(self.is_attr(t) for t in q.targets):
                    ok = True
            if not ok:
                raise AnalysisError("ShareFinder reads its server iterator %s in a way the flow of its elements cannot be "
                                    "followed through: %s" % (attr_path(x), ast.unparse(p)[:80]))

    # ---- taking an element
    def direct_take(self, e):
        """next(<attr>[, default]) / <attr>.pop() ... -> 'default' | 'raises' ; else None."""
        if not isinstance(e, ast.Call):
            return None
        if isinstance(e.func, ast.Name) and e.func.id == "next" and e.args and self.is_attr(e.args[0]):
            return "default" if len(e.args) > 1 else "raises"
        if isinstance(e.func, ast.Attribute) and e.func.attr in _TAKE_METHODS and self.is_attr(e.func.value):
            return "raises"
        return None

    def callees(self, fn, call):
        f = call.func
        if isinstance(f, ast.Attribute) and isinstance(f.value, ast.Name) and f.value.id == "self":
            return [m for m in self.cg.resolve(fn, call) if m.cls is not None]
        return []

    def is_take(self, fn, e):
        if self.direct_take(e):
            return True
        if isinstance(e, ast.Call):
            ms = self.callees(fn, e)
            return bool(ms) and any(self.returns_element(m) for m in ms)
        return False

    def returns_element(self, m):
        if m.qual not in self._src:
            self._src[m.qual] = False          # recursion: not a source
            self._src[m.qual] = self.flow(m, ())["returns"]
        return self._src[m.qual]

    def hands_over(self, m, param):
        k = (m.qual, param)
        if k not in self._hand:
            self._hand[k] = False              # recursion: no hand-over
            self._hand[k] = param in m.params and not self.flow(m, (param,))["dropped"]
        return self._hand[k]

    def method_ref(self, fn, e):
        if isinstance(e, ast.Attribute) and isinstance(e.value, ast.Name) and e.value.id == "self" and fn.cls is not None:
            return fn.cls.lookup(e.attr)
        return None

    def _passes(self, fn, call, names):
        """The names (subset of `names`) this call hands over."""
        out = set()
        # the query itself
        if call_tail(call) == "get_buckets" and isinstance(call.func, ast.Attribute):
            recv = call.func.value
            out |= names & (names_in(recv) | {d for d in depends_on(fn, recv) if "." not in d})
        # a method of the class that hands its parameter over on every path
        ms = self.callees(fn, call)
        if ms:
            for nm in names:
                good = True
                hit = False
                for m in ms:
                    ps = first_positional_params(m)
                    bound = [ps[i] for i, a in enumerate(call.args) if i < len(ps) and isinstance(a, ast.Name) and a.id == nm]
                    bound += [kw.arg for kw in call.keywords if kw.arg and isinstance(kw.value, ast.Name) and kw.value.id == nm]
                    if not bound:
                        good = False
                        continue
                    hit = True
                    good = good and any(self.hands_over(m, p) for p in bound)
                if hit and good:
                    out.add(nm)
        # a deferred call: eventually(self.send_request, server), reactor.callLater(0, self.send_request, server)
        for i, a in enumerate(call.args):
            m = self.method_ref(fn, a)
            if m is None:
                continue
            ps = first_positional_params(m)
            for j, b in enumerate(call.args[i + 1:]):
                if isinstance(b, ast.Name) and b.id in names and j < len(ps) and self.hands_over(m, ps[j]):
                    out.add(b.id)
        # put back / kept for a later turn: an append-like call on an attribute of self
        if isinstance(call.func, ast.Attribute) and call.func.attr in _KEEP_METHODS:
            p = attr_path(call.func.value)
            if p and p.startswith("self."):
                for a in list(call.args) + [kw.value for kw in call.keywords]:
                    out |= names & _carried_names(a)
        return out

    # ---- the monitor
    def flow(self, fn, init):
        key = (fn.qual, tuple(init))
        if key in self._flow:
            return self._flow[key]
        cfg = fn.cfg()
        res = {"dropped": [], "returns": False, "takes": []}
        PARAM = -1

        def all_names(st):
            s = set()
            for (_i, nms) in st:
                s |= nms
            return s

        def clear(st, names):
            return frozenset(t for t in st if not (t[1] & names))

        def rebind(st, stored):
            return frozenset((i, nms - stored) if nms else (i, nms) for (i, nms) in st)

        def takes_in(e):
            return [x for x in own_nodes(e) if isinstance(x, ast.Call) and self.is_take(fn, x)]

        def handed_directly(n, take):
            """the taken element is an argument of a call that hands it over: self.send_request(next(self._servers))"""
            for c in node_calls(n, into_lambda=True):
                if not any(a is take for a in c.args):
                    continue
                tmp = copy.copy(c)
                tmp.args = [ast.Name(id="__taken__", ctx=ast.Load()) if a is take else a for a in c.args]
                if "__taken__" in self._passes(fn, tmp, {"__taken__"}):
                    return True
            return False

        def yields(v, take):
            if v is take:
                return True
            if isinstance(v, ast.IfExp):
                return yields(v.body, take) or yields(v.orelse, take)
            return False

        def stmt_effect(n, st):
            a = n.ast
            exprs = node_exprs(n)
            names = all_names(st)
            # 1. hand-overs of what is held
            gone = set()
            if names:
                for c in node_calls(n, into_lambda=True):
                    gone |= self._passes(fn, c, names)
                if isinstance(a, ast.Assign) and any(isinstance(t, (ast.Attribute, ast.Subscript)) and
                                                     (attr_path(t if isinstance(t, ast.Attribute) else t.value) or "").startswith("self.")
                                                     for t in a.targets):
                    gone |= names & _carried_names(a.value)
                if isinstance(a, ast.Return) and a.value is not None:
                    back = names & _carried_names(a.value)
                    if back:
                        res["returns"] = True
                        gone |= back
            if gone:
                st = clear(st, gone)
            # 2. (re)binding of plain names
            stored = {s for s in node_stores(n) if "." not in s and not s.endswith("[]")}
            if stored:
                alias = None
                if isinstance(a, ast.Assign) and len(a.targets) == 1 and isinstance(a.targets[0], ast.Name) \
                        and isinstance(a.value, ast.Name) and a.value.id in all_names(st) and a.value.id not in stored:
                    alias = a.value.id
                st = rebind(st, stored)
                if alias is not None:
                    st = frozenset((i, nms | stored) if alias in nms else (i, nms) for (i, nms) in st)
            # 3. elements taken here
            for e in exprs:
                for take in takes_in(e):
                    if (n.id, id(take)) not in seen_takes:
                        seen_takes.add((n.id, id(take)))
                        res["takes"].append((n, take))
                    walrus = [x for x in own_nodes(e) if isinstance(x, ast.NamedExpr) and x.value is take
                              and isinstance(x.target, ast.Name)]
                    if walrus:
                        st = st | {(n.id, frozenset([walrus[0].target.id]))}
                    elif handed_directly(n, take):
                        pass
                    elif isinstance(a, ast.Return) and a.value is not None and yields(a.value, take):
                        res["returns"] = True
                    elif isinstance(a, (ast.Assign, ast.AnnAssign)) and a.value is not None and yields(a.value, take):
                        tg = a.targets if isinstance(a, ast.Assign) else [a.target]
                        if all(isinstance(t, ast.Name) for t in tg):
                            st = st | {(n.id, frozenset(t.id for t in tg))}
                        elif all(isinstance(t, (ast.Attribute, ast.Subscript)) and
                                 (attr_path(t if isinstance(t, ast.Attribute) else t.value) or "").startswith("self.") for t in tg):
                            pass                # kept in an attribute of self
                        else:
                            st = st | {(n.id, frozenset())}
                    else:
                        st = st | {(n.id, frozenset())}      # taken and thrown away
            return st

        def subject(e):
            if isinstance(e, ast.Name):
                return e.id
            if isinstance(e, ast.NamedExpr) and isinstance(e.target, ast.Name):
                return e.target.id
            return None

        def absent_on(t, pol):
            """name that is established to hold no element (None / false) on the `pol` edge of test t"""
            s = subject(t)
            if s is not None:
                return s if pol == "F" else None
            if isinstance(t, ast.Compare) and len(t.ops) == 1:
                l, rr = t.left, t.comparators[0]
                if _is_none(l):
                    l, rr = rr, l
                if _is_none(rr) and subject(l) is not None:
                    if isinstance(t.ops[0], (ast.Is, ast.Eq)):
                        return subject(l) if pol == "T" else None
                    if isinstance(t.ops[0], (ast.IsNot, ast.NotEq)):
                        return subject(l) if pol == "F" else None
            return None

        seen_takes = set()

        def transfer(n, lab, nxt, st):
            if n.kind in ("entry", "exit", "raise") or lab == "exc":
                return st
            if n.kind == "iter":
                if lab != "iter":
                    return st
                tn = {x.id for x in ast.walk(n.ast.target) if isinstance(x, ast.Name)}
                st = rebind(st, tn)
                if self.is_attr(n.ast.iter):
                    if (n.id, id(n.ast.iter)) not in seen_takes:
                        seen_takes.add((n.id, id(n.ast.iter)))
                        res["takes"].append((n, n.ast.iter))
                    st = st | {(n.id, frozenset(tn) if isinstance(n.ast.target, ast.Name) else frozenset())}
                return st
            st = stmt_effect(n, st)
            if n.kind == "test" and isinstance(lab, tuple):
                nm = absent_on(n.ast, lab[0])
                if nm is not None:
                    st = clear(st, {nm})
            return st

        init_st = frozenset((PARAM, frozenset([p])) for p in init)
        visited, parent = explore(cfg, init_st, transfer)
        self.states += len(visited)
        seen = set()
        for (nid, st) in sorted(visited, key=lambda v: (v[0], sorted((i, sorted(nms)) for (i, nms) in v[1]))):
            if cfg.nodes[nid].kind != "exit":
                continue
            for (i, nms) in st:
                if i in seen:
                    continue
                seen.add(i)
                res["dropped"].append((cfg.nodes[i] if i >= 0 else None, nms, witness(cfg, parent, (nid, st))))
        self._flow[key] = res
        return res


def _iterator_given_up_only_when_exhausted(sf, fn, r):
    """In a method that takes servers off the iterator, the iterator attribute is overwritten (with None, or anything that
    does not carry the old iterator or the servers of get_servers_for_psi) only behind evidence that it is exhausted: the
    exceptional edge of a take (StopIteration), the `done` edge of a `for` over it, the edge on which a variable bound
    only by takes holds no element, or the edge on which the attribute itself is None / false."""
    cfg = fn.cfg()
    rd = C.reaching_defs(cfg)

    def gives_up(n):
        a = n.ast
        if n.kind != "stmt" or not isinstance(a, ast.Assign) or not any(sf.is_attr(t) for t in a.targets):
            return False
        if any(call_tail(c) == "get_servers_for_psi" for c in calls_feeding(fn, a.value)):
            return False
        return not any(sf.is_attr(x) for x in own_nodes(a.value, into_lambda=True))

    def takes_at(n):
        return [x for e in node_exprs(n) for x in own_nodes(e) if isinstance(x, ast.Call) and sf.is_take(fn, x)]

    def absent(t, pol):
        def subj(e):
            if isinstance(e, ast.NamedExpr):
                e = e.value if sf.is_attr(e.value) else e.target
            if isinstance(e, ast.Name) or sf.is_attr(e):
                return e
            return None
        if subj(t) is not None:
            return subj(t) if pol == "F" else None
        if isinstance(t, ast.Compare) and len(t.ops) == 1:
            l, rr = t.left, t.comparators[0]
            if _is_none(l):
                l, rr = rr, l
            if _is_none(rr) and subj(l) is not None:
                if isinstance(t.ops[0], (ast.Is, ast.Eq)):
                    return subj(l) if pol == "T" else None
                if isinstance(t.ops[0], (ast.IsNot, ast.NotEq)):
                    return subj(l) if pol == "F" else None
        return None

    def evidence(n, lab):
        if lab == "exc":
            # a node that calls nothing raises nothing a handler around a take is there for (the edge is an artefact of
            # the CFG's "anything in a try body may raise")
            return not node_calls(n) or (n.kind in ("stmt", "test") and bool(takes_at(n)))
        if n.kind == "iter":
            return lab == "done" and sf.is_attr(n.ast.iter)
        if n.kind == "test" and isinstance(lab, tuple):
            e = absent(n.ast, lab[0])
            if e is None:
                return False
            if sf.is_attr(e):
                return True
            if isinstance(n.ast, ast.NamedExpr) or any(isinstance(x, ast.NamedExpr) and isinstance(x.target, ast.Name)
                                                       and x.target.id == e.id for x in own_nodes(n.ast)):
                return bool(takes_at(n))
            defs = rd.get(n.id, {}).get(e.id)
            if not defs:
                return False
            for d in defs:
                if d < 0:
                    return False
                dn = cfg.nodes[d]
                a = dn.ast
                if not (dn.kind == "stmt" and isinstance(a, (ast.Assign, ast.AnnAssign)) and a.value is not None
                        and isinstance(a.value, ast.Call) and sf.is_take(fn, a.value)):
                    return False
            return True
        return False

    if not cfg.find(gives_up):
        return
    for (n, w) in find_path_avoiding(cfg, gives_up, gate_edge=evidence):
        r.violation(fn, fn.loc(n.ast), "%s gives up the finder's server iterator (%s) on a path that has not established that "
                    "it is exhausted (no StopIteration of the take, no end of a `for` over it, no take that came back empty): "
                    "%s - the servers that were still on it are never asked, so their shares are never found, and a file whose "
                    "encoding cannot spare them fails with NotEnoughSharesError although every share is in place"
                    % (short(fn), src(fn, n.ast)[:60], w.brief()), w)


def run_servers_asked(ctx, r):
    """A download finds its shares by asking the servers of the permuted list one after the other; a server that is taken
    off the list and not asked is never asked (the iterator does not go back), so its shares are lost to the download:
    with an encoding that cannot spare them the read fails with NotEnoughSharesError although every share is in place."""
    idx = ctx.idx
    sf = ServerFlow(idx)
    sf.check_uses()
    fn0, st0 = sf.attr_site
    r.site(fn0, st0, "the server iterator is %s" % ", ".join(sorted(sf.attrs)))
    n_takes = 0
    for fn in sf.fns:
        direct = [x for x in func_own_nodes(fn) if sf.direct_take(x) or (isinstance(x, (ast.For, ast.AsyncFor)) and sf.is_attr(x.iter))]
        calls = [x for x in func_own_nodes(fn) if isinstance(x, ast.Call) and not sf.direct_take(x) and sf.is_take(fn, x)]
        if not direct and not calls:
            continue
        res = sf.flow(fn, ())
        for x in direct:
            n_takes += 1
            r.site(fn, x, "a server is taken off the iterator")
        for (n, nms, w) in res["dropped"]:
            at = n.ast.iter if n.kind == "iter" else n.ast
            how = ("held in `%s`" % "`, `".join(sorted(nms))) if nms else "not kept in any variable"
            r.violation(fn, fn.loc(n.ast), "%s takes a server off the finder's server iterator (%s; %s) and can return without "
                        "asking it for its shares (no get_buckets query through send_request, not put back, not returned to "
                        "the caller) on the path %s: the iterator never yields that server again, so its shares are never "
                        "found, and a file whose encoding cannot spare them fails with NotEnoughSharesError although every "
                        "share is in place" % (short(fn), src(fn, at)[:70], how, w.brief()), w)
        _iterator_given_up_only_when_exhausted(sf, fn, r)
    r.count(sf.states)
    if not n_takes:
        raise AnchorVanished("no place in ShareFinder takes a server off %s" % ", ".join(sorted(sf.attrs)))


# ====================================================================== driver
# ------------------------------ C01.15.3, second opinion: (block, share number) pairs reordered together before zfec
def decode_pairs_kept_together(idx):
    """C36.3 demands that CRSDecoder.decode hands zfec the caller's two lists in the caller's order.  What the round trip
    needs is weaker: zfec must be given each block under its own share number.  True when that is proven for the shape
    `pairs = sorted(zip(<numbers>, <blocks>), ..)` / `list(zip(..))`, zfec given the two components of `pairs`
    (comprehensions without filter over the same definition of `pairs`), and every other return of decode returning
    the block component of `pairs` on paths on which the number component was found equal to list(range(k)) - the k
    primary blocks in share-number order, which is what zfec returns for them.  False = not proven (the verdict of
    C36.3 stands)."""
    import importlib
    c36 = importlib.import_module("sa.rules.C36")
    fn = idx.func(c36.DEC + ".decode")
    ps = first_positional_params(fn)
    if len(ps) != 2:
        return False
    sym = Sym(idx, fn)
    cfg, fnorm = sym.cfg, sym.fnorm
    rt = c36.the_route(idx, fn, "self.decoder.decode")
    c, zargs = rt.call, rt.zargs
    if len(zargs) != 2:
        return False
    n = node_of(fn, c)

    def udef(node, e):
        while isinstance(e, ast.Name):
            ds = sym.rd.get(node.id, {}).get(e.id)
            if not ds or len(ds) != 1 or C.PARAM_DEF in ds:
                break
            dn = cfg.nodes[next(iter(ds))]
            v = fnorm._def_value(dn, e.id)
            if v is None:
                break
            node, e = dn, v
        return node, e

    def component(node, e):
        """(name of the pair list, its reaching definitions, 0|1) for [x for (x, _) in P] / [p[i] for p in P]"""
        node, e = udef(node, e)
        if not (isinstance(e, ast.ListComp) and len(e.generators) == 1):
            return None
        g = e.generators[0]
        if g.ifs or g.is_async or not isinstance(g.iter, ast.Name):
            return None
        i = None
        if isinstance(g.target, ast.Tuple) and len(g.target.elts) == 2 and all(isinstance(t, ast.Name) for t in g.target.elts) \
                and isinstance(e.elt, ast.Name):
            names = [t.id for t in g.target.elts]
            if names[0] != names[1] and e.elt.id in names:
                i = names.index(e.elt.id)
        elif isinstance(g.target, ast.Name) and isinstance(e.elt, ast.Subscript) and isinstance(e.elt.value, ast.Name) \
                and e.elt.value.id == g.target.id and isinstance(e.elt.slice, ast.Constant) and e.elt.slice.value in (0, 1) \
                and type(e.elt.slice.value) is int:
            i = e.elt.slice.value
        defs = sym.rd.get(node.id, {}).get(g.iter.id)
        if i is None or not defs or len(defs) != 1 or C.PARAM_DEF in defs:
            return None
        return (g.iter.id, frozenset(defs), i)

    cb, ci_ = component(n, zargs[0]), component(n, zargs[1])
    if cb is None or ci_ is None or cb[:2] != ci_[:2] or cb[2] == ci_[2]:
        return False
    P, defs, bi = cb
    ii = ci_[2]
    dn = cfg.nodes[next(iter(defs))]
    v = fnorm._def_value(dn, P)
    if isinstance(v, ast.Call) and isinstance(v.func, ast.Name) and v.func.id in ("sorted", "list") and len(v.args) == 1 \
            and (v.func.id == "sorted" or not v.keywords):
        v = v.args[0]
    else:
        return False
    if not (isinstance(v, ast.Call) and isinstance(v.func, ast.Name) and v.func.id == "zip" and len(v.args) == 2 and not v.keywords):
        return False
    if not (c36.order_preserving(udef(dn, v.args[bi])[1], ps[0]) and c36.order_preserving(udef(dn, v.args[ii])[1], ps[1])):
        return False
    # nothing else touches the pair list
    for q in cfg.nodes:
        for x in node_exprs(q):
            for y in own_nodes(x, into_lambda=True):
                if isinstance(y, ast.Attribute) and isinstance(y.value, ast.Name) and y.value.id == P:
                    return False

    def primary_ids(node, e):
        """e is list(range(k)) - spelled out, or an attribute every store of which is list(range(<the k stored as
        self.required_shares by the same method>))."""
        node, e = udef(node, e)

        def range_of(x):
            if isinstance(x, ast.Call) and isinstance(x.func, ast.Name) and x.func.id == "list" and len(x.args) == 1 and not x.keywords:
                x = x.args[0]
                if isinstance(x, ast.Call) and isinstance(x.func, ast.Name) and x.func.id == "range" and len(x.args) == 1 and not x.keywords:
                    return x.args[0]
            return None
        k = range_of(e)
        if k is not None:
            return nf(sym.expand(node, k)) == "self.required_shares"
        path = attr_path(e)
        if not (path and path.startswith("self.") and path.count(".") == 1):
            return False
        attr = path.split(".")[1]
        cg = get_callgraph(idx)
        fam = {m.qual for c_ in fn.cls.mro() for m in c_.methods.values()}
        setters = set()
        for (f_, _tgt) in cg.attr_stores(attr):
            if f_.qual not in fam:
                return False
            sm = Sym(idx, f_)
            st = sm.attr_stores().get(path)
            kk = range_of(st[1]) if st is not None else None
            ks = sm.attr_stores().get("self.required_shares")
            if kk is None or ks is None or not isinstance(ks[1], ast.Name) or nf(sm.expand(st[0], kk)) != nf(sm.expand(ks[0], ks[1])) \
                    or nf(sm.expand(ks[0], ks[1])) not in f_.params:
                return False
            setters.add(f_.qual)
        if not setters:
            return False
        for (f_, _tgt) in cg.attr_stores("required_shares"):
            if f_.qual in fam and f_.qual not in setters:
                return False
        for cs in cg.calls_named("append") + cg.calls_named("extend") + cg.calls_named("pop") + cg.calls_named("remove") \
                + cg.calls_named("insert") + cg.calls_named("sort") + cg.calls_named("reverse") + cg.calls_named("clear"):
            if isinstance(cs.call.func, ast.Attribute) and isinstance(cs.call.func.value, ast.Attribute) \
                    and cs.call.func.value.attr == attr:
                return False
        return True

    def gate(q, lab):
        if q.kind != "test" or not isinstance(lab, tuple) or not isinstance(q.ast, ast.Compare) or len(q.ast.ops) != 1:
            return False
        if not ((isinstance(q.ast.ops[0], ast.Eq) and lab[0] == "T") or (isinstance(q.ast.ops[0], ast.NotEq) and lab[0] == "F")):
            return False
        a, b = q.ast.left, q.ast.comparators[0]
        for x, y in ((a, b), (b, a)):
            if component(q, x) == (P, defs, ii) and primary_ids(q, y):
                return True
        return False

    zcall = ast.dump(sym.expand(n, c))
    for t in cfg.find(is_return):
        if t.ast.value is None:
            return False
        v = sym.expand(t, t.ast.value)
        while isinstance(v, ast.Await):
            v = v.value
        if isinstance(v, ast.Call) and ast.dump(v) == zcall:
            continue
        if component(t, t.ast.value) != (P, defs, bi):
            return False
        if find_path_avoiding(cfg, lambda q, _t=t: q is _t, gate_edge=gate):
            return False
    return True



def run(ctx: Context):
    idx = ctx.idx
    with ctx.rule("C01.1", "R6", "encoder (_got_all_encoding_parameters + CRSEncoder.set_params) and downloader "
                  "(_calculate_sizes) size formulas have equal normal forms under the verify-cap symbol map",
                  expected=7) as r:
        run_formulas(ctx, r)

    with ctx.rule("C01.2", "R6", "the uploadable rounds the segment size up to a multiple of the k it announces; the "
                  "encoder takes k and the segment size from the same tuple positions", expected=2) as r:
        run_segsize(ctx, r)

    with ctx.rule("C01.3", "R5", "share header: WriteBucketProxy/_v2._create_offsets and the readers "
                  "Share._satisfy_offsets / ReadBucketProxy._parse_offsets agree on version, field code and width, "
                  "table start, header size and the order of the six offset names", expected=6) as r:
        run_layout_table(ctx, r)

    with ctx.rule("C01.4", "R5/R6", "share regions are contiguous: offsets[next] - offsets[this] equals the length the "
                  "put_* method of the region asserts; the encoder sends the regions in layout order", expected=7) as r:
        run_contiguity(ctx, r)

    with ctx.rule("C01.5", "R5", "UEB keys read by the downloader / verifier are written by the encoder, declared for the "
                  "size pre-computation, fit the pack_extension key grammar, and numeric ones are converted", expected=6) as r:
        run_ueb(ctx, r)

    with ctx.rule("C01.6", "R1/R6", "padding only for the tail segment with the tail codec, exactly one tail encoded last; "
                  "the downloader uses the padded-tail decoder, trims and shortens the block only for the tail; block "
                  "addresses agree with put_block", expected=6) as r:
        run_padtrim(ctx, r)

    with ctx.rule("C01.7", "R6", "AES-CTR: DecryptingConsumer splits the offset with one constant equal to the cipher block "
                  "size, consumes the residue before any write and decrypts every chunk once; the encryptor starts at "
                  "counter 0, is created once and advances for every chunk", expected=5) as r:
        run_ctr(ctx, r)
        run_encryptor(ctx, r)

    with ctx.rule("C01.8", "R1/R4", "response order DYHB answer vs UEB: once have_UEB is set every CommonShare is marked "
                  "authoritative - update_num_segments marks all registered ones in the turn the UEB is validated, and a "
                  "CommonShare created later is registered and marked at creation unless the count is still a guess",
                  expected=4) as r:
        run_authoritative(ctx, r)

    with ctx.rule("C01.9", "R1", "response order of read answers: in every _satisfy_* stage of Share._get_satisfaction the "
                  "edge on which a fetched span is absent reaches no consumer of that data and returns a false value; "
                  "no consumer sits inside the fetch loop", expected=8) as r:
        run_complete_before_submit(ctx, r)

    with ctx.rule("C01.10", "R1", "satisfaction rounds (run after every read answer, answers in any order): the unsatisfied "
                  "edge of every _satisfy_* stage ends the round before a later stage runs; a round reports progress only "
                  "after the head request was retired; a stage reports 'unsatisfied' only when a fetched piece was absent",
                  expected=8) as r:
        run_satisfaction_loop(ctx, r)

    with ctx.rule("C01.11", "R5", "when the UEB is parsed every size the downloader left unset or guessed is replaced: the five "
                  "results of _calculate_sizes are stored under their own names on every path, and every table that "
                  "_build_guessed_tables sizes with the guessed segment count is rebuilt with the authoritative one",
                  expected=7) as r:
        run_authoritative_tables(ctx, r)

    # C01.12.8: the hashes the cap commits to are computed for all N shares, whoever receives them (rule shared with C05)
    # C01.12.7: the data reads start at offset 0 - get_size() and everything else that moves the uploadable's file handle
    # before the first read() leaves it rewound, and read(length) reads sequentially (rule shared with C05; C01.14 is the
    # other half: nothing moves the handle again between the reads)
    ctx.include("C05", ["C05.8", "C05.7"], "C01.12")

    with ctx.rule("C01.13", "R2/R6", "Encoder._send_segment sends, for every share that has a bucket writer, the very (share, "
                  "block) pair it hashes, under the segment number of the round; send_block hands (segment number, block) to "
                  "the writer of that share on every path on which the share has one", expected=3) as r:
        run_sent_is_hashed(ctx, r)

    with ctx.rule("C01.14", "R2/R7", "the data reads of one upload are sequential: whatever EncryptAnUploadable.read_encrypted() "
                  "runs for every segment besides the uploadable's read() repositions the uploadable's file handle only behind "
                  "a once-only guard (a memo attribute tested absent, stored behind the test and never cleared)",
                  expected=3) as r:
        run_sequential_reads(ctx, r)

    # C01.15.3: CRSDecoder.decode returns what zfec made of the blocks and share numbers, handed over pairwise in the
    # caller's order (rule shared with C36): zfec, not the order of arrival, decides which piece of the segment is which
    ctx.include("C36", ["C36.3"], "C01.15")
    # C36.3 insists on the caller's order; for the round trip it is enough that every block goes to zfec under its own
    # share number.  Where C36.3 objects only to the order, a proof that the pairs are kept together replaces its verdict
    # (its two length preconditions stay as they are).
    for r_ in ctx.rules:
        if r_.id == "C01.15.3" and r_.violations:
            order_only = [v_ for v_ in r_.violations if "not passed in the caller's order" in v_.msg
                          or v_.msg.startswith("decode returns ")]
            if order_only and decode_pairs_kept_together(ctx.idx):
                r_.violations = [v_ for v_ in r_.violations if v_ not in order_only]

    with ctx.rule("C01.16", "R1/R6", "DownloadNode._decode_blocks returns nothing but the Deferred of codec.decode(blocks, "
                  "share numbers), and the first callback on it joins the decoded pieces in the order the codec returned "
                  "them and hands on (a slice of) that join", expected=2) as r:
        run_decoded_join(ctx, r)

    with ctx.rule("C01.17", "R1/R4", "every path from the public read() to the consumer runs through Segmentation: every normal "
                  "return of ImmutableFileNode.read, CiphertextFileNode.read and DownloadNode.read lies behind the hand-over "
                  "to the next stage (self._cnode.read / self._node.read / the start() of a Segmentation built in that call) or "
                  "behind the fact that the length of the read is 0; whole segments (get_segment) are requested only by "
                  "Segmentation, get_segsize and the forwarding wrapper", expected=4) as r:
        run_read_path(ctx, r)

    with ctx.rule("C01.18", "R1/R3", "every server that ShareFinder takes off its permuted-server iterator (next() on the "
                  "attribute that holds the servers of get_servers_for_psi, directly, in a `for`, or through a helper method "
                  "that returns the element) is, on every path to the normal exit of the method, asked for its shares (the "
                  "get_buckets query, reached through send_request), put back / kept in an attribute, or returned to the "
                  "caller; the edge on which the variable holds no element (None / false) is exempt", expected=2) as r:
        run_servers_asked(ctx, r)
