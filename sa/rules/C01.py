"""C01 Immutable upload/download round-trip.

The property itself (bytes in == bytes out for all sizes / k / N / orders) is
value-level.  Decided here: the structural necessary conditions of DESIGN.md
section 5, C01 (D1..D5) plus the layout-contiguity and block-addressing
conditions found while reading the code."""
import copy
import struct as _struct

from sa.h import *

EXPLANATION = (
    "Decided (structural necessary conditions): (1) the encoder and the downloader derive num_segments, tail "
    "size (with the 0 -> segment_size fix-up), padded tail, block size and tail block size by formulas with "
    "equal normal forms under the symbol map given by the verify cap built in Encoder.done and the UEB "
    "segment_size field; floor and ceiling quotients are identified only where the dividend is a proven multiple "
    "of k; (2) the uploadable rounds the segment size up to a multiple of k; (3) both share-header writers and "
    "both offset-table readers agree on version, field codes/widths, table start, header size and the order of "
    "the six offset names; (4) the regions laid out by _create_offsets are contiguous with the lengths the put_* "
    "methods assert, and the encoder sends them in layout order; (5) UEB keys read by the downloader are written "
    "by the encoder, fit the key grammar and integer keys are converted; (6) padding happens only for the tail "
    "segment with the tail codec, trimming only for the tail segment, and block addresses agree between "
    "put_block and _satisfy_data_block; (7) the AES-CTR counter is positioned with one constant equal to the "
    "cipher block size and the residue is consumed before any write; the encryptor starts at counter 0 and is "
    "created once.  Undecided: the arithmetic identities themselves (sum of block sizes == share size), zfec, "
    "AES, hash trees, server response orders.")
TECHNIQUE = ("static analysis: symbolic normal forms of size formulas compared under a symbol map, struct-format "
             "folding of the share header, CFG gate rules for pad/trim")

ENC = "immutable.encode:Encoder"
NODE = "immutable.downloader.node:DownloadNode"
SHARE = "immutable.downloader.share:Share"
WBP = "immutable.layout:WriteBucketProxy"
WBP2 = "immutable.layout:WriteBucketProxy_v2"
RBP = "immutable.layout:ReadBucketProxy"
DECR = "immutable.filenode:DecryptingConsumer"

FIXUP = "__fixup__"          # synthetic: __fixup__(a, b) == (a if a != 0 else b)


# ===================================================================== toolkit
def node_of(fn, target):
    """CFG node that evaluates the AST node `target` (identity)."""
    for n in fn.cfg().nodes:
        for e in node_exprs(n):
            for x in own_nodes(e, into_lambda=True):
                if x is target:
                    return n
    raise AnalysisError("no CFG node evaluates %s in %s" % (src(fn, target), fn.qual))


def dominated_by(cfg, gate, target):
    """Every path entry -> target leaves the node `gate` first."""
    return not find_path_avoiding(cfg, lambda n: n is target, gate_node=lambda n: n is gate)


def zero_test(f, s):
    """Is the canonical edge fact f 'expression s is zero'?"""
    if not f:
        return False
    op, l, r = f
    return (op == "false" and l == s) or (op == "==" and {l, r} == {s, "0"})


class Sym:
    """Symbolic value of an expression at a CFG node of one function: locals are
    replaced by their reaching definition (evaluated at the definition), the
    two-definition 'x = a; if x == 0: x = b' shape becomes __fixup__(a, b),
    `a or b` likewise, self attributes stored earlier in the same function are
    replaced by the stored value (when expand_attrs), calls of mathutil helpers
    are named by the bare helper name, zero-argument self methods returning a
    constant are folded.  The result is an AST over parameters, self attributes
    and opaque calls."""

    def __init__(self, idx, fn, expand_attrs=False, keep=()):
        self.idx = idx
        self.fn = fn
        self.cfg = fn.cfg()
        self.fnorm = FlowNorm(fn)
        self.rd = self.fnorm.rd
        self.expand_attrs = expand_attrs
        self.keep = set(keep)
        self._attr_stores = None

    # -- attribute stores self.X = E (unique in the function)
    def attr_stores(self):
        if self._attr_stores is None:
            seen = {}
            for n in self.cfg.nodes:
                if n.kind != "stmt" or not isinstance(n.ast, ast.Assign):
                    for p in node_stores(n):
                        if p.startswith("self.") and not p.endswith("[]"):
                            seen.setdefault(p, []).append((n, None))
                    continue
                for p in node_stores(n):
                    if p.startswith("self.") and not p.endswith("[]"):
                        seen.setdefault(p, []).append((n, assign_value(n, p)))
            self._attr_stores = {p: v[0] for p, v in seen.items() if len(v) == 1 and v[0][1] is not None}
        return self._attr_stores

    def _fixup_parts(self, node, name, defs):
        """(d1 value node, E1, d2 node, E2) when the two reaching definitions form
        x = E1 ; if <x is zero>: x = E2."""
        if len(defs) != 2 or C.PARAM_DEF in defs:
            return None
        a, b = [self.cfg.nodes[d] for d in defs]
        for d1, d2 in ((a, b), (b, a)):
            v1, v2 = self.fnorm._def_value(d1, name), self.fnorm._def_value(d2, name)
            if v1 is None or v2 is None:
                continue
            preds = self.cfg.pred[d2.id]
            if len(preds) != 1:
                continue
            pid, lab = preds[0]
            p = self.cfg.nodes[pid]
            if p.kind != "test" or self.rd.get(p.id, {}).get(name) != frozenset([d1.id]):
                continue
            t = p.ast
            while isinstance(t, ast.UnaryOp) and isinstance(t.op, ast.Not):
                t = t.operand
            if isinstance(t, ast.Compare):
                sides = [t.left] + list(t.comparators)
                if not any(isinstance(s, ast.Name) and s.id == name for s in sides):
                    continue
            elif not (isinstance(t, ast.Name) and t.id == name):
                continue
            s = self.fnorm.norm(p, ast.Name(id=name, ctx=ast.Load()))
            if zero_test(self.fnorm.edge_fact(p, lab), s):
                return d1, v1, d2, v2
        return None

    def expand(self, node, expr, depth=10):
        if depth <= 0:
            return copy.deepcopy(expr)
        sym = self

        class T(ast.NodeTransformer):
            def visit_Name(self, e):
                if not isinstance(e.ctx, ast.Load):
                    return e
                defs = sym.rd.get(node.id, {}).get(e.id)
                if not defs:
                    return e
                if len(defs) == 1:
                    (d,) = tuple(defs)
                    if d == C.PARAM_DEF:
                        return e
                    dn = sym.cfg.nodes[d]
                    v = sym.fnorm._def_value(dn, e.id)
                    if v is None or isinstance(v, (ast.Dict, ast.List, ast.Set, ast.ListComp, ast.DictComp, ast.SetComp)):
                        return e
                    return sym.expand(dn, v, depth - 1)
                fx = sym._fixup_parts(node, e.id, defs)
                if fx is not None:
                    d1, v1, d2, v2 = fx
                    return ast.Call(func=ast.Name(id=FIXUP, ctx=ast.Load()),
                                    args=[sym.expand(d1, v1, depth - 1), sym.expand(d2, v2, depth - 1)], keywords=[])
                return e

            def visit_Attribute(self, e):
                p = attr_path(e)
                if sym.expand_attrs and p and p.startswith("self.") and p not in sym.keep:
                    st = sym.attr_stores().get(p)
                    if st is not None and st[0] is not node and dominated_by(sym.cfg, st[0], node):
                        return sym.expand(st[0], st[1], depth - 1)
                return self.generic_visit(e)

            def visit_BoolOp(self, e):
                e = self.generic_visit(e)
                if isinstance(e.op, ast.Or) and len(e.values) == 2:
                    return ast.Call(func=ast.Name(id=FIXUP, ctx=ast.Load()), args=list(e.values), keywords=[])
                return e

            def visit_Call(self, e):
                e = self.generic_visit(e)
                f = e.func
                if isinstance(f, (ast.Name, ast.Attribute)):
                    r = None
                    try:
                        r = sym.idx.resolve_expr(sym.fn.module, f)
                    except Exception:
                        r = None
                    tail = f.attr if isinstance(f, ast.Attribute) else f.id
                    full = attr_path(f) or ""
                    target = sym.fn.module.imports.get(full.split(".")[0], "")
                    if tail in ("div_ceil", "next_multiple", "pad_size", "next_power_of_k") and (
                            target.startswith("allmydata.util.mathutil") or target.startswith("pyutil.mathutil")
                            or isinstance(r, FuncInfo)):
                        e.func = ast.Name(id=tail, ctx=ast.Load())
                    elif full.startswith("self.") and full.count(".") == 1 and not e.args and not e.keywords \
                            and sym.fn.cls is not None:
                        m = sym.fn.cls.lookup(tail)
                        if m is not None:
                            body = [s for s in m.body if not (isinstance(s, ast.Expr) and isinstance(s.value, ast.Constant))]
                            if len(body) == 1 and isinstance(body[0], ast.Return) and isinstance(body[0].value, ast.Constant):
                                return ast.Constant(value=body[0].value.value)
                return e
        return T().visit(copy.deepcopy(expr))


def subst_names(expr, mapping):
    """Replace parameter names by ASTs (inter-procedural composition)."""
    class T(ast.NodeTransformer):
        def visit_Name(self, e):
            if e.id in mapping:
                return copy.deepcopy(mapping[e.id])
            return e
    return T().visit(copy.deepcopy(expr))


def nf(expr, rename=None):
    return Normaliser(Env(None, rename=rename, depth=0)).norm(expr)


def quotient(expr, rename=None):
    """('ceil'|'floor', dividend nf, divisor nf, dividend ast) for div_ceil(a, b) / a // b."""
    if isinstance(expr, ast.Call) and isinstance(expr.func, ast.Name) and expr.func.id == "div_ceil" and len(expr.args) == 2:
        return ("ceil", nf(expr.args[0], rename), nf(expr.args[1], rename), expr.args[0])
    if isinstance(expr, ast.BinOp) and isinstance(expr.op, ast.FloorDiv):
        return ("floor", nf(expr.left, rename), nf(expr.right, rename), expr.left)
    return None


def is_multiple_call(expr, k_nf, rename):
    return isinstance(expr, ast.Call) and isinstance(expr.func, ast.Name) and expr.func.id == "next_multiple" \
        and len(expr.args) == 2 and nf(expr.args[1], rename) == k_nf


def bind_call_args(callee, call):
    """parameter name -> argument AST for a call of `callee` (positional + keyword)."""
    ps = first_positional_params(callee)
    out = {}
    for i, a in enumerate(call.args):
        if isinstance(a, ast.Starred) or i >= len(ps):
            raise AnalysisError("cannot bind arguments of %s" % ast.unparse(call))
        out[ps[i]] = a
    for kw in call.keywords:
        if kw.arg is None:
            raise AnalysisError("cannot bind **kwargs of %s" % ast.unparse(call))
        out[kw.arg] = kw.value
    return out


def the_call(fn, tail, pred=None, what=None):
    cs = [c for c in calls_in_func(fn, tail) if pred is None or pred(c)]
    if len(cs) != 1:
        raise AnchorVanished("%s: expected exactly one call of %s%s, found %d" % (
            short(fn), tail, (" " + what) if what else "", len(cs)))
    return cs[0]


def attr_store_value(sym, path):
    st = sym.attr_stores().get(path)
    if st is None:
        raise AnchorVanished("%s no longer stores %s exactly once" % (short(sym.fn), path))
    return st


def codec_share_size(idx, clsname):
    """share_size of codec.<clsname>.set_params as an AST over its parameters."""
    fn = idx.func("codec:%s.set_params" % clsname)
    s = Sym(idx, fn, expand_attrs=True)
    n, v = attr_store_value(s, "self.share_size")
    return fn, n, s.expand(n, v)


# ============================================================== rule bodies
def writer_symbols(idx, r=None):
    """Symbol map writer attribute -> canonical symbol, derived from the verify cap
    built by Encoder.done: CHKFileVerifierURI(.., needed_shares, total_shares, size)."""
    done = idx.func(ENC + ".done")
    call = the_call(done, "CHKFileVerifierURI")
    init = idx.func("uri:CHKFileVerifierURI.__init__")
    bound = bind_call_args(init, call)
    # __init__ must store each parameter under its own name (the reader uses self._verifycap.<name>)
    s = Sym(idx, init, expand_attrs=False)
    want = {"needed_shares": "K", "total_shares": "N", "size": "SIZE"}
    out = {}
    for pname, symb in want.items():
        st = s.attr_stores().get("self." + pname)
        ok = st is not None and isinstance(st[1], ast.Name) and st[1].id == pname
        if r is not None:
            r.require(ok, init, init.loc(st[0].ast if st else None),
                      "CHKFileVerifierURI.__init__ does not store parameter %s as self.%s" % (pname, pname))
        a = bound.get(pname)
        p = attr_path(a) if a is not None else None
        if p is None or not p.startswith("self."):
            raise AnchorVanished("Encoder.done: verify cap field %s is not built from an Encoder attribute" % pname)
        out[p] = symb
    return out, done, call


def run_formulas(ctx, r):
    idx = ctx.idx
    wmap, done, capcall = writer_symbols(idx, r)
    r.site(done, capcall, "symbol map " + ", ".join("%s=%s" % (v, k) for k, v in sorted(wmap.items(), key=lambda x: x[1])))
    inv = {v: k for k, v in wmap.items()}
    w = idx.func(ENC + "._got_all_encoding_parameters")
    ws = Sym(idx, w, expand_attrs=False)
    # SEG on the writer: the value stored under UEB key 'segment_size'
    seg_attr = None
    ueb_alias = {"self.uri_extension_data"}
    for n in w.cfg().nodes:
        if n.kind == "stmt" and isinstance(n.ast, ast.Assign) and attr_path(n.ast.value) == "self.uri_extension_data":
            ueb_alias.update(t.id for t in n.ast.targets if isinstance(t, ast.Name))
    for n in w.cfg().nodes:
        if n.kind == "stmt" and isinstance(n.ast, ast.Assign):
            for t in n.ast.targets:
                if isinstance(t, ast.Subscript) and attr_path(t.value) in ueb_alias \
                        and isinstance(t.slice, ast.Constant) and t.slice.value == "segment_size":
                    seg_attr = attr_path(n.ast.value)
    if not seg_attr or not seg_attr.startswith("self."):
        raise AnchorVanished("Encoder._got_all_encoding_parameters no longer stores UEB['segment_size'] from an attribute")
    wmap = dict(wmap)
    wmap[seg_attr] = "SEG"
    K_attr, SIZE_attr = inv["K"], inv["SIZE"]

    # ---- reader
    rd = idx.func(NODE + "._calculate_sizes")
    rs = Sym(idx, rd, expand_attrs=False)
    rp = first_positional_params(rd)
    if len(rp) != 1:
        raise AnchorVanished("_calculate_sizes signature changed")
    rmap = {"self._verifycap.size": "SIZE", "self._verifycap.needed_shares": "K",
            "self._verifycap.total_shares": "N", rp[0]: "SEG"}
    # the reader's SEG argument is the UEB field 'segment_size'
    p = idx.func(NODE + "._parse_and_store_UEB")
    ps = Sym(idx, p, expand_attrs=True)
    ccall = the_call(p, "_calculate_sizes")
    cn = node_of(p, ccall)
    a0 = ps.expand(cn, arg(ccall, 0, rp[0]))
    ok = isinstance(a0, ast.Subscript) and isinstance(a0.slice, ast.Constant) and a0.slice.value == "segment_size" \
        and isinstance(a0.value, ast.Call) and call_tail(a0.value) == "unpack_extension"
    r.site(p, ccall, "reader SEG = UEB['segment_size']")
    r.require(ok, p, p.loc(ccall), "_calculate_sizes is given %s, not the segment_size field of the unpacked UEB" % src(p, a0))
    # results of _calculate_sizes are stored under their own names
    res_names = [x.id for t in (n.ast.targets[0] for n in p.cfg().nodes if n.kind == "stmt" and isinstance(n.ast, ast.Assign)
                                and n.ast.value is ccall) for x in [t] if isinstance(x, ast.Name)]
    for n in p.cfg().nodes:
        if n.kind == "stmt" and isinstance(n.ast, ast.Assign) and isinstance(n.ast.value, ast.Subscript) \
                and isinstance(n.ast.value.value, ast.Name) and n.ast.value.value.id in res_names \
                and isinstance(n.ast.value.slice, ast.Constant):
            for t in n.ast.targets:
                tp = attr_path(t)
                if tp and tp.startswith("self."):
                    r.require(tp == "self." + n.ast.value.slice.value, p, p.loc(n.ast),
                              "%s is set from the %r entry of _calculate_sizes" % (tp, n.ast.value.slice.value))

    rets = rd.cfg().find(is_return)
    if len(rets) != 1 or not isinstance(rets[0].ast.value, ast.Dict):
        raise AnchorVanished("_calculate_sizes no longer returns one dict literal")
    rnode = rets[0]
    rvals = {}
    for k_, v_ in zip(rnode.ast.value.keys, rnode.ast.value.values):
        if isinstance(k_, ast.Constant):
            rvals[k_.value] = rs.expand(rnode, v_)
    for need in ("tail_segment_size", "tail_segment_padded", "num_segments", "block_size", "tail_block_size"):
        if need not in rvals:
            raise AnchorVanished("_calculate_sizes no longer returns %r" % need)

    # ---- writer values
    n_ns, v_ns = attr_store_value(ws, "self.num_segments")
    w_numseg = ws.expand(n_ns, v_ns)
    enc_fn, enc_n, enc_share = codec_share_size(idx, "CRSEncoder")
    enc_params = first_positional_params(enc_fn)

    def codec_block(attr):
        c = the_call(w, "set_params", lambda c: attr_path(c.func.value) == attr, "on " + attr)
        n = node_of(w, c)
        bound = {k_: ws.expand(n, v_) for k_, v_ in bind_call_args(enc_fn, c).items()}
        for must, symb in ((enc_params[1], "K"), (enc_params[2], "N")):
            r.require(nf(bound.get(must), wmap) == symb, w, w.loc(c),
                      "%s.set_params %s is %s, not the %s of the verify cap" % (attr, must, src(w, bound.get(must)), symb))
        return c, bound[enc_params[0]], subst_names(enc_share, bound)
    c_main, w_seg_arg, w_block = codec_block("self._codec")
    c_tail, w_padded, w_tailblock = codec_block("self._tail_codec")

    def agree(name, wexpr, rexpr, wfn, wnode):
        a, b = nf(wexpr, wmap), nf(rexpr, rmap)
        r.site(rd, rnode.ast, "%s: writer %s | reader %s" % (name, a, b))
        r.count(1)
        if a == b:
            return True
        qa, qb = quotient(wexpr, wmap), quotient(rexpr, rmap)
        if qa and qb and qa[1] == qb[1] and qa[2] == qb[2] == "K":
            # floor == ceiling only for an exact multiple of k: SEG (rounded by the uploadable, rule C01.2)
            # or a next_multiple(.., k) value
            if qa[1] == "SEG" or (is_multiple_call(qa[3], "K", wmap) and is_multiple_call(qb[3], "K", rmap)):
                return True
        r.violation(rd, rd.loc(rnode.ast), "%s: the encoder computes %s (%s) but the downloader computes %s" % (
            name, a, wfn.loc(wnode), b))
        return False

    agree("num_segments", w_numseg, rvals["num_segments"], w, n_ns.ast)
    agree("padded tail size", w_padded, rvals["tail_segment_padded"], w, c_tail)
    # unpadded tail size: the first argument of the writer's next_multiple
    if isinstance(w_padded, ast.Call) and isinstance(w_padded.func, ast.Name) and w_padded.func.id == "next_multiple" \
            and len(w_padded.args) == 2:
        agree("tail segment size", w_padded.args[0], rvals["tail_segment_size"], w, c_tail)
        r.require(nf(w_padded.args[1], wmap) == "K", w, w.loc(c_tail), "the tail is padded to a multiple of %s, not of k"
                  % nf(w_padded.args[1], wmap))
    else:
        r.site(w, c_tail, "tail size")
        r.violation(w, w.loc(c_tail), "the tail codec is sized with %s, not next_multiple(tail, k)" % nf(w_padded, wmap))
    r.require(nf(w_seg_arg, wmap) == "SEG", w, w.loc(c_main), "the segment codec is sized with %s, not the UEB segment_size"
              % nf(w_seg_arg, wmap))
    agree("block size", w_block, rvals["block_size"], w, c_main)
    agree("tail block size", w_tailblock, rvals["tail_block_size"], w, c_tail)
    # UEB num_segments/size are the same attributes
    return wmap, rmap


def run(ctx: Context):
    idx = ctx.idx
    with ctx.rule("C01.1", "R6", "encoder (_got_all_encoding_parameters + CRSEncoder.set_params) and downloader "
                  "(_calculate_sizes) size formulas have equal normal forms under the verify-cap symbol map",
                  expected=7) as r:
        run_formulas(ctx, r)
