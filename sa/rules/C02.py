"""C02 Immutable downloads never return wrong bytes.

Decided: trust-root provenance and the validation gates on the only path by
which bytes reach a consumer (DESIGN.md section 5, C02)."""
from sa.h import *

EXPLANATION = (
    "Decided (structural, all paths): (1) the UEB is parsed only after its hash was compared equal to the "
    "verify cap's uri_extension_hash; (2) hash-tree roots are seeded only from that validated UEB "
    "(who-may-call / who-may-write), and ARE seeded at index 0 on every normal path (UEB roots in the parser, the block-hash "
    "root in set_block_hash_root, which need_block_hash_root requests exactly while index 0 is missing); (3) Share._get_satisfaction reaches _satisfy_data_block only after the "
    "offset-table, UEB, share-hash, block-hash-root, block-hash and ciphertext-hash stages; (4) the COMPLETE "
    "notification is dominated by check_block on the same block inside a try whose hash-error handler does "
    "not notify COMPLETE; (5) check_block hashes its own parameter; (6) the ciphertext-hash check is "
    "registered on the decode Deferred before delivery and hashes the segment it returns; (7) the fetcher "
    "stores a block only under state COMPLETE and decodes only with >= k validated blocks; (9) offset-table "
    "sanity raises precede acceptance; (10) Segmentation writes only slices of delivered segments, starting at the "
    "wanted offset; (11) the segment is sliced only on paths that established overlap start == wanted offset (or segment "
    "start <= wanted offset), and the wanted offset / remaining size move by exactly len(bytes written) on every path "
    "through the write; (8) the hash-tree rules of C35 (journaled stores, rollback, conflict checks, propagation to the "
    "root over every level) as rules C02.8.*, decided on the journal view of set_hashes (helper methods inlined, an overlay-and-commit "
    "set_hashes rewritten into journal-and-rollback after deciding that nothing able to reject follows the commit; a known node - the "
    "root included - whose offered value differs is rejected on every path); (12) what turns the validated ciphertext into the bytes the reader sees: the AES-CTR "
    "context DecryptingConsumer.write uses can only be the one keyed in that consumer's own constructor from (readkey, offset of "
    "this read) - every store of it, on every path, nobody else stores it - and ImmutableFileNode.read builds the consumer in the "
    "call with the offset it reads the ciphertext from; (13) a read() hands its consumer to exactly one byte source: no stage of "
    "ImmutableFileNode.read / CiphertextFileNode.read / DownloadNode.read hands the read on twice on a path, code of these "
    "functions that runs on a later turn (a retry errback) hands the consumer to nobody, no stage writes to the consumer itself, "
    "and a Segmentation's position is set from its arguments and moved only by _got_segment - so what was delivered before an "
    "error is a prefix of the range. "
    "Undecided: hash collision resistance (this also covers hash trees of the wrong shape, i.e. set_authoritative_num_segments / "
    "the re-sized ciphertext tree: the leaf and pair hashes carry different tags), zfec algebra, Python slice arithmetic, the "
    "values of the offset table and block positions (a wrong position is a wrong block, which the hash checks reject), and all "
    "liveness / retry / status bookkeeping of the fetcher.")

NODE = "immutable.downloader.node:DownloadNode"
SHARE = "immutable.downloader.share:Share"
CSHARE = "immutable.downloader.share:CommonShare"
FETCH = "immutable.downloader.fetcher:SegmentFetcher"


def run(ctx: Context):
    idx = ctx.idx

    # -- 1. UEB hash gate --------------------------------------------------
    with ctx.rule("C02.1", "R1", "validate_and_store_UEB: _parse_and_store_UEB(UEB) only with "
                  "uri_extension_hash(UEB) == verifycap.uri_extension_hash", expected=1) as r:
        fn = idx.func(NODE + ".validate_and_store_UEB")
        param = first_positional_params(fn)[0]
        fnorm = FlowNorm(fn)
        hashed = re.compile(r"^(\w+\.)*uri_extension_hash\(%s\)$" % re.escape(param))

        def gate(n, lab):
            f = fnorm.edge_fact(n, lab)
            if not f:
                return False
            op, l, rr = f
            if op != "==":
                return False
            sides = [l, rr]
            return any(hashed.match(s) for s in sides) and any(
                s.endswith("_verifycap.uri_extension_hash") for s in sides)
        cfg = fn.cfg()
        targets = has_call("_parse_and_store_UEB")
        for n in cfg.find(targets):
            r.site(fn, n.ast)
            c = calls_at(n, "_parse_and_store_UEB")[0]
            a0 = arg(c, 0)
            r.require(isinstance(a0, ast.Name) and a0.id == param, fn, fn.loc(c),
                      "_parse_and_store_UEB is given %s, not the validated parameter %s" % (src(fn, a0), param))
        bad = find_path_avoiding(cfg, targets, gate_edge=gate, kill=stores(param))
        r.count(len(cfg.nodes))
        for (n, w) in bad:
            r.violation(fn, fn.loc(n.ast), "UEB is parsed on a path that never compared its hash with the "
                        "verify cap (path: %s)" % w.brief(), w)
        # have_UEB = True only after the parse
        hv = stores("self.have_UEB")
        for n in cfg.find(hv):
            r.site(fn, n.ast, "have_UEB store")
        for (n, w) in find_path_avoiding(cfg, hv, gate_node=targets):
            r.violation(fn, fn.loc(n.ast), "have_UEB is set without parsing a validated UEB", w)

    # -- 2. who may call the parser / seed roots ---------------------------
    with ctx.rule("C02.2", "R4", "_parse_and_store_UEB is called only from validate_and_store_UEB; hash-tree "
                  "roots (set_hashes({0: ..})) are seeded only from the validated UEB / validated share-hash leaf",
                  expected=4) as r:
        bad, badrefs, total = callers_outside(idx, "_parse_and_store_UEB", [NODE + ".validate_and_store_UEB"])
        r.site("callers of _parse_and_store_UEB: %d" % total)
        if total < 1:
            raise AnalysisError("no caller of _parse_and_store_UEB found")
        for cs in bad:
            r.violation(cs.fn, cs.loc, "unvalidated UEB path: %s calls _parse_and_store_UEB" % short(cs.fn))
        for (f, nd) in badrefs:
            r.violation(f, f.loc(nd), "%s takes _parse_and_store_UEB as a value" % short(f))
        # root seeding sites inside immutable/downloader
        allowed_roots = {
            "allmydata." + NODE + "._parse_and_store_UEB": "UEB fields of the validated UEB",
            "allmydata." + CSHARE + ".set_block_hash_root": "leaf of the validated share hash tree",
        }
        cg = get_callgraph(idx)
        for cs in cg.calls_named("set_hashes"):
            if not cs.fn.module.name.startswith("allmydata.immutable.downloader"):
                continue
            a0 = arg(cs.call, 0, "hashes")
            keys = dict_literal_keys(a0) if a0 is not None else None
            if keys is None or 0 not in keys:
                continue
            r.site(cs.fn, cs.call, "root seed")
            if cs.fn.qual not in allowed_roots:
                r.violation(cs.fn, cs.loc, "hash-tree root seeded outside the validated-UEB path: %s" % src(cs.fn, cs.call))
        # the seeded values come from the unpacked UEB dict
        p = idx.func(NODE + "._parse_and_store_UEB")
        uparam = first_positional_params(p)[0]
        for c in calls_in_func(p, "set_hashes"):
            a0 = arg(c, 0, "hashes")
            if isinstance(a0, ast.Dict):
                for k, v in zip(a0.keys, a0.values):
                    dep = depends_on(p, v)
                    ok = uparam in dep and contains_call_in_closure(p, v, "unpack_extension")
                    recv = attr_path(c.func.value) or ""
                    want = {"self.ciphertext_hash_tree": "crypttext_root_hash",
                            "self.share_hash_tree": "share_root_hash"}.get(recv)
                    field = v.slice.value if isinstance(v, ast.Subscript) and isinstance(v.slice, ast.Constant) else None
                    r.require(ok and want is not None and field == want, p, p.loc(c),
                              "root of %s is seeded with %s (expected UEB field %r of the validated UEB)" % (
                                  recv, src(p, v), want))
        # both trust roots ARE seeded (at index 0) on every normal path through the parser: an unseeded tree
        # derives its own root from the data it is given and accepts anything
        pcfg = p.cfg()
        for recv in ("self.ciphertext_hash_tree", "self.share_hash_tree"):
            def seeds(n, _recv=recv):
                for c in calls_at(n, "set_hashes"):
                    a0 = arg(c, 0, "hashes")
                    if attr_path(c.func.value) == _recv and dict_literal_keys(a0) == [0]:
                        return True
                return False
            r.site(p, None, "root of %s seeded on all paths" % recv)
            for (t, w) in find_path_avoiding(pcfg, lambda n: n.kind == "exit", gate_node=seeds,
                                             kill=stores(recv) if recv == "self.share_hash_tree" else None):
                r.violation(p, p.loc(), "the validated UEB can be accepted without seeding the root of %s at index 0: the tree "
                            "would then accept any hash chain (path: %s)" % (recv, w.brief()), w)
            # a re-bound tree object must be seeded after the re-binding
            for (t, w) in find_path_avoiding(pcfg, lambda n: n.kind == "exit", gate_node=seeds, kill=stores(recv)):
                r.violation(p, p.loc(), "%s is re-bound after its root was seeded" % recv, w)
        # set_block_hash_root argument at its call site is share_hash_tree.get_leaf(self._shnum)
        g = idx.func(SHARE + "._get_satisfaction")
        gnorm = FlowNorm(g)
        for n in g.cfg().find(has_call("set_block_hash_root")):
            c = calls_at(n, "set_block_hash_root")[0]
            val = gnorm.norm(n, arg(c, 0))
            r.site(g, c, "block-hash root source")
            r.require(val == "self._node.share_hash_tree.get_leaf(self._shnum)", g, g.loc(c),
                      "block hash root comes from %s, not from the validated share hash tree leaf of this share" % val)
        # set_block_hash_root DOES seed index 0 of the share's block hash tree with its parameter on every normal
        # path (an unseeded tree derives its own root from the hashes it is given and accepts any block), and
        # need_block_hash_root is true exactly while that root is missing
        sb = idx.func(CSHARE + ".set_block_hash_root")
        rparam = first_positional_params(sb)[0]

        def seeds_block_root(n):
            for c in calls_at(n, "set_hashes"):
                a0 = arg(c, 0, "hashes")
                if call_name(c) == "self._block_hash_tree.set_hashes" and isinstance(a0, ast.Dict) \
                        and dict_literal_keys(a0) == [0] and isinstance(a0.values[0], ast.Name) \
                        and a0.values[0].id == rparam:
                    return True
            return False
        r.site(sb, None, "block-hash root seeded on all paths")
        for (t, w) in find_path_avoiding(sb.cfg(), lambda n: n.kind == "exit", gate_node=seeds_block_root,
                                         kill=lambda n: bool({rparam, "self._block_hash_tree"} & node_stores(n))):
            r.violation(sb, sb.loc(), "set_block_hash_root can return without seeding index 0 of self._block_hash_tree with "
                        "%s: the block hash tree would then accept any block (path: %s)" % (rparam, w.brief()), w)
        nb = idx.func(CSHARE + ".need_block_hash_root")
        nrets = nb.cfg().find(is_return)
        r.site(nb, None, "need_block_hash_root")
        if not nrets:
            raise AnchorVanished("need_block_hash_root has no return")
        nnorm = FlowNorm(nb)
        for n in nrets:
            v = nnorm.resolve(n, n.ast.value) if n.ast.value is not None else None
            while isinstance(v, ast.Call) and call_name(v) == "bool" and len(v.args) == 1:
                v = v.args[0]
            f = N(nb).cmp(v, True) if v is not None else None
            ok = bool(f) and ((f[0] == "false" and f[1] == "self._block_hash_tree[0]") or
                              (f[0] in ("is", "==") and {f[1], f[2]} == {"self._block_hash_tree[0]", "None"}))
            r.require(ok, nb, nb.loc(n.ast), "need_block_hash_root returns %s, which is not 'index 0 of self._block_hash_tree is "
                      "missing': the root would not be seeded before blocks are checked" % (src(nb, n.ast.value) if n.ast.value is not None else None))
        # who may call set_block_hash_root
        bad, badrefs, total = callers_outside(idx, "set_block_hash_root", [SHARE + "._get_satisfaction"])
        for cs in bad:
            r.violation(cs.fn, cs.loc, "%s calls set_block_hash_root" % short(cs.fn))
        # tree objects are (re)bound only in these functions
        for attr, allowed in (("share_hash_tree", {NODE + ".__init__"}),
                              ("ciphertext_hash_tree", {NODE + "._build_guessed_tables", NODE + "._parse_and_store_UEB"}),
                              ("_block_hash_tree", {CSHARE + ".__init__", CSHARE + ".set_authoritative_num_segments"})):
            for (f, nd) in cg.attr_stores(attr):
                if not f.module.name.startswith("allmydata.immutable.downloader"):
                    continue
                r.site(f, nd, "tree binding")
                if f.qual not in {"allmydata." + a for a in allowed}:
                    r.violation(f, f.loc(nd), "%s re-binds %s" % (short(f), attr))

    # -- 3. staged satisfaction --------------------------------------------
    with ctx.rule("C02.3", "R1", "_get_satisfaction: _satisfy_data_block only after offsets, UEB, share hashes, "
                  "block-hash root, block hashes and ciphertext hashes are each satisfied", expected=6) as r:
        fn = idx.func(SHARE + "._get_satisfaction")
        cfg = fn.cfg()
        fnorm = FlowNorm(fn)
        target = has_call("_satisfy_data_block")
        if not cfg.find(target):
            raise AnchorVanished("no call of _satisfy_data_block in _get_satisfaction")

        def stage(name, already, satisfier):
            """already(op,l,r) -> fact meaning 'nothing to do'; satisfier: regex of a call whose truth is required."""
            sat = re.compile(satisfier)

            def gate(n, lab):
                f = fnorm.edge_fact(n, lab)
                if not f:
                    return False
                op, l, rr = f
                if already(op, l, rr):
                    return True
                return op == "truth" and bool(sat.match(l))
            bad = find_path_avoiding(cfg, target, gate_edge=gate)
            r.site(fn, None, "stage " + name)
            r.count(len(cfg.nodes))
            for (n, w) in bad:
                r.violation(fn, fn.loc(n.ast), "data block can be accepted without the %s stage (path: %s)" % (
                    name, w.brief()), w)

        stage("offset-table", lambda op, l, rr: op == "is not" and {l, rr} == {"None", "self.actual_offsets"},
              r"^self\._satisfy_offsets\(\)$")
        stage("UEB", lambda op, l, rr: op == "truth" and l == "self._node.have_UEB",
              r"^self\._satisfy_UEB\(\)$")
        stage("share-hash-chain",
              lambda op, l, rr: op == "false" and l == "self._node.share_hash_tree.needed_hashes(self._shnum)",
              r"^self\._satisfy_share_hash_tree\(\)$")
        stage("block-hash-chain",
              lambda op, l, rr: op == "false" and re.match(r"^self\._commonshare\.get_needed_block_hashes\(.+\)$", l) is not None,
              r"^self\._satisfy_block_hash_tree\(self\._commonshare\.get_needed_block_hashes\(.+\)\)$")
        stage("ciphertext-hash-chain",
              lambda op, l, rr: op == "false" and re.match(r"^self\._node\.get_needed_ciphertext_hashes\(.+\)$", l) is not None,
              r"^self\._satisfy_ciphertext_hash_tree\(self\._node\.get_needed_ciphertext_hashes\(.+\)\)$")
        # block-hash root: either not needed, or set on this pass
        fr = lambda n, lab: (fnorm.edge_fact(n, lab) == ("false", "self._commonshare.need_block_hash_root()", None))
        bad = find_path_avoiding(cfg, target, gate_edge=fr, gate_node=has_call("set_block_hash_root"))
        r.site(fn, None, "stage block-hash-root")
        for (n, w) in bad:
            r.violation(fn, fn.loc(n.ast), "data block can be accepted without a block-hash root", w)
        # the segnum checked against the hash trees is the segnum handed to _satisfy_data_block
        for n in cfg.find(target):
            c = calls_at(n, "_satisfy_data_block")[0]
            seg = fnorm.norm(n, arg(c, 0))
            for m in cfg.find(has_call("get_needed_block_hashes")) + cfg.find(has_call("get_needed_ciphertext_hashes")):
                for cc in node_calls(m):
                    if call_tail(cc) in ("get_needed_block_hashes", "get_needed_ciphertext_hashes"):
                        r.require(fnorm.norm(m, arg(cc, 0)) == seg, fn, fn.loc(cc),
                                  "hash chain is checked for segment %s but the block of segment %s is accepted" % (
                                      fnorm.norm(m, arg(cc, 0)), seg))

    # -- 4. COMPLETE dominated by check_block ------------------------------
    with ctx.rule("C02.4", "R1", "_satisfy_data_block: notify(state=COMPLETE, block=b) is dominated by "
                  "check_block(segnum, b); the hash-error handler never notifies COMPLETE", expected=1) as r:
        fn = idx.func(SHARE + "._satisfy_data_block")
        cfg = fn.cfg()
        fnorm = FlowNorm(fn)

        def notifies_complete(n):
            for c in calls_at(n, "notify"):
                st = kwarg(c, "state") or arg(c, 0)
                if isinstance(st, ast.Name) and st.id == "COMPLETE":
                    return True
            return False
        tn = cfg.find(notifies_complete)
        if not tn:
            raise AnchorVanished("no notify(state=COMPLETE) in _satisfy_data_block")
        segparam = first_positional_params(fn)[0]
        for n in tn:
            r.site(fn, n.ast)
            c = [c for c in calls_at(n, "notify")][0]
            blk = kwarg(c, "block")
            blk_s = fnorm.norm(n, blk) if blk is not None else None
            r.require(blk is not None, fn, fn.loc(c), "COMPLETE notification carries no block")

            def checked(m, _blk=blk_s):
                for cc in calls_at(m, "check_block"):
                    if call_name(cc) == "self._commonshare.check_block" and len(cc.args) == 2 \
                            and fnorm.norm(m, cc.args[1]) == _blk \
                            and isinstance(cc.args[0], ast.Name) and cc.args[0].id == segparam:
                        return True
                return False
            blkname = blk.id if isinstance(blk, ast.Name) else None
            bad = find_path_avoiding(cfg, lambda x: x is n, gate_node=checked,
                                     kill=stores(blkname) if blkname else None)
            r.count(len(cfg.nodes))
            for (t, w) in bad:
                r.violation(fn, fn.loc(t.ast), "a block is delivered as COMPLETE without check_block on it "
                            "(path: %s)" % w.brief(), w)
        # handler paths: after entering an except handler no COMPLETE notification is reachable
        for h in cfg.find(lambda n: n.kind == "except"):
            visited, parent = explore(cfg, 0, lambda n, lab, nxt, st: 0, start=h)
            for (nid, _s) in visited:
                if notifies_complete(cfg.nodes[nid]):
                    r.violation(fn, fn.loc(cfg.nodes[nid].ast), "COMPLETE is notified from the hash-failure handler",
                                witness(cfg, parent, (nid, 0)))

    # -- 5. check_block hashes its own parameter ---------------------------
    with ctx.rule("C02.5", "R1", "CommonShare.check_block: the leaf given to the block hash tree is "
                  "block_hash(block) of the parameter at index segnum", expected=1) as r:
        fn = idx.func(CSHARE + ".check_block")
        ps = first_positional_params(fn)
        nrm = N(fn)
        cs = calls_in_func(fn, "set_hashes")
        if not cs:
            raise AnchorVanished("check_block no longer calls set_hashes")
        for c in cs:
            r.site(fn, c)
            lv = kwarg(c, "leaves") or arg(c, 1)
            ok = False
            if isinstance(lv, ast.Dict) and len(lv.keys) == 1:
                k = nrm.norm(lv.keys[0])
                v = nrm.norm(lv.values[0])
                ok = (k == ps[0]) and re.match(r"^(\w+\.)*block_hash\(%s\)$" % re.escape(ps[1]), v) is not None
            r.require(ok, fn, fn.loc(c), "leaf is %s" % src(fn, lv))
            r.require(call_name(c) == "self._block_hash_tree.set_hashes", fn, fn.loc(c),
                      "leaf is checked against %s, not the share's block hash tree" % call_name(c))
        # every normal exit passes through the set_hashes call
        bad = find_path_avoiding(fn.cfg(), lambda n: n.kind == "exit", gate_node=has_call("set_hashes"))
        for (n, w) in bad:
            r.violation(fn, fn.loc(), "check_block can return without validating the block", w)

    # -- 6. ciphertext hash before delivery --------------------------------
    with ctx.rule("C02.6", "R1/E7", "process_blocks: _check_ciphertext_hash is registered on the decode "
                  "Deferred before _deliver; it hashes the segment it returns", expected=2) as r:
        fn = idx.func(NODE + ".process_blocks")
        regs = registrations(fn)
        dvars = {attr_path(t) for n in func_own_nodes(fn) if isinstance(n, ast.Assign)
                 and contains_call(n.value, "_decode_blocks") for t in n.targets}
        dvars.discard(None)
        if len(dvars) != 1:
            raise AnchorVanished("decode Deferred not found in process_blocks")
        dv = dvars.pop()
        chain = [x for x in regs if x.recv == dv]
        r.site(fn, None, "chain " + " ".join(map(repr, chain)))
        i_chk = [i for i, x in enumerate(chain) if x.kind in ("cb",) and x.target_name().endswith("_check_ciphertext_hash")]
        i_del = [i for i, x in enumerate(chain) if x.target_name() == "_deliver"]
        r.require(bool(i_chk), fn, fn.loc(), "ciphertext hash check is not registered on the decode Deferred")
        r.require(bool(i_del), fn, fn.loc(), "_deliver is not registered on the decode Deferred")
        if i_chk and i_del:
            r.require(i_chk[0] < i_del[0], fn, fn.loc(chain[i_del[0]].call),
                      "_deliver is registered before the ciphertext hash check")
            # nothing between them may swallow a failure or replace the result
            for x in chain[i_chk[0] + 1:i_del[0]]:
                r.violation(fn, fn.loc(x.call), "callback %r sits between the hash check and delivery" % x)
            seg_arg = chain[i_chk[0]].args
            r.require(len(seg_arg) == 1 and isinstance(seg_arg[0], ast.Name) and seg_arg[0].id == first_positional_params(fn)[0],
                      fn, fn.loc(chain[i_chk[0]].call), "ciphertext hash is checked for a different segment number")
        # _deliver delivers `result` (the output of the chain)
        dl = fn.nested.get("_deliver")
        if dl is None:
            raise AnchorVanished("process_blocks._deliver")
        res = first_positional_params(dl)[0]
        for c in calls_in_func(dl, "eventually"):
            if len(c.args) >= 4 and attr_path(c.args[0]) == "self._deliver":
                r.require(isinstance(c.args[3], ast.Name) and c.args[3].id == res, dl, dl.loc(c),
                          "delivers %s instead of the validated chain result" % src(dl, c.args[3]))
        # _check_ciphertext_hash
        ck = idx.func(NODE + "._check_ciphertext_hash")
        r.site(ck, None)
        cfg = ck.cfg()
        fnorm = FlowNorm(ck)
        cps = first_positional_params(ck)

        def sets_leaf(n):
            for c in calls_at(n, "set_hashes"):
                lv = kwarg(c, "leaves") or arg(c, 1)
                if call_name(c) == "self.ciphertext_hash_tree.set_hashes" and isinstance(lv, ast.Dict) and len(lv.keys) == 1:
                    k = fnorm.norm(n, lv.keys[0])
                    v = fnorm.norm(n, lv.values[0])
                    if k == cps[1] and re.match(r"^(\w+\.)*crypttext_segment_hash\(%s\[0\]\)$" % re.escape(cps[0]), v):
                        return True
            return False
        rets = cfg.find(is_return)
        for n in rets:
            v = fnorm.resolve(n, n.ast.value)
            ok = isinstance(v, ast.Tuple) and len(v.elts) == 3 and fnorm.norm(n, v.elts[1]) == cps[0] + "[0]"
            r.require(ok, ck, ck.loc(n.ast), "returns %s, not the segment that was hashed" % src(ck, v))
            if ok:
                lab = fnorm.norm(n, v.elts[0])
                r.require(lab == norm_src("%s * self.segment_size" % cps[1]), ck, ck.loc(n.ast),
                          "the validated segment is labelled with file offset %s, not segnum * segment_size: the reader "
                          "slices the segment relative to that offset and would deliver the wrong bytes" % lab)
        bad = find_path_avoiding(cfg, lambda n: n.kind == "exit", gate_node=sets_leaf)
        for (n, w) in bad:
            r.violation(ck, ck.loc(), "segment returned without checking crypttext_segment_hash(segment) "
                        "against the ciphertext hash tree (path: %s)" % w.brief(), w)

    # -- 7. fetcher --------------------------------------------------------
    with ctx.rule("C02.7", "R3/R1", "SegmentFetcher stores a block only under state COMPLETE; process_blocks "
                  "only with >= k distinct validated blocks", expected=2) as r:
        fn = idx.func(FETCH + "._block_request_activity")
        cfg = fn.cfg()
        fnorm = FlowNorm(fn)
        st = cfg.find(stores("self._blocks[]"))
        if not st:
            raise AnchorVanished("no store into self._blocks in _block_request_activity")

        def is_complete(n, lab):
            f = fnorm.edge_fact(n, lab)
            return bool(f) and f[0] in ("is", "==") and {f[1], f[2]} == {"COMPLETE", "state"}
        for n in st:
            r.site(fn, n.ast)
            v = n.ast.value if isinstance(n.ast, ast.Assign) else None
            r.require(isinstance(v, ast.Name) and v.id == "block", fn, fn.loc(n.ast),
                      "stores %s instead of the validated block" % src(fn, v))
        for (n, w) in find_path_avoiding(cfg, stores("self._blocks[]"), gate_edge=is_complete, kill=stores("state")):
            r.violation(fn, fn.loc(n.ast), "block stored without state COMPLETE (path: %s)" % w.brief(), w)
        cg = get_callgraph(idx)
        for (f, nd) in cg.attr_stores("_blocks"):
            if f.cls is not None and f.cls.name == "SegmentFetcher" and f.name != "__init__":
                r.violation(f, f.loc(nd), "_blocks re-bound outside __init__")
        # subscripts stores elsewhere in the class
        for m in idx.cls(FETCH).methods.values():
            if m.name in ("_block_request_activity",):
                continue
            for n in m.cfg().find(stores("self._blocks[]")):
                r.violation(m, m.loc(n.ast), "block stored outside _block_request_activity")
        fn = idx.func(FETCH + "._do_loop")
        cfg = fn.cfg()
        fnorm = FlowNorm(fn)
        tg = has_call("process_blocks")
        if not cfg.find(tg):
            raise AnchorVanished("no process_blocks call in _do_loop")

        def enough(n, lab):
            f = fnorm.edge_fact(n, lab)
            if not f:
                return False
            op, l, rr = f
            # k <= len(set(self._blocks.keys()))   (also accepts len(self._blocks))
            return op == "<=" and l in ("self._k",) and re.match(
                r"^len\((set\()?self\._blocks(\.keys\(\))?\)?\)$", rr) is not None
        for n in cfg.find(tg):
            r.site(fn, n.ast)
            c = calls_at(n, "process_blocks")[0]
            r.require(len(c.args) == 2 and attr_path(c.args[1]) == "self._blocks" and attr_path(c.args[0]) == "self.segnum",
                      fn, fn.loc(c), "process_blocks is given %s" % src(fn, c))
        for (n, w) in find_path_avoiding(cfg, tg, gate_edge=enough):
            r.violation(fn, fn.loc(n.ast), "decode started without k validated blocks (path: %s)" % w.brief(), w)

    # -- 9. offset table sanity --------------------------------------------
    with ctx.rule("C02.9", "R1", "_satisfy_offsets: unknown version and out-of-order offsets raise LayoutInvalid "
                  "before the offsets are accepted", expected=2) as r:
        fn = idx.func(SHARE + "._satisfy_offsets")
        cfg = fn.cfg()
        rs = cfg.find(raises("LayoutInvalid"))
        for n in rs:
            r.site(fn, n.ast)
        st = stores("self.actual_offsets")
        if not cfg.find(st):
            raise AnchorVanished("no store of actual_offsets")
        fnorm = FlowNorm(fn)

        def version_known(n, lab):
            f = fnorm.edge_fact(n, lab)
            return bool(f) and f[0] == "==" and (f[1] in ("1", "2") or f[2] in ("1", "2"))
        for (n, w) in find_path_avoiding(cfg, st, gate_edge=version_known):
            r.violation(fn, fn.loc(n.ast), "offsets accepted for an unknown share version", w)
        # return True is dominated by 0 <= (later offset - earlier offset) for both hash regions
        acc = cfg.find(returns_const(True))
        r.require(bool(acc), fn, fn.loc(), "no accepting return")
        # the table under test is whatever is stored into self.actual_offsets (a local of any name, or the attribute)
        bases = {"self.actual_offsets"}
        for n in cfg.find(st):
            v = assign_value(n, "self.actual_offsets")
            if isinstance(v, ast.Name):
                bases.add(v.id)
        for later, earlier in (("uri_extension", "share_hashes"), ("share_hashes", "block_hashes")):
            want = {norm_src("%s[%r] - %s[%r]" % (b, later, b, earlier)) for b in bases}

            def sane(n, lab, _want=want):
                f = fnorm.edge_fact(n, lab)
                return bool(f) and f[0] == "<=" and f[1] == "0" and f[2] in _want
            for (n, w) in find_path_avoiding(cfg, returns_const(True), gate_edge=sane):
                r.violation(fn, fn.loc(n.ast), "offset table accepted without checking %s >= %s (path: %s)" % (
                    later, earlier, w.brief()), w)

    # -- 10. Segmentation writes only slices of delivered segments ---------
    with ctx.rule("C02.10", "R4", "segmentation.py: the only consumer.write takes a slice of the delivered segment",
                  expected=1) as r:
        m = idx.module("allmydata.immutable.downloader.segmentation")
        cg = get_callgraph(idx)
        n_w = 0
        for cs in cg.calls_named("write"):
            if cs.fn.module is not m:
                continue
            n_w += 1
            r.site(cs.fn, cs.call)
            g = cs.fn
            gp = first_positional_params(g)
            fnorm = FlowNorm(g)
            node = [n for n in g.cfg().nodes if any(c is cs.call for c in node_calls(n))][0]
            a0 = fnorm.resolve(node, arg(cs.call, 0))
            ok = isinstance(a0, ast.Subscript) and isinstance(a0.slice, ast.Slice) \
                and fnorm.norm(node, a0.value) == gp[0] + "[1]"
            r.require(ok, g, cs.loc, "consumer.write(%s) is not a slice of the delivered segment" % src(g, a0))
            if ok and a0.slice.lower is not None:
                # the slice must start at the byte the reader asked for: (wanted offset - segment start), or at the
                # overlap start on paths where overlap start == wanted offset was established
                want = norm_src("self._offset - %s[0]" % gp[0])
                # normalise at the node that defines the slice (self._offset is advanced afterwards)
                defn = node
                if isinstance(arg(cs.call, 0), ast.Name):
                    nm = arg(cs.call, 0).id
                    ds = [n for n in g.cfg().stmt_nodes() if nm in node_stores(n)]
                    if len(ds) == 1:
                        defn = ds[0]
                low = fnorm.norm(defn, a0.slice.lower)
                if low != want:
                    m = re.match(r"^\((.+) \+ -1\*%s\[0\]\)$" % re.escape(gp[0]), low) or \
                        re.match(r"^\(-1\*%s\[0\] \+ (.+)\)$" % re.escape(gp[0]), low)
                    base = m.group(1) if m else None

                    def aligned(t, lab, _b=base):
                        f = fnorm.edge_fact(t, lab)
                        return bool(f) and _b is not None and f[0] == "==" and {f[1], f[2]} == {_b, "self._offset"}
                    bad = find_path_avoiding(g.cfg(), lambda x, _d=defn: x is _d, gate_edge=aligned) if base else [(defn, None)]
                    for (t, w) in bad:
                        r.violation(g, cs.loc, "the bytes written start at %s of the segment, which is not (wanted offset - segment "
                                    "start) and is not established equal to it: a segment that starts after the wanted offset "
                                    "would be delivered as if it began there" % low, w)
        # _got_segment is fed only by node.get_segment's Deferred
        gs = idx.func("immutable.downloader.segmentation:Segmentation._got_segment")
        bad, badrefs, total = callers_outside(idx, "_got_segment", ["immutable.downloader.segmentation:Segmentation._fetch_next"])
        for cs in bad:
            r.violation(cs.fn, cs.loc, "%s calls _got_segment directly" % short(cs.fn))
        for (f, nd) in badrefs:
            r.violation(f, f.loc(nd), "%s uses _got_segment as a callback" % short(f))

    # -- 11. Segmentation: coverage guard and read-position bookkeeping -----
    with ctx.rule("C02.11", "R1", "Segmentation._got_segment: the delivered segment is sliced only after it was established "
                  "to start at or before the wanted offset; the wanted offset / remaining size move by exactly the "
                  "bytes written", expected=3) as r:
        g = idx.func("immutable.downloader.segmentation:Segmentation._got_segment")
        gp = first_positional_params(g)
        cfg = g.cfg()
        fnorm = FlowNorm(g)
        seg0, seg1 = gp[0] + "[0]", gp[0] + "[1]"
        ov = "overlap(%s, len(%s), self._offset, self._size)" % (seg0, seg1)
        ov0 = norm_src(ov + "[0]")
        s0 = norm_src(seg0)
        wnodes = [n for n in cfg.nodes if any(call_name(c).endswith("_consumer.write") for c in node_calls(n))]
        if not wnodes:
            raise AnchorVanished("no consumer.write in Segmentation._got_segment")

        def covers(t, lab):
            f = fnorm.edge_fact(t, lab)
            if not f:
                return False
            op, l, rr = f
            if op == "==" and {l, rr} == {ov0, "self._offset"}:
                return True        # overlap start == wanted offset
            if op == "<=" and ((l == s0 and rr == "self._offset") or
                               (l == "0" and rr == norm_src("self._offset - %s" % seg0))):
                return True        # segment start <= wanted offset
            return False

        def tgt_of(attr):
            return ast.Attribute(value=ast.Name(id="self", ctx=ast.Load()), attr=attr, ctx=ast.Load())

        def nrm_at(n, e):
            try:
                return fnorm.norm(n, ast.fix_missing_locations(ast.copy_location(e, n.ast)))
            except Exception:
                return None

        def newval(n, attr):
            """normal form of the value stored into self.<attr> at n, or None"""
            a = n.ast
            if isinstance(a, ast.AugAssign) and attr_path(a.target) == "self." + attr:
                return nrm_at(n, ast.BinOp(left=tgt_of(attr), op=a.op, right=a.value)) or "?"
            if isinstance(a, ast.Assign) and len(a.targets) == 1 and attr_path(a.targets[0]) == "self." + attr:
                return nrm_at(n, a.value) or "?"
            return None

        for wn in wnodes:
            wc = [c for c in node_calls(wn) if call_name(c).endswith("_consumer.write")][0]
            wa = arg(wc, 0)
            # the node that computes the slice
            defn = wn
            if isinstance(wa, ast.Name):
                ds = [n for n in cfg.stmt_nodes() if wa.id in node_stores(n)]
                if len(ds) == 1:
                    defn = ds[0]
            r.site(g, wc, "coverage guard")
            for (t, w) in find_path_avoiding(cfg, lambda x, _d=defn: x is _d, gate_edge=covers, kill=stores("self._offset")):
                r.violation(g, g.loc(defn.ast), "the segment is sliced at (wanted offset - segment start) on a path that never "
                            "established that the segment starts at or before the wanted offset (overlap start == "
                            "self._offset): a segment that begins later gives a negative index and bytes from the wrong "
                            "place are written (path: %s)" % w.brief(), w)
            # bookkeeping: self._offset += len(written), self._size -= len(written) on every path through the write
            wlen = ast.Call(func=ast.Name(id="len", ctx=ast.Load()), args=[wa], keywords=[])
            for attr, sign in (("_offset", 1), ("_size", -1)):
                r.site(g, wc, "self.%s moves by the bytes written" % attr)

                def moved(n, _attr=attr, _sign=sign):
                    if ("self." + _attr) not in node_stores(n):
                        return False
                    v = newval(n, _attr)
                    if v is None:
                        return False
                    op = ast.Add() if _sign > 0 else ast.Sub()
                    want = {nrm_at(n, ast.BinOp(left=tgt_of(_attr), op=op, right=x))
                            for x in (wlen, ast.parse(ov + "[1]", mode="eval").body)}
                    return v in want
                pre = find_path_avoiding(cfg, lambda x, _w=wn: x is _w, gate_node=moved)
                post = find_path_from_to_avoiding(cfg, lambda x, _w=wn: x is _w, gate_node=moved)
                if pre and post:
                    r.violation(g, g.loc(wc), "bytes are written but self.%s is not moved by %slen(<bytes written>) on some path "
                                "through the write: the next segment would be cut against a stale read position and the "
                                "consumer would receive repeated or surplus bytes (path: %s ... %s)" % (
                                    attr, "+" if sign > 0 else "-", pre[0][1].brief(), post[0][1].brief()), pre[0][1])
                # no other store of the attribute in this function
                for n in cfg.stmt_nodes():
                    if ("self." + attr) in node_stores(n) and not moved(n) and newval(n, attr) != "self." + attr:
                        r.violation(g, g.loc(n.ast), "self.%s becomes %s, which is not self.%s %s len(<bytes written>)" % (
                            attr, newval(n, attr), attr, "+" if sign > 0 else "-"))


    # -- 12. the decryptor that turns validated ciphertext into what the reader sees ----------
    from sa.rules import C01 as _C01
    with ctx.rule("C02.12", "R4/R6", "the AES-CTR context DecryptingConsumer.write decrypts with can only be the one keyed in "
                  "that consumer's own constructor from (readkey, offset of this read): every store of self._decryptor keeps "
                  "that create_decryptor(..) call, every path through __init__ passes such a store and then consumes the "
                  "intra-block residue, nobody else stores it, and ImmutableFileNode.read builds the consumer in the call, "
                  "with the offset it reads the ciphertext from (rule body shared with C01.7 / C04.5)", expected=3) as r:
        _C01.run_ctr(ctx, r)

    # -- 13. one byte source per read ----------------------------------------------------------
    with ctx.rule("C02.13", "R1/E7", "a read() hands its consumer to one byte source: on no path through "
                  "ImmutableFileNode.read / CiphertextFileNode.read / DownloadNode.read is the read handed on twice, code of "
                  "these functions that runs on a later turn (callbacks, errbacks) hands the consumer to nobody and no stage "
                  "writes to it itself; a Segmentation's position (self._offset / self._size) is set from its own arguments in "
                  "__init__ and afterwards only moved by _got_segment", expected=4) as r:
        _one_source_per_read(ctx, r, _C01)

    # -- 8. hash-tree acceptance / rejection discipline (shared with C35) ----
    from sa.rules import C35 as _C35
    _C35.run(ctx, P="C02.8")


def _consumer_names(idx, st):
    """Names of the stage function that hold this read's consumer or an object wrapped around it (an instance of a
    package class built with the consumer as argument, e.g. the DecryptingConsumer)."""
    fn = st.fn
    names = {st.consumer}
    defs = def_exprs(fn)
    for _round in range(3):
        for nm, vals in defs.items():
            if "." in nm or nm in names:
                continue
            for v in vals:
                if isinstance(v, ast.Name) and v.id in names:
                    names.add(nm)
                elif isinstance(v, ast.Call) and isinstance(idx.resolve_expr(fn.module, v.func), ClassInfo) and any(
                        isinstance(a, ast.Name) and a.id in names for a in list(v.args) + [k.value for k in v.keywords]):
                    names.add(nm)
    return names


def _later_calls(fn):
    """(call, names bound by the enclosing nested defs / lambdas) for every call in code of fn that does not run as part
    of fn's own control flow: bodies of nested defs and lambdas (Deferred callbacks, eventually(), producers)."""
    out = []

    def visit(node, shadow, inside):
        if isinstance(node, (ast.FunctionDef, ast.AsyncFunctionDef, ast.Lambda)):
            a = node.args
            bound = {x.arg for x in a.posonlyargs + a.args + a.kwonlyargs}
            if a.vararg:
                bound.add(a.vararg.arg)
            if a.kwarg:
                bound.add(a.kwarg.arg)
            # defaults and decorators are evaluated where the function is defined
            for d in list(a.defaults) + [k for k in a.kw_defaults if k is not None] + list(getattr(node, "decorator_list", [])):
                visit(d, shadow, inside)
            for b in (node.body if isinstance(node.body, list) else [node.body]):
                visit(b, shadow | bound, True)
            return
        if isinstance(node, ast.Call) and inside:
            out.append((node, shadow))
        for ch in ast.iter_child_nodes(node):
            visit(ch, shadow, inside)

    for stmt in fn.node.body:
        visit(stmt, frozenset(), False)
    return out


def _one_source_per_read(ctx, r, _C01):
    idx = ctx.idx
    stages = _C01.read_stages(idx)
    for st in stages:
        fn = st.fn
        cfg = st.cfg
        r.site(fn, st.forwards[0][1], "one byte source per read")
        names = _consumer_names(idx, st)
        # (a) the stage's own control flow: the read is handed on at most once on any path (no second attempt, no loop)

        def tr(n, lab, nxt, cnt, _st=st):
            if lab != "exc" and _st.is_forward(n):
                return min(cnt + 1, 2)
            return cnt
        visited, parent = explore(cfg, 0, tr)
        r.count(len(visited))
        twice = sorted((nid, c) for (nid, c) in visited if c >= 2)
        if twice:
            w = witness(cfg, parent, twice[0])
            again = [n for (n, _l) in w.path if st.is_forward(n)]
            r.violation(fn, fn.loc(again[-1].ast if again else None), "%s hands one read to its byte source twice (%s is passed "
                        "twice on the path %s): whatever the first one delivered is delivered again, the consumer does not "
                        "receive a prefix of the requested range" % (short(fn), st.what, w.brief()), w)
        # (b) code that runs on a later turn - when the first source may already have written to the consumer - starts no
        # further source for it, and (c) nobody but the source writes to the consumer
        for (c, shadow) in _later_calls(fn):
            live = names - set(shadow)
            passed = [a for a in list(c.args) + [k.value for k in c.keywords] if isinstance(a, ast.Name) and a.id in live]
            if not passed or call_tail(c) in ("succeed", "providedBy"):
                continue
            if isinstance(c.func, ast.Name) and idx.resolve_expr(fn.module, c.func) is None \
                    and c.func.id not in {g.name for g in _nested_funcs(fn)} and c.func.id not in names:
                continue        # a builtin (isinstance, type, repr ..): looks at the object, hands it to nobody
            restart = [a for a in list(c.args) + [k.value for k in c.keywords]
                       if isinstance(a, ast.Name) and a.id == st.offset and st.offset not in shadow]
            r.violation(fn, fn.loc(c), "%s hands the consumer of the read to %s from code that runs on a later turn (a callback / "
                        "errback of the read): by then the first byte source may have delivered part of the range, and %s - the "
                        "consumer gets bytes twice, i.e. not a prefix of the requested range" % (
                            short(fn), src(fn, c)[:90],
                            ("this one starts again at the read's original offset '%s'" % st.offset) if restart else
                            "nothing establishes that this one resumes where the first one stopped"))
        for x in ast.walk(fn.node):
            if isinstance(x, ast.Call) and isinstance(x.func, ast.Attribute) and x.func.attr == "write" \
                    and isinstance(x.func.value, ast.Name) and x.func.value.id in names:
                r.violation(fn, fn.loc(x), "%s writes to the consumer itself (%s): the bytes of a read come from its "
                            "Segmentation only, which keeps the position; anything written besides it is surplus" % (
                                short(fn), src(fn, x)[:90]))
    # (d) the position of a Segmentation
    ci = idx.cls(_C01.SEGM)
    sinit = idx.func(_C01.SEGM + ".__init__")
    sp = first_positional_params(sinit)
    if len(sp) < 4:
        raise AnchorVanished("Segmentation.__init__ signature changed")
    r.site(sinit, None, "position set once from the arguments")
    seen = set()
    for m in ci.methods.values():
        for f in [m] + _nested_funcs(m):
            for n in f.cfg().nodes:
                for attr, pname in (("self._offset", sp[1]), ("self._size", sp[2])):
                    if attr not in node_stores(n):
                        continue
                    if f is sinit:
                        v = assign_value(n, attr)
                        seen.add(attr)
                        r.require(isinstance(v, ast.Name) and v.id == pname and
                                  FlowNorm(sinit).rd.get(n.id, {}).get(pname) == frozenset([C.PARAM_DEF]), sinit, sinit.loc(n.ast),
                                  "Segmentation.%s starts as %s, not as the %s this read was asked for" % (
                                      attr[5:], src(sinit, v) if v is not None else "?", pname))
                    elif f.qual != "allmydata." + _C01.SEGM + "._got_segment":
                        r.violation(f, f.loc(n.ast), "%s sets %s: the position of a read is moved only by _got_segment, by the "
                                    "bytes it wrote - set anywhere else (a retry, a restart) it no longer says what the consumer "
                                    "already has" % (short(f), attr))
    if seen != {"self._offset", "self._size"}:
        raise AnchorVanished("Segmentation.__init__ no longer stores self._offset and self._size")
    # nobody outside the class moves it either
    cg = get_callgraph(idx)
    mods = {ci.module.name} | {st.fn.module.name for st in stages}
    for attr in ("_offset", "_size"):
        for (f, nd) in cg.attr_stores(attr):
            if f.module.name in mods and attr_path(nd.value) != "self":
                r.violation(f, f.loc(nd), "%s stores %s of another object (%s): the position of a read is moved only by "
                            "Segmentation._got_segment" % (short(f), attr, src(f, nd)))


def _nested_funcs(fn):
    out = []
    for g in fn.nested.values():
        out.append(g)
        out.extend(_nested_funcs(g))
    return out


def _edge_leads_only_to_raise(cfg, n, lab):
    for (d, l) in cfg.succ[n.id]:
        if C._lbl_eq(l, lab):
            visited, _ = explore(cfg, 0, lambda a, b, c, s: 0, start=cfg.nodes[d])
            kinds = {cfg.nodes[i].kind for (i, _s) in visited}
            return "exit" not in kinds
    return False


def contains_call_in_closure(fn, e, tail):
    return any(call_tail(c) == tail for c in calls_feeding(fn, e))
