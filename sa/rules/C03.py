"""C03 Immutable availability with k good shares.

Decided: the event plumbing that lets the segment fetcher fall back to the
remaining shares (DESIGN.md section 5, C03): wake-up discipline, per-state share
bookkeeping, share abandonment, the gate of the not-enough-shares verdict, the
per-server diversity escalation, the hand-over of shares / requests / blocks on the success path, the request
accounting of the finder, the isolation of a rejected hash chain from the node's shared hash trees and the events that
reach a fetcher which has already stopped."""
from sa.h import *

EXPLANATION = (
    "Decided (structural, all paths): (1) wake-up discipline: every state-changing handler of SegmentFetcher "
    "(add_shares, no_more_shares, _block_request_activity while running, _ask_for_more_shares, _start_share), "
    "ShareFinder (hungry, overdue, the send_request chain, _got_response, _deliver_shares), DownloadNode "
    "(got_shares, no_more_shares, want_more_shares) and Share (get_block, schedule_loop, loop's flag reset, "
    "_trigger_loop, the _send_requests chain) passes the event on / schedules its loop on every normal path; "
    "(2) _block_request_activity, explored once per share state: a terminal state (COMPLETE, CORRUPT, DEAD, "
    "BADSEGNUM) leaves the share in neither _active_share_map nor _overdue_share_map, COMPLETE stores the block, "
    "OVERDUE moves the share from the active to the overdue map; (3) Share._fail clears _alive and notifies DEAD to "
    "every observer of every requested block, every handler of Share.loop and _got_error call _fail, block hash "
    "failure notifies CORRUPT and an out-of-range segment BADSEGNUM to every observer; (4) _no_shares_error is "
    "reached only under _no_more_shares and a k-count that includes blocks, active and overdue shares, "
    "_no_more_shares is set only by no_more_shares(), which only the finder announces, and only with no server "
    "left and no request in flight; (5) the want_more_diversity branch raises _max_shares_per_server and retries, "
    "and _find_and_use_share flags every share skipped for the per-server limit; (6) _start_new_segment hands a new "
    "fetcher only live shares; (7) the success path really hands things over: add_shares keeps the shares it is given, "
    "_got_response delivers shares made by _create_share from the buckets of the answer, get_block enters the observer "
    "it returns into _requested_blocks on every path and makes it cancellable, _find_and_use_share starts the share it "
    "picks, records it in _active_share_map, takes it out of the unused list and reports sent_something, a block request "
    "(_satisfy_data_block, BADSEGNUM in _get_satisfaction) is retired exactly when its observers were notified and "
    "COMPLETE carries the block to every observer, _do_loop never settles down to wait with fewer than k blocks + "
    "requests without asking for more shares, and Share.loop / SegmentFetcher._do_loop / ShareFinder.loop reach their "
    "work when the share is alive / the fetcher running / the finder running and hungry; (8) the premise of the "
    "no_more_shares gate: send_request enters the request token into pending_requests, the DYHB Deferred retires it on "
    "success and failure, _request_retired removes it, overdue() marks it in overdue_requests, and the server variable "
    "of ShareFinder.loop is bound on every path; (9) a corrupt share cannot poison the trees the intact shares are "
    "validated against: the DownloadNode feeds share-supplied chains into its shared share-hash / ciphertext-hash "
    "IncompleteHashTrees, so a rejecting set_hashes must leave the tree as it found it - every store of the call is journaled "
    "before the next rejection and the handler covers every rejection class and re-raises (C35.1 / C35.2, adopted as C03.9.1 / "
    "C03.9.2), a rollback handler exists, walks the journal on every path to its re-raise, resets every journaled index, and "
    "the journal loses no entry while a rejection is still possible; (10) the node keeps _active_segment pointing at a fetcher "
    "that stopped while its segment is decoded (decided: a SegmentFetcher method calls stop() and then a DownloadNode method "
    "that can return without re-binding _active_segment) and stop() deletes the fetcher's lists, so got_shares records the "
    "shares in self._shares before the hand-over that raises on a stopped fetcher, or on every path out of a handler that "
    "takes that exception; (11) SegmentFetcher._do_loop touches nothing that stop() invalidated and reports nothing to the "
    "node unless self._running was tested (in _do_loop or in front of every call of it): no_more_shares forwarded to the "
    "stopped fetcher wakes its loop, and an exception there is reported as fetch_failed for a segment whose blocks were "
    "all fetched; (12) a share leaves the fetcher's candidate containers only for a reason of its own: every operation of a "
    "SegmentFetcher method that can take entries out of the unused list self._shares removes exactly the share that is handed to "
    "_start_share (or one whose block is already held), every removal from _active_share_map / _overdue_share_map is keyed by the "
    "(shnum, share) of the event _block_request_activity is handling, self._blocks loses nothing - except where the fetcher stops "
    "or has stopped; copies that keep every entry (sorted / concatenated re-bindings) are not removals. "
    "Undecided: that the loop's choices reach k for every fault timing; code outside SegmentFetcher that reaches into a fetcher's "
    "lists, and a list handed to a foreign function that mutates it; "
    "the value-level correctness of the hash-tree walk (C35 / C02.8 decide it) and exceptions of set_hashes that are not "
    "explicit rejections; whether a try/except around the hand-over in got_shares that swallows the error is meant (C03.1 "
    "reports such a path as a lost event); "
    "removal from _shares_from_server and the `>=` of the per-server limit (compensated by (5), so not necessary "
    "conditions); every value-level clause: which byte range _satisfy_data_block / _send_requests read (block offset, "
    "tail length, argument order), the off-by-one of the segment-number and k comparisons, the order of the hash-tree "
    "steps of _get_satisfaction, the argument order of _fail / notify / _start_share (a swapped call raises at its "
    "first use), max_outstanding_requests and the overdue timer itself (latency only), and _last_failure (reporting).")
TECHNIQUE = "static analysis: must-pass path queries with excusing edge facts, CFG exploration per share state / per fact set (incl. exception edges of one call), def-use closure, Deferred chain order, rollback pairing adopted from C35"

NODE = "immutable.downloader.node:DownloadNode"
FETCH = "immutable.downloader.fetcher:SegmentFetcher"
FINDER = "immutable.downloader.finder:ShareFinder"
SHARE = "immutable.downloader.share:Share"
COMMON = "allmydata.immutable.downloader.common"
TERMINAL = ("COMPLETE", "CORRUPT", "DEAD", "BADSEGNUM")


# ------------------------------------------------------------------ helpers
_FN = {}


def _fnorm(fn):
    fx = _FN.get(fn.qual)
    if fx is None or fx.fn is not fn:
        fx = _FN[fn.qual] = FlowNorm(fn)
    return fx


def _cn(fn, n, c):
    """Dotted callee name with local aliases resolved."""
    try:
        s = _fnorm(fn).norm(n, c.func)
    except Exception:
        s = None
    return s if s and re.match(r"^[\w.]+$", s) else call_name(c)


def _calls(fn, *names):
    ns = set(names)
    return lambda n: any(_cn(fn, n, c) in ns for c in node_calls(n))


def _schedules(target_pred):
    """node evaluates eventually(X, ..) (or calls X directly) with target_pred(path of X)."""
    def p(n):
        for c in node_calls(n):
            if call_tail(c) == "eventually" and c.args:
                ap = attr_path(c.args[0])
                if ap and target_pred(ap):
                    return True
            elif target_pred(call_name(c)):
                return True
        return False
    return p


def _stores_const(path, value):
    def p(n):
        if path not in node_stores(n):
            return False
        v = assign_value(n, path)
        return isinstance(v, ast.Constant) and v.value is value
    return p


def _unexcused(fn, required, excuse=None, start=None, ends=("exit",), stop_at=None):
    cfg = fn.cfg()

    def transfer(n, lab, nxt, st):
        if excuse is not None and excuse(n, lab):
            return None
        if n.kind not in ("entry", "exit", "raise") and lab != "exc" and required(n):
            return None
        if stop_at is not None and n is not start and stop_at(n):
            return None
        return 0
    visited, parent = explore(cfg, 0, transfer, start=start)
    out = []
    for kind in ends:
        end = cfg.exit if kind == "exit" else cfg.raise_exit
        if (end.id, 0) in visited:
            out.append(witness(cfg, parent, (end.id, 0)))
    return out, len(visited), visited, parent


def _must_pass(r, fn, required, what, excuse=None):
    ws, n, _v, _p = _unexcused(fn, required, excuse)
    r.count(n)
    for w in ws:
        r.violation(fn, fn.loc(), "%s can return without %s (path: %s)" % (short(fn), what, w.brief()), w)


def _must_pass_flags(r, fn, required, what, excuse=None):
    """_must_pass that also follows local flags bound to constants, so that a for/else rewritten as
    `found = False; for ..: found = True; break` + `if not found:` is not mistaken for an unguarded path."""
    cfg = fn.cfg()
    fx = _fnorm(fn)

    def transfer(n, lab, nxt, st):
        if excuse is not None and excuse(n, lab):
            return None
        if n.kind in ("entry", "exit", "raise") or lab == "exc":
            return st
        if required(n):
            return None
        flags = dict(st)
        a = n.ast
        for name in node_stores(n):
            flags.pop(name, None)
        if n.kind == "stmt" and isinstance(a, ast.Assign) and len(a.targets) == 1 and isinstance(a.targets[0], ast.Name) \
                and isinstance(a.value, ast.Constant):
            flags[a.targets[0].id] = bool(a.value.value)
        f = fx.edge_fact(n, lab)
        if f and f[0] in ("truth", "false") and f[1] in flags and flags[f[1]] != (f[0] == "truth"):
            return None
        return frozenset(flags.items())
    visited, parent = explore(cfg, frozenset(), transfer)
    r.count(len(visited))
    for (nid, st) in sorted(visited, key=lambda x: (x[0], sorted(x[1]))):
        if nid == cfg.exit.id:
            w = witness(cfg, parent, (nid, st))
            r.violation(fn, fn.loc(), "%s can return without %s (path: %s)" % (short(fn), what, w.brief()), w)
            break


def _ret_expr(fn, n, stop_at_name=False):
    """The expression returned at node n, with plain-name copies (`rv = X; return rv`) followed to X.  With
    stop_at_name the last plain name of the copy chain is returned (the variable, not its defining call)."""
    e = n.ast.value
    try:
        env = _fnorm(fn).env_at(n)
    except Exception:
        return e
    for _i in range(4):
        if not (isinstance(e, ast.Name) and e.id in env.defs):
            break
        d = env.defs[e.id]
        if stop_at_name and not isinstance(d, ast.Name):
            break
        e = d
    return e


def _fact_excuse(fn, pred):
    fx = _fnorm(fn)

    def ex(n, lab):
        f = fx.edge_fact(n, lab)
        return bool(f) and bool(pred(*f))
    return ex


def _loop_body_must_pass(fn, head, required):
    """Witnesses of iterations of the for-loop `head` that do not pass `required`."""
    cfg = fn.cfg()
    out = []
    for (d, l) in cfg.succ[head.id]:
        if l != "iter":
            continue

        def transfer(n, lab, nxt, st):
            if n is head or lab == "exc" or required(n):
                return None
            return 0
        visited, parent = explore(cfg, 0, transfer, start=cfg.nodes[d])
        for end in (head.id, cfg.exit.id):
            if (end, 0) in visited:
                out.append(witness(cfg, parent, (end, 0)))
    return out


def _target_func(fn, t):
    if isinstance(t, ast.Name):
        f = fn
        while f is not None:
            if t.id in f.nested:
                return f.nested[t.id]
            f = f.parent
        return fn.module.funcs.get(t.id)
    if isinstance(t, ast.Attribute) and isinstance(t.value, ast.Name) and t.value.id == "self" and fn.cls is not None:
        return fn.cls.lookup(t.attr)
    return None


def _effective(reg):
    t, a = reg.target, list(reg.args)
    if isinstance(t, ast.Name) and t.id == "incidentally" and a:
        return a[0], a[1:]
    return t, a


def _swallows(fn, reg):
    """An errback registration that turns every failure into a plain result, so the next callback runs."""
    if reg.kind != "eb":
        return False
    t, _a = _effective(reg)
    if attr_path(t) in ("log.err",):
        return True
    if isinstance(t, ast.Lambda):
        return isinstance(t.body, ast.Call) and call_name(t.body) in ("log.err", "log.msg")
    g = _target_func(fn, t)
    if g is None:
        return False
    for n in func_own_nodes(g):
        if isinstance(n, ast.Raise):
            return False
        if isinstance(n, ast.Call) and call_tail(n) == "trap":
            return False
        if isinstance(n, ast.Return) and n.value is not None and not (isinstance(n.value, ast.Constant) and n.value.value is None):
            return False
    return True


def _always_runs(fn, chain, i):
    k = chain[i].kind
    if k in ("both", "pair"):
        return True
    if k == "cb":
        return i > 0 and _swallows(fn, chain[i - 1])
    return False


def _deferred_var(fn, producer_tail):
    out = set()
    for n in func_own_nodes(fn):
        if isinstance(n, ast.Assign) and isinstance(n.value, ast.Call) and call_tail(n.value) == producer_tail:
            for t in n.targets:
                if isinstance(t, (ast.Tuple, ast.List)) and t.elts:
                    t = t.elts[0]
                p = attr_path(t)
                if p:
                    out.add(p)
    if len(out) != 1:
        raise AnchorVanished("Deferred of %s(..) not found in %s" % (producer_tail, short(fn)))
    return out.pop()


def _dominators(cfg):
    """node id -> set of ids of its dominators (reachable part of the CFG, normal and exceptional edges)."""
    reach = cfg.reachable_nodes()
    dom = {i: set(reach) for i in reach}
    dom[cfg.entry.id] = {cfg.entry.id}
    changed = True
    while changed:
        changed = False
        for i in sorted(reach):
            if i == cfg.entry.id:
                continue
            ps = [p for (p, _l) in cfg.pred[i] if p in reach]
            new = set.intersection(*[dom[p] for p in ps]) if ps else set()
            new = new | {i}
            if new != dom[i]:
                dom[i] = new
                changed = True
    return dom


def _state_names(idx):
    m = idx.module(COMMON)
    for st in m.tree.body:
        if isinstance(st, ast.Assign) and len(st.targets) == 1 and isinstance(st.targets[0], (ast.Tuple, ast.List)):
            names = [e.id for e in st.targets[0].elts if isinstance(e, ast.Name)]
            if "OVERDUE" in names and "COMPLETE" in names:
                return set(names)
    raise AnchorVanished("share state constants not found in %s" % COMMON)


def _notifies(state_names):
    def p(n):
        for c in node_calls(n):
            if call_tail(c) == "notify":
                st = kwarg(c, "state") or arg(c, 0)
                if isinstance(st, ast.Name) and st.id in state_names:
                    return True
        return False
    return p


def _observer_loops(fn, over, state_names):
    """for-loops whose iterable (after alias resolution) is `over` and whose body notifies one of the states
    on the loop variable."""
    cfg = fn.cfg()
    fxx = _fnorm(fn)
    out = []
    for h in cfg.nodes:
        if h.kind != "iter" or not isinstance(h.ast.target, ast.Name):
            continue
        if over is not None and fxx.norm(h, h.ast.iter) != over and attr_path(h.ast.iter) != over:
            continue
        var = h.ast.target.id
        body_notifies = [c for st in h.ast.body for c in own_nodes(st) if isinstance(c, ast.Call)
                         and call_tail(c) == "notify" and attr_path(c.func.value) == var]
        body_notifies = [c for c in body_notifies if isinstance(kwarg(c, "state") or arg(c, 0), ast.Name)
                         and (kwarg(c, "state") or arg(c, 0)).id in state_names]
        if body_notifies:
            out.append(h)
    return out


# --------------------------------------------------------------------- rules
def run(ctx: Context):
    idx = ctx.idx
    states = _state_names(idx)
    for s in TERMINAL + ("OVERDUE",):
        if s not in states:
            raise AnchorVanished("share state %s is no longer defined in downloader/common.py" % s)

    # -- 1. wake-up discipline ----------------------------------------------
    with ctx.rule("C03.1", "R2", "every state-changing handler of fetcher / finder / node / share passes the event on "
                  "or schedules its loop on every normal path", expected=18) as r:
        self_loop = _schedules(lambda p: p == "self.loop")

        def handler(qual, required, what, excuse=None, note=""):
            fn = idx.func(qual)
            if not fn.cfg().find(required):
                r.site(fn, None, note or what)
                r.violation(fn, fn.loc(), "%s never does this: %s" % (short(fn), what))
                return fn
            r.site(fn, None, note or what)
            _must_pass(r, fn, required, what, _fact_excuse(fn, excuse) if excuse else None)
            return fn

        # SegmentFetcher
        stopped = lambda op, l, rr: op == "false" and l == "self._running"     # a stopped fetcher has no use for the event
        handler(FETCH + ".add_shares", self_loop, "scheduling SegmentFetcher.loop", stopped)
        f = handler(FETCH + ".no_more_shares", self_loop, "scheduling SegmentFetcher.loop")
        _must_pass(r, f, _stores_const("self._no_more_shares", True), "recording _no_more_shares = True")
        handler(FETCH + "._block_request_activity", self_loop, "scheduling SegmentFetcher.loop",
                lambda op, l, rr: op == "false" and l == "self._running")
        f = idx.func(FETCH + "._ask_for_more_shares")
        handler(FETCH + "._ask_for_more_shares", _calls(f, "self._node.want_more_shares"), "asking the node for more shares",
                lambda op, l, rr: op == "truth" and l == "self._no_more_shares")
        f = idx.func(FETCH + "._start_share")
        handler(FETCH + "._start_share", lambda n: any(
            call_tail(c) == "subscribe" and c.args and attr_path(c.args[0]) == "self._block_request_activity"
            for c in node_calls(n)), "subscribing _block_request_activity to the block request")
        _must_pass(r, f, lambda n: any(call_tail(c) == "get_block" and c.args and attr_path(c.args[0]) == "self.segnum"
                                       for c in node_calls(n)), "requesting the block of this segment (get_block(self.segnum))")
        # ShareFinder
        f = handler(FINDER + ".hungry", self_loop, "scheduling ShareFinder.loop")
        _must_pass(r, f, _stores_const("self._hungry", True), "recording _hungry = True")
        handler(FINDER + ".overdue", self_loop, "scheduling ShareFinder.loop")
        f = idx.func(FINDER + "._got_response")
        p0 = first_positional_params(f)[0]
        handler(FINDER + "._got_response", _calls(f, "self._deliver_shares"), "delivering the shares found",
                lambda op, l, rr, _p=p0: op == "false" and l == _p)
        handler(FINDER + "._deliver_shares", _schedules(lambda p: p.endswith(".got_shares")), "handing the shares to the node")
        sr = idx.func(FINDER + ".send_request")
        chain = [x for x in registrations(sr) if x.recv == _deferred_var(sr, "get_buckets")]
        r.site(sr, None, "chain " + " ".join(map(repr, chain)))

        def is_loop_wake(x):
            t, a = _effective(x)
            return attr_path(t) == "eventually" and a and attr_path(a[0]) == "self.loop"
        iw = [i for i, x in enumerate(chain) if is_loop_wake(x)]
        if not iw:
            r.violation(sr, sr.loc(), "the DYHB Deferred no longer reschedules ShareFinder.loop when the answer arrives")
        else:
            r.require(_always_runs(sr, chain, iw[-1]), sr, sr.loc(chain[iw[-1]].call),
                      "the loop wake-up (%r) does not run when the query or its handler failed: with the last "
                      "request failing nobody restarts the finder" % chain[iw[-1]])
            r.require(iw[-1] == len(chain) - 1 or all(x.kind == "eb" for x in chain[iw[-1] + 1:]), sr, sr.loc(chain[iw[-1]].call),
                      "callbacks are registered after the loop wake-up")
            ih = [i for i, x in enumerate(chain) if attr_path(x.target) == "self._got_response"]
            r.require(bool(ih) and ih[0] < iw[-1], sr, sr.loc(chain[iw[-1]].call),
                      "the finder loop is woken before _got_response handled the answer")
        # DownloadNode
        f = idx.func(NODE + ".got_shares")
        idle = lambda op, l, rr: (op == "false" and l == "self._active_segment") or \
            (op in ("is", "==") and {l, rr} == {"None", "self._active_segment"})
        handler(NODE + ".got_shares", _calls(f, "self._active_segment.add_shares"), "passing the shares to the active fetcher", idle)
        _must_pass(r, f, _records_shares, "remembering the shares for later segments")
        f = idx.func(NODE + ".no_more_shares")
        handler(NODE + ".no_more_shares", _calls(f, "self._active_segment.no_more_shares"),
                "telling the active fetcher that no more shares will come", idle)
        f = idx.func(NODE + ".want_more_shares")
        handler(NODE + ".want_more_shares", _calls(f, "self._sharefinder.hungry"), "making the ShareFinder hungry")
        # Share
        f = idx.func(SHARE + ".get_block")
        handler(SHARE + ".get_block", lambda n, _f=f: _calls(_f, "self.schedule_loop")(n) or self_loop(n), "scheduling Share.loop")
        handler(SHARE + ".schedule_loop", self_loop, "scheduling Share.loop",
                lambda op, l, rr: op == "truth" and l == "self._loop_scheduled")
        f = idx.func(SHARE + "._trigger_loop")
        handler(SHARE + "._trigger_loop", lambda n, _f=f: _calls(_f, "self.schedule_loop")(n) or self_loop(n), "scheduling Share.loop",
                lambda op, l, rr: op == "false" and l == "self._alive")
        lp = idx.func(SHARE + ".loop")
        r.site(lp, None, "re-arms schedule_loop")
        rearm = _stores_const("self._loop_scheduled", False)
        if not lp.cfg().find(_calls(lp, "self._do_loop")):
            raise AnchorVanished("Share.loop no longer calls _do_loop")
        for (n, w) in find_path_avoiding(lp.cfg(), _calls(lp, "self._do_loop"), gate_node=rearm):
            r.violation(lp, lp.loc(n.ast), "Share._do_loop can run with _loop_scheduled still set: schedule_loop() then "
                        "never schedules the loop again and every later wake-up of this share is lost (path: %s)" % w.brief(), w)
        sq = idx.func(SHARE + "._send_requests")
        chain = [x for x in registrations(sq) if x.recv == _deferred_var(sq, "_send_request")]
        r.site(sq, None, "chain " + " ".join(map(repr, chain)))
        it = [i for i, x in enumerate(chain) if attr_path(x.target) == "self._trigger_loop"]
        ig = [i for i, x in enumerate(chain) if attr_path(x.target) == "self._got_data"]
        ie = [i for i, x in enumerate(chain) if attr_path(x.target) == "self._got_error"]
        if not ig:
            raise AnchorVanished("_send_requests no longer registers _got_data")
        if not it:
            r.violation(sq, sq.loc(), "the read Deferred no longer triggers Share.loop when data arrives")
        else:
            r.require(ig[0] < it[0], sq, sq.loc(chain[it[0]].call), "Share.loop is triggered before _got_data recorded the data")
        r.require(bool(ie) and ie[0] > ig[0] and chain[ie[0]].kind in ("eb", "both"), sq, sq.loc(),
                  "_got_error is not an errback behind _got_data: a failed read (or a failing _got_data) no longer "
                  "abandons the share, whose observers wait for ever")

    # -- 2. per-state bookkeeping -------------------------------------------
    with ctx.rule("C03.2", "R3", "_block_request_activity per share state: terminal states leave the share in neither the "
                  "active nor the overdue map, COMPLETE stores the block, OVERDUE moves the share to the overdue map",
                  expected=5) as r:
        fn = idx.func(FETCH + "._block_request_activity")
        ps = first_positional_params(fn)
        for need in ("share", "shnum", "state"):
            if need not in ps:
                raise AnchorVanished("_block_request_activity lost its %s parameter" % need)
        cfg = fn.cfg()

        def names_of(s):
            return set(re.findall(r"[A-Za-z_]\w*", s or ""))

        def consistent(f, X):
            op, l, rr = f
            if op in ("is", "==", "is not", "!=") and "state" in (l, rr):
                other = rr if l == "state" else l
                if other in states:
                    return (other == X) if op in ("is", "==") else (other != X)
            if op in ("in", "not in") and l == "state":
                ns = names_of(rr)
                if ns and ns <= states:
                    return (X in ns) if op == "in" else (X not in ns)
            return True

        def nothing_to_remove(f):
            op, l, rr = f
            if op in ("is not", "!=") and {l, rr} == {"self._active_share_map.get(shnum)", "share"}:
                return True
            return op == "not in" and l == "shnum" and rr == "self._active_share_map"

        summaries = {}

        class Body:
            """One function read in the handler's vocabulary (share / shnum / state).  The handler itself is read as it
            stands; a helper method self.<helper>(..) it calls is read with its parameters renamed to the handler's
            arguments (so `del self._active_share_map[num]` in the helper counts only when `num` is bound to shnum), and
            contributes at the call the effects it performs on EVERY normal path consistent with the reported state."""
            def __init__(self, f, rename, depth):
                self.f, self.depth = f, depth
                self.cfg = f.cfg()
                self.fx = FlowNorm(f, rename=rename) if rename is not None else _fnorm(f)

            def callee_name(self, n, c):
                try:
                    t = self.fx.norm(n, c.func)
                except Exception:
                    t = None
                return t if t and re.match(r"^[\w.]+$", t) else call_name(c)

            def args_are(self, n, c, *want):
                return len(c.args) >= len(want) and all(self.fx.norm(n, a) == w for a, w in zip(c.args, want))

            def effects(self, n, X):
                out = set()
                a = n.ast
                if n.kind == "stmt" and isinstance(a, ast.Delete):
                    for t in a.targets:
                        if isinstance(t, ast.Subscript) and attr_path(t.value) == "self._active_share_map" \
                                and self.fx.norm(n, t.slice) == "shnum":
                            out.add("active-")
                for c in node_calls(n):
                    nm = self.callee_name(n, c)
                    if nm == "self._active_share_map.pop" and self.args_are(n, c, "shnum"):
                        out.add("active-")
                    if nm in ("self._overdue_share_map.discard", "self._overdue_share_map.remove") \
                            and self.args_are(n, c, "shnum", "share"):
                        out.add("overdue-")
                    if nm == "self._overdue_share_map.add" and self.args_are(n, c, "shnum", "share"):
                        out.add("overdue+")
                    out |= self.helper_effects(n, c, X)
                if "self._blocks[]" in node_stores(n):
                    # only the handler itself is trusted with the block store (the value is checked nowhere either)
                    if self.f is fn:
                        out.add("block")
                return out

            def helper_effects(self, n, c, X):
                if self.depth <= 0 or not isinstance(c.func, ast.Attribute) or attr_path(c.func.value) != "self":
                    return set()
                h = self.f.cls.lookup(c.func.attr) if self.f.cls is not None else None
                if h is None or h is fn or h is self.f or any(isinstance(a, ast.Starred) for a in c.args) \
                        or any(k.arg is None for k in c.keywords):
                    return set()
                if any(isinstance(x, (ast.Yield, ast.YieldFrom, ast.Await)) for x in func_own_nodes(h)) \
                        or isinstance(h.node, ast.AsyncFunctionDef) or h.node.decorator_list:
                    return set()
                ps = first_positional_params(h)
                bound = {}
                for prm, a in zip(ps, c.args):
                    bound[prm] = a
                for k in c.keywords:
                    if k.arg in ps and k.arg not in bound:
                        bound[k.arg] = k.value
                rename = {}
                for prm, a in bound.items():
                    t = self.fx.norm(n, a)
                    if re.match(r"^[A-Za-z_]\w*$", t or ""):
                        rename[prm] = t
                # a local or unbound parameter of the helper must not be mistaken for the handler's share / shnum / state
                shadow = {"share", "shnum", "state"}
                hstores = set()
                for hn in h.cfg().nodes:
                    if hn.kind not in ("entry", "exit", "raise"):
                        hstores |= {t for t in node_stores(hn) if re.match(r"^[A-Za-z_]\w*$", t)}
                if hstores & set(rename):
                    return set()                         # the helper re-binds a parameter
                for nm in (set(h.params) | hstores) - set(rename):
                    if nm in shadow:
                        rename[nm] = "<local %s of %s>" % (nm, h.name)
                key = (h.qual, tuple(sorted(rename.items())), X)
                if key not in summaries:
                    summaries[key] = frozenset()         # recursion guard
                    b = Body(h, rename, self.depth - 1)
                    ends = b.ends(X)
                    summaries[key] = frozenset.intersection(*ends) if ends else frozenset()
                return set(summaries[key])

            def ends(self, X):
                top = self.f is fn

                def transfer(n, lab, nxt, st):
                    if n.kind in ("entry", "exit", "raise"):
                        return st
                    if lab == "exc":
                        return st
                    f = self.fx.edge_fact(n, lab)
                    if f:
                        if (top and f == ("false", "self._running", None)) or not consistent(f, X):
                            return None
                        if nothing_to_remove(f):
                            st = st | {"active-"}
                    e = self.effects(n, X)
                    return st | frozenset(e) if e else st
                self.visited, self.parent = explore(self.cfg, frozenset(), transfer)
                return [st for (nid, st) in self.visited if nid == self.cfg.exit.id]

        for X in TERMINAL + ("OVERDUE",):
            need = {"active-", "overdue-"} if X in TERMINAL else {"active-", "overdue+"}
            if X == "COMPLETE":
                need = need | {"block"}
            top = Body(fn, None, 2)
            ends = top.ends(X)
            visited, parent = top.visited, top.parent
            r.count(len(visited))
            r.site(fn, None, "state " + X)
            if not ends:
                raise AnalysisError("no path of _block_request_activity is consistent with state %s" % X)
            words = {"active-": "removing it from _active_share_map", "overdue-": "discarding it from _overdue_share_map",
                     "overdue+": "adding it to _overdue_share_map", "block": "storing the validated block"}
            why = {"active-": "the loop keeps counting the request as outstanding and never asks another share",
                   "overdue-": "the k-count of the no-more-shares test keeps counting a finished share and the read never fails",
                   "overdue+": "the no-more-shares test forgets a slow share and reports not-enough-shares while it may still answer",
                   "block": "the block is lost and the segment can never reach k blocks"}
            reported = set()
            for st in ends:
                for m in sorted(need - st):
                    if m in reported:
                        continue
                    reported.add(m)
                    w = witness(cfg, parent, (cfg.exit.id, st))
                    r.violation(fn, fn.loc(), "a share reporting %s can be handled without %s: %s (path: %s)" % (
                        X, words[m], why[m], w.brief()), w)

    # -- 3. abandonment -----------------------------------------------------
    with ctx.rule("C03.3", "R1", "Share._fail clears _alive and notifies DEAD to every observer of every requested block; "
                  "Share.loop's handlers and _got_error call _fail; CORRUPT / BADSEGNUM reach every observer", expected=5) as r:
        fl = idx.func(SHARE + "._fail")
        r.site(fl, None, "DEAD to all observers")
        _must_pass(r, fl, _stores_const("self._alive", False), "clearing _alive")

        notifies, observer_loops = _notifies, _observer_loops

        outer = [h for h in fl.cfg().nodes if h.kind == "iter" and attr_path(h.ast.iter) == "self._requested_blocks"]
        if not outer:
            r.violation(fl, fl.loc(), "_fail no longer walks _requested_blocks: observers of a dead share are never told")
        for oh in outer:
            t = oh.ast.target
            obs = t.elts[1].id if isinstance(t, (ast.Tuple, ast.List)) and len(t.elts) == 2 and isinstance(t.elts[1], ast.Name) else None
            inner = [h for h in observer_loops(fl, obs, {"DEAD"}) if obs] if obs else []
            r.require(bool(inner), fl, fl.loc(oh.ast), "no `for o in observers: o.notify(state=DEAD ..)` inside the walk over "
                      "_requested_blocks")
            _must_pass(r, fl, lambda n, _h=oh: n is _h, "walking over every requested block")
            for ws in [_loop_body_must_pass(fl, oh, lambda n, _i=inner: n in _i)]:
                for w in ws:
                    r.violation(fl, fl.loc(oh.ast), "a requested block can be skipped without notifying its observers (path: %s)" % w.brief(), w)
            for ih in inner:
                for w in _loop_body_must_pass(fl, ih, notifies({"DEAD"})):
                    r.violation(fl, fl.loc(ih.ast), "an observer can be skipped without the DEAD notification (path: %s)" % w.brief(), w)

        lp = idx.func(SHARE + ".loop")
        cfg = lp.cfg()
        calls = cfg.find(_calls(lp, "self._do_loop"))
        if not calls:
            raise AnchorVanished("Share.loop no longer calls _do_loop")
        fails = _calls(lp, "self._fail")
        for n in calls:
            r.site(lp, n.ast, "handlers abandon the share")
            handlers = [cfg.nodes[d] for (d, l) in cfg.succ[n.id] if l == "exc" and cfg.nodes[d].kind == "except"]
            catch_all = [h for h in handlers if h.ast.type is None or
                         (attr_path(h.ast.type) or "").split(".")[-1] in ("BaseException", "Exception")]
            r.require(bool(catch_all), lp, lp.loc(n.ast), "an unexpected exception of Share._do_loop is not turned into "
                      "_fail(): the fetcher keeps waiting for this share instead of using another one")
            for h in handlers:
                ws, k, _v, _p = _unexcused(lp, fails, start=h, ends=("exit", "raise"))
                r.count(k)
                for w in ws:
                    r.violation(lp, lp.loc(h.ast), "handler `%s` of Share.loop can finish without _fail(): the share's "
                                "observers are never told that it is unusable (path: %s)" % (repr(h)[1:-1], w.brief()), w)
        ge = idx.func(SHARE + "._got_error")
        r.site(ge, None, "read error abandons the share")
        _must_pass(r, ge, _calls(ge, "self._fail"), "calling _fail()")

        sd = idx.func(SHARE + "._satisfy_data_block")
        obsparam = first_positional_params(sd)[1]
        cfg = sd.cfg()
        hs = [h for h in cfg.nodes if h.kind == "except"]
        if not hs:
            raise AnchorVanished("_satisfy_data_block has no hash-failure handler")
        bad_states = {"CORRUPT", "DEAD"}
        for h in hs:
            r.site(sd, h.ast, "hash failure reaches every observer")
            loops = observer_loops(sd, obsparam, bad_states)
            ws, k, _v, _p = _unexcused(sd, lambda n, _l=loops: n in _l, start=h, ends=("exit",))
            r.count(k)
            for w in ws:
                r.violation(sd, sd.loc(h.ast), "a block hash failure can be handled without telling the observers "
                            "(CORRUPT): the fetcher keeps waiting for this block (path: %s)" % w.brief(), w)
            for lh in loops:
                for w in _loop_body_must_pass(sd, lh, notifies(bad_states)):
                    r.violation(sd, sd.loc(lh.ast), "an observer can be skipped without the CORRUPT notification", w)
        gs = idx.func(SHARE + "._get_satisfaction")
        loops = observer_loops(gs, None, {"BADSEGNUM"})
        r.site(gs, None, "BADSEGNUM reaches every observer")
        r.require(bool(loops), gs, gs.loc(), "_get_satisfaction no longer notifies BADSEGNUM for a segment beyond the end: "
                  "the fetcher waits for a block that does not exist")
        for lh in loops:
            for w in _loop_body_must_pass(gs, lh, notifies({"BADSEGNUM"})):
                r.violation(gs, gs.loc(lh.ast), "an observer can be skipped without the BADSEGNUM notification", w)

    # -- 4. the not-enough-shares verdict -----------------------------------
    with ctx.rule("C03.4", "R1/R4", "_no_shares_error only under _no_more_shares and a k-count over blocks, active and overdue "
                  "shares; no_more_shares is announced only by the finder, with no server left and no request in flight",
                  expected=4) as r:
        dl = idx.func(FETCH + "._do_loop")
        cfg = dl.cfg()
        fx = _fnorm(dl)
        target = _calls(dl, "self._no_shares_error")
        tn = cfg.find(target)
        if not tn:
            raise AnchorVanished("_do_loop no longer calls _no_shares_error")
        for n in tn:
            r.site(dl, n.ast, "verdict")

        def exhausted(n, lab):
            return fx.edge_fact(n, lab) == ("truth", "self._no_more_shares", None)

        def too_few(n, lab):
            f = fx.edge_fact(n, lab)
            if not f or f[0] != "<" or f[2] != "self._k":
                return False
            m = re.match(r"^len\((.*)\)$", f[1])
            return bool(m) and all(("self.%s" % a) in m.group(1) for a in ("_blocks", "_active_share_map", "_overdue_share_map"))
        for (n, w) in find_path_avoiding(cfg, target, gate_edge=exhausted):
            r.violation(dl, dl.loc(n.ast), "the read is failed while the finder may still deliver shares "
                        "(no `_no_more_shares` on path: %s)" % w.brief(), w)
        for (n, w) in find_path_avoiding(cfg, target, gate_edge=too_few):
            r.violation(dl, dl.loc(n.ast), "the read is failed without checking that blocks + active + overdue shares are "
                        "fewer than k: a late (overdue) good share is given up (path: %s)" % w.brief(), w)
        r.count(len(cfg.nodes))
        bad, badrefs, total = callers_outside(idx, "_no_shares_error", [FETCH + "._do_loop"])
        for cs in bad:
            r.violation(cs.fn, cs.loc, "%s calls _no_shares_error outside the gate in _do_loop" % short(cs.fn))
        for (f, nd) in badrefs:
            r.violation(f, f.loc(nd), "%s uses _no_shares_error as a value" % short(f))

        cg = get_callgraph(idx)
        n_st = 0
        for (f, nd) in cg.attr_stores("_no_more_shares"):
            if f.cls is None or f.cls.name != "SegmentFetcher":
                continue
            n_st += 1
            if f.name == "__init__":
                continue
            if f.qual != "allmydata." + FETCH + ".no_more_shares":
                r.violation(f, f.loc(nd), "%s sets _no_more_shares outside no_more_shares()" % short(f))
        r.site("stores of SegmentFetcher._no_more_shares: %d" % n_st)
        if n_st < 2:
            raise AnchorVanished("stores of SegmentFetcher._no_more_shares not found")
        bad, badrefs, total = callers_outside(idx, "no_more_shares", [NODE + ".no_more_shares", FINDER + ".loop"])
        r.site("callers of no_more_shares: %d" % total)
        if total < 2:
            raise AnchorVanished("announcers of no_more_shares not found")
        for cs in bad:
            r.violation(cs.fn, cs.loc, "%s announces no_more_shares" % short(cs.fn))
        for (f, nd) in badrefs:
            r.violation(f, f.loc(nd), "%s announces no_more_shares" % short(f))

        fl = idx.func(FINDER + ".loop")
        cfg = fl.cfg()
        fx2 = _fnorm(fl)
        ann = _schedules(lambda p: p.endswith(".no_more_shares"))
        an = cfg.find(ann)
        if not an:
            raise AnchorVanished("ShareFinder.loop no longer announces no_more_shares")
        for n in an:
            r.site(fl, n.ast, "announcement")
        idle = lambda n, lab: fx2.edge_fact(n, lab) == ("false", "self.pending_requests", None)
        for (n, w) in find_path_avoiding(cfg, ann, gate_edge=idle):
            r.violation(fl, fl.loc(n.ast), "no_more_shares is announced while DYHB requests may still be in flight (a late "
                        "server's shares are given up) (path: %s)" % w.brief(), w)
        sends = [c for n in cfg.find(_calls(fl, "self.send_request")) for c in node_calls(n) if call_tail(c) == "send_request"]
        if not sends or not sends[0].args or attr_path(sends[0].args[0]) is None:
            raise AnchorVanished("ShareFinder.loop no longer calls send_request(<server>)")
        srv = attr_path(sends[0].args[0])
        raw = N()            # the test as written: `server` itself, not the helper call it was bound to

        def no_server(n, lab):
            forms = (("false", srv, None), ("is", "None", srv), ("is", srv, "None"))
            if fx2.edge_fact(n, lab) in forms:
                return True
            # a server variable bound once (server = self._next_server()) is read through to its definition by the
            # flow facts; the None / false edge of a test on the variable itself says the same thing
            if n.kind == "test" and isinstance(lab, tuple) and len(lab) == 2 and lab[0] in ("T", "F") and isinstance(lab[1], ast.AST):
                try:
                    return raw.cmp(lab[1], lab[0] == "T") in forms
                except Exception:
                    return False
            return False
        def binds_none(n):       # `server = None`: the pass has no server from here on
            v = assign_value(n, srv) if srv in node_stores(n) else None
            return n.kind == "stmt" and isinstance(n.ast, ast.Assign) and isinstance(v, ast.Constant) and v.value is None
        for (n, w) in find_path_avoiding(cfg, ann, gate_edge=no_server, gate_node=binds_none,
                                         kill=lambda n: stores(srv)(n) and not binds_none(n)):
            r.violation(fl, fl.loc(n.ast), "no_more_shares is announced on a pass that obtained a server to query "
                        "(path: %s)" % w.brief(), w)
        # the server variable is falsy only when the iterator is exhausted: its only definitions are None and next(..)
        for n in cfg.find(stores(srv)):
            v = assign_value(n, srv)
            ok = _server_or_none(fl, v)
            r.require(ok, fl, fl.loc(n.ast), "`%s` is bound to %s: a pass that did not take the next server can look like an "
                      "exhausted server list" % (srv, src(fl, v)))

    # -- 5. diversity escalation --------------------------------------------
    with ctx.rule("C03.5", "R1", "_do_loop: want_more_diversity raises _max_shares_per_server and retries; "
                  "_find_and_use_share flags every share skipped for the per-server limit", expected=2) as r:
        dl = idx.func(FETCH + "._do_loop")
        cfg = dl.cfg()
        fx = _fnorm(dl)
        tests = [n for n in cfg.nodes if n.kind == "test" and any(
            (fx.edge_fact(n, l) or ("",))[0] == "truth" and re.search(r"_find_and_use_share\(\)\[1\]$", fx.edge_fact(n, l)[1] or "")
            for (_d, l) in cfg.succ[n.id] if isinstance(l, tuple) and l[0] == "T")]
        if not tests:
            raise AnchorVanished("_do_loop no longer tests want_more_diversity")

        def raises_limit(n):
            a = n.ast
            if n.kind != "stmt" or "self._max_shares_per_server" not in node_stores(n):
                return False
            if isinstance(a, ast.AugAssign):
                return isinstance(a.op, ast.Add) and isinstance(a.value, ast.Constant) and isinstance(a.value.value, int) and a.value.value > 0
            v = assign_value(n, "self._max_shares_per_server")
            return v is not None and re.match(r"^\(?[1-9]\d* \+ self\._max_shares_per_server\)?$", fx.norm(n, v) or "") is not None
        dom = _dominators(cfg)
        for t in tests:
            r.site(dl, t.ast, "escalation")
            for (d, l) in cfg.succ[t.id]:
                if not (isinstance(l, tuple) and l[0] == "T"):
                    continue

                def transfer(n, lab, nxt, st, _t=t):
                    if lab == "exc" or st in ("R0", "R1"):
                        return None
                    if st == 0 and raises_limit(n):
                        st = 1
                    if nxt.id in dom.get(n.id, ()) and nxt.id in dom.get(_t.id, ()):
                        return "R%d" % st          # back edge of the loop around the test: a retry
                    return st
                visited, parent = explore(cfg, 0, transfer, start=cfg.nodes[d])
                r.count(len(visited))
                for (nid, st) in sorted(visited, key=repr):
                    if cfg.nodes[nid].kind == "exit":
                        w = witness(cfg, parent, (nid, st))
                        r.violation(dl, dl.loc(t.ast), "with every usable share behind the per-server limit _do_loop returns "
                                    "instead of retrying with a higher limit: k shares on one server are never all "
                                    "fetched (path: %s)" % w.brief(), w)
                        break
                for (nid, st) in sorted(visited, key=repr):
                    if st == "R0":
                        w = witness(cfg, parent, (nid, st))
                        r.violation(dl, dl.loc(t.ast), "_do_loop retries without raising _max_shares_per_server: the same "
                                    "shares are skipped again, for ever (path: %s)" % w.brief(), w)
                        break
                if not any(st == "R1" for (_n, st) in visited):
                    r.violation(dl, dl.loc(t.ast), "the want_more_diversity branch never loops back to try again")

        fu = idx.func(FETCH + "._find_and_use_share")
        cfg = fu.cfg()
        fx = _fnorm(fu)
        rets = [e for e in (_ret_expr(fu, n) for n in cfg.nodes if is_return(n)) if isinstance(e, ast.Tuple) and len(e.elts) == 2]
        if not rets or not all(isinstance(e.elts[1], ast.Name) for e in rets):
            raise AnchorVanished("_find_and_use_share no longer returns (sent_something, want_more_diversity)")
        flag = rets[0].elts[1].id
        limit_tests = []
        for n in cfg.nodes:
            if n.kind != "test":
                continue
            for (d, l) in cfg.succ[n.id]:
                f = fx.edge_fact(n, l) if isinstance(l, tuple) else None
                if f and f[0] in ("<=", "<") and f[1] == "self._max_shares_per_server" and f[2] and f[2].startswith("len("):
                    limit_tests.append((n, d))
        if not limit_tests:
            raise AnchorVanished("_find_and_use_share no longer compares with _max_shares_per_server")
        heads = [h for h in cfg.nodes if h.kind == "iter"]
        for (t, d) in limit_tests:
            r.site(fu, t.ast, "limit skip is flagged")

            def transfer(n, lab, nxt, st):
                if lab == "exc" or _stores_const(flag, True)(n):
                    return None
                if n in heads or is_return(n):
                    return None
                return 0
            visited, parent = explore(cfg, 0, transfer, start=cfg.nodes[d])
            for (nid, st) in sorted(visited):
                n = cfg.nodes[nid]
                if n in heads or is_return(n) or n.kind == "exit":
                    w = witness(cfg, parent, (nid, st))
                    r.violation(fu, fu.loc(t.ast), "a share skipped because of the per-server limit is not reported as "
                                "want_more_diversity: _do_loop then waits instead of raising the limit (path: %s)" % w.brief(), w)
                    break


def _server_or_none(fn, v, depth=2):
    """The value is None or the next server of self._servers - directly, or as the result of a helper method
    self.<helper>() every return of which is one of the two (a helper that falls off its end returns None)."""
    if v is None:
        return False
    if isinstance(v, ast.Constant):
        return v.value is None
    if not isinstance(v, ast.Call):
        return False
    if call_tail(v) == "next" and isinstance(v.func, ast.Name):
        return bool(v.args) and attr_path(v.args[0]) == "self._servers" and not v.keywords and \
            (len(v.args) == 1 or (len(v.args) == 2 and isinstance(v.args[1], ast.Constant) and v.args[1].value is None))
    if depth <= 0 or not isinstance(v.func, ast.Attribute) or attr_path(v.func.value) != "self" or v.args or v.keywords \
            or fn.cls is None:
        return False
    h = fn.cls.lookup(v.func.attr)
    if h is None or h is fn or h.node.decorator_list or isinstance(h.node, ast.AsyncFunctionDef) \
            or any(isinstance(x, (ast.Yield, ast.YieldFrom, ast.Await)) for x in func_own_nodes(h)):
        return False
    rets = [n for n in h.cfg().nodes if is_return(n)]
    if not rets:
        return False
    for n in rets:
        if n.ast.value is None:
            continue
        e = _ret_expr(h, n)
        if isinstance(e, ast.Name):
            # a variable with several definitions: every store of it in the helper must qualify
            sts = h.cfg().find(stores(e.id))
            if not sts or not all(_server_or_none(h, assign_value(m, e.id), depth - 1) for m in sts):
                return False
        elif not _server_or_none(h, e, depth - 1):
            return False
    return True


def _reaches_when(fn, target, forbidden):
    """(some `target` node is reachable from the entry on normal edges whose fact does not satisfy `forbidden`,
    number of states)."""
    cfg = fn.cfg()
    fx = _fnorm(fn)

    def transfer(n, lab, nxt, st):
        if lab == "exc":
            return None
        f = fx.edge_fact(n, lab)
        if f and forbidden(*f):
            return None
        return 0
    visited, _parent = explore(cfg, 0, transfer)
    return any(target(cfg.nodes[nid]) for (nid, _st) in visited), len(visited)


def _on_path(fn, p):
    """Method calls / stores on the attribute path `p`: (node) -> list of (method name, call)."""
    def calls(n):
        return [(c.func.attr, c) for c in node_calls(n) if isinstance(c.func, ast.Attribute) and attr_path(c.func.value) == p]
    return calls


def _reads(name):
    def p(n):
        return any(isinstance(x, ast.Name) and x.id == name and isinstance(x.ctx, ast.Load)
                   for e in node_exprs(n) for x in ast.walk(e))
    return p


def _rule_hand_over(ctx: Context):
    """C03.7: the success path.  Every hand-over of a share, a request or a block between finder, node, fetcher
    and share really transfers it; a request is retired exactly when its observers were told."""
    idx = ctx.idx
    with ctx.rule("C03.7", "R2", "shares, block requests and blocks are really handed over: add_shares keeps the shares, "
                  "_got_response delivers the shares it created, get_block registers the observer it returns, "
                  "_find_and_use_share starts / records / removes / reports the share it picks, a block request is "
                  "retired exactly when its observers were notified, _do_loop asks for more shares before it waits, and "
                  "the loops run for a live share / running fetcher / hungry finder", expected=11) as r:
        GROW = ("extend", "append", "add", "update", "insert")

        # (a) SegmentFetcher.add_shares keeps what it is given
        fn = idx.func(FETCH + ".add_shares")
        par = first_positional_params(fn)[0]
        on_shares = _on_path(fn, "self._shares")

        def keeps(n, _fn=fn, _p=par):
            if n.kind == "iter":     # `for s in shares: self._shares.append(s)`: every iteration keeps its share
                return _p in depends_on(_fn, n.ast.iter) and bool(_fn.cfg().find(lambda m: m is not n and m.kind != "iter" and keeps(m))) \
                    and not _loop_body_must_pass(_fn, n, lambda m: m.kind != "iter" and keeps(m))
            for (m, c) in on_shares(n):
                if m in GROW and any(_p in depends_on(_fn, a) for a in c.args):
                    return True
            a = n.ast
            return n.kind == "stmt" and "self._shares" in node_stores(n) and isinstance(a, (ast.Assign, ast.AugAssign, ast.AnnAssign)) \
                and a.value is not None and _p in depends_on(_fn, a.value)
        r.site(fn, None, "keeps the shares")
        _must_pass(r, fn, keeps, "adding `%s` to self._shares: the shares found are dropped and never requested" % par,
                   _fact_excuse(fn, lambda op, l, rr: op == "false" and l == "self._running"))

        # (b) ShareFinder._got_response delivers the shares made from the buckets of the answer
        fn = idx.func(FINDER + "._got_response")
        p0 = first_positional_params(fn)[0]
        dcalls = [c for n in fn.cfg().find(_calls(fn, "self._deliver_shares")) for c in node_calls(n)
                  if call_tail(c) == "_deliver_shares"]
        if not dcalls:
            raise AnchorVanished("_got_response no longer calls _deliver_shares")
        for c in dcalls:
            r.site(fn, c, "delivers the created shares")
            a0 = arg(c, 0)
            made = [x for x in (calls_feeding(fn, a0) if a0 is not None else []) if call_tail(x) == "_create_share"]
            r.require(bool(made), fn, fn.loc(c), "the shares passed to _deliver_shares (%s) do not come from _create_share: the "
                      "shares a server reports are never handed to the fetcher" % (src(fn, a0) if a0 is not None else "nothing"))
            for x in made:
                r.require(any(p0 in depends_on(fn, a) for a in list(x.args) + [k.value for k in x.keywords]), fn, fn.loc(x),
                          "_create_share(..) is not fed from the buckets of the answer (`%s`)" % p0)

        # (c) Share.get_block registers the observer it returns, and makes it cancellable
        fn = idx.func(SHARE + ".get_block")
        cfg = fn.cfg()
        rets = [_ret_expr(fn, n, stop_at_name=True) for n in cfg.find(is_return)]
        onames = {e.id for e in rets if isinstance(e, ast.Name)}
        if not rets or len(onames) != 1 or not all(isinstance(e, ast.Name) for e in rets):
            raise AnchorVanished("Share.get_block no longer returns its observer variable")
        ob = onames.pop()
        on_req = _on_path(fn, "self._requested_blocks")

        def registers(n, _fn=fn, _o=ob):
            for (m, c) in on_req(n):
                if m in GROW and any(_o in depends_on(_fn, a) for a in c.args):
                    return True
            for c in node_calls(n):
                if isinstance(c.func, ast.Attribute) and c.func.attr in ("add", "append") and isinstance(c.func.value, ast.Name) \
                        and any(attr_path(a) == _o for a in c.args) \
                        and "self._requested_blocks" in depends_on(_fn, c.func.value):
                    return True
            a = n.ast
            return n.kind == "stmt" and ({"self._requested_blocks", "self._requested_blocks[]"} & node_stores(n)) \
                and isinstance(a, (ast.Assign, ast.AugAssign)) and _o in depends_on(_fn, a.value)
        r.site(fn, None, "registers observer `%s`" % ob)
        _must_pass_flags(r, fn, registers, "entering the observer `%s` into self._requested_blocks: the share never fetches the "
                   "block and the fetcher waits for ever" % ob)

        def cancellable(n, _fn=fn, _o=ob):
            for c in node_calls(n):
                if call_tail(c) == "set_canceler" and attr_path(c.func.value) == _o and len(c.args) >= 2 \
                        and attr_path(c.args[0]) == "self" and isinstance(c.args[1], ast.Constant) \
                        and isinstance(c.args[1].value, str) and _fn.cls.lookup(c.args[1].value) is not None:
                    return True
            return False
        r.site(fn, None, "observer is cancellable")
        _must_pass(r, fn, cancellable, "%s.set_canceler(self, <name of a Share method>): SegmentFetcher.stop() cancels the "
                   "outstanding requests, so a read that runs out of shares dies in stop() instead of reporting "
                   "not-enough-shares" % ob)

        # (d) a block request is retired exactly when its observers were told
        def retires(n):
            for c in node_calls(n):
                if isinstance(c.func, ast.Attribute) and c.func.attr in ("pop", "remove") \
                        and attr_path(c.func.value) == "self._requested_blocks":
                    return True
            return n.kind == "stmt" and bool({"self._requested_blocks", "self._requested_blocks[]"} & node_stores(n))
        sd = idx.func(SHARE + "._satisfy_data_block")
        obsparam = first_positional_params(sd)[1]
        gs = idx.func(SHARE + "._get_satisfaction")
        told = {"COMPLETE", "CORRUPT", "DEAD", "BADSEGNUM"}
        for (f, over) in ((sd, obsparam), (gs, None)):
            cfg = f.cfg()
            loops = _observer_loops(f, over, told)
            r.site(f, None, "notified <=> retired")
            if not loops:
                raise AnchorVanished("%s no longer notifies its observers" % short(f))
            rn = cfg.find(retires)
            if not rn:
                r.violation(f, f.loc(), "%s no longer retires the block request it answered (self._requested_blocks.pop): the "
                            "share stays on this segment and never serves a later one" % short(f))
            for (n, w) in find_path_avoiding(cfg, retires, gate_node=lambda x, _l=loops: x in _l):
                r.violation(f, f.loc(n.ast), "a block request is retired although its observers were told nothing: the fetcher "
                            "waits for this share for ever (path: %s)" % w.brief(), w)
            for h in loops:
                ws, k, _v, _p = _unexcused(f, retires, start=h, ends=("exit",))
                r.count(k)
                for w in ws:
                    r.violation(f, f.loc(h.ast), "the observers are told but the request stays at the head of _requested_blocks: "
                                "the share fetches and reports this block again and again and never serves another "
                                "segment (path: %s)" % w.brief(), w)
        done = _observer_loops(sd, obsparam, {"COMPLETE"})
        r.require(bool(done), sd, sd.loc(), "_satisfy_data_block no longer notifies COMPLETE to its observers: a validated block "
                  "is never delivered and the segment cannot reach k blocks")
        for h in done:
            def gives_block(n):
                return any(call_tail(c) == "notify" and kwarg(c, "block") is not None and _notifies({"COMPLETE"})(n)
                           for c in node_calls(n))
            for w in _loop_body_must_pass(sd, h, gives_block):
                r.violation(sd, sd.loc(h.ast), "an observer can be skipped without the COMPLETE notification carrying the block "
                            "(path: %s)" % w.brief(), w)

        # (e) SegmentFetcher._find_and_use_share: the share it picks is started, recorded as active, taken out of
        # the unused list and reported as sent
        fu = idx.func(FETCH + "._find_and_use_share")
        cfg = fu.cfg()
        fx = _fnorm(fu)
        rets = [e for e in (_ret_expr(fu, n) for n in cfg.nodes if is_return(n)) if isinstance(e, ast.Tuple) and len(e.elts) == 2]
        if not rets or not all(isinstance(e.elts[0], ast.Name) for e in rets):
            raise AnchorVanished("_find_and_use_share no longer returns (sent_something, want_more_diversity)")
        sent = rets[0].elts[0].id
        starts = [c for n in cfg.find(_calls(fu, "self._start_share")) for c in node_calls(n) if call_tail(c) == "_start_share"]
        if not starts or not all(c.args and attr_path(c.args[0]) for c in starts):
            r.violation(fu, fu.loc(), "_find_and_use_share no longer starts (self._start_share(share, ..)) the share it picks")
        else:
            sv = attr_path(starts[0].args[0])
            r.site(fu, starts[0], "picked share `%s`" % sv)
            on_unused = _on_path(fu, "self._shares")

            def facts(n):
                out = set()
                if any(call_tail(c) == "_start_share" and c.args and attr_path(c.args[0]) == sv for c in node_calls(n)):
                    out.add("start")
                if "self._active_share_map[]" in node_stores(n):
                    v = n.ast.value if isinstance(n.ast, ast.Assign) else None
                    if v is not None and (attr_path(v) == sv or fx.norm(n, v) == sv):
                        out.add("active")
                if any(m in ("remove", "pop") for (m, _c) in on_unused(n)) or \
                        (n.kind == "stmt" and {"self._shares", "self._shares[]"} & node_stores(n)):
                    out.add("removed")
                if _stores_const(sent, True)(n):
                    out.add("flag")
                return out

            def transfer(n, lab, nxt, st):
                if lab == "exc":
                    return None
                if n.kind in ("entry", "exit", "raise"):
                    return st
                e = facts(n)
                return st | frozenset(e) if e else st
            visited, parent = explore(cfg, frozenset(), transfer)
            r.count(len(visited))
            words = {"start": "requesting its block (self._start_share): the fetcher counts a request that was never made "
                              "and waits for ever",
                     "active": "recording it in _active_share_map: the request in flight is not counted, so the "
                               "no-more-shares test reports not-enough-shares while the block is on its way",
                     "removed": "removing it from the unused list self._shares: after CORRUPT / DEAD the same share is picked "
                                "again, and a dead share never answers",
                     "flag": "reporting it (`%s = True`): _do_loop takes the pass for fruitless and, once the finder is "
                             "done, fails the read with unused shares left" % sent}
            reported = set()
            for (nid, st) in sorted(visited, key=lambda x: (x[0], sorted(x[1]))):
                if nid != cfg.exit.id or not (st & {"start", "active"}):
                    continue
                for m in sorted(set(words) - st):
                    if m in reported:
                        continue
                    reported.add(m)
                    w = witness(cfg, parent, (nid, st))
                    r.violation(fu, fu.loc(starts[0]), "_find_and_use_share can pick share `%s` without %s (path: %s)" % (
                        sv, words[m], w.brief()), w)

        # (f) SegmentFetcher._do_loop asks for more shares before it settles down to wait with fewer than k
        dl = idx.func(FETCH + "._do_loop")
        cfg = dl.cfg()
        fx = _fnorm(dl)
        def hungry_edge(n, lab):
            f = fx.edge_fact(n, lab)
            return bool(f) and f[0] in ("<", "<=") and f[2] == "self._k" and f[1].startswith("len(") \
                and all(("self.%s" % a) in f[1] for a in ("_blocks", "_active_share_map"))

        def on_cycle(n):
            for (d, l) in cfg.succ[n.id]:
                if hungry_edge(n, l):
                    vis, _par = explore(cfg, 0, lambda m, lab, nxt, st: None if lab == "exc" else 0, start=cfg.nodes[d])
                    if (n.id, 0) in vis:
                        return True
            return False
        heads = [n for n in cfg.nodes if n.kind == "test" and on_cycle(n)]
        if not heads:
            raise AnchorVanished("_do_loop no longer loops while blocks + active shares are fewer than k")
        asks = lambda n: _calls(dl, "self._ask_for_more_shares", "self._node.want_more_shares", "self._no_shares_error")(n)
        for h in heads:
            r.site(dl, h.ast, "asks before waiting")
            for (d, l) in cfg.succ[h.id]:
                if not hungry_edge(h, l):
                    continue

                def transfer(n, lab, nxt, st, _h=h):
                    if lab == "exc" or n is _h or asks(n):
                        return None
                    if fx.edge_fact(n, lab) in (("false", "True", None), ("truth", "False", None)):
                        return None     # the exit edge of `while True:` is never taken
                    return 0
                visited, parent = explore(cfg, 0, transfer, start=cfg.nodes[d])
                r.count(len(visited))
                if (cfg.exit.id, 0) in visited:
                    w = witness(cfg, parent, (cfg.exit.id, 0))
                    r.violation(dl, dl.loc(h.ast), "_do_loop can return with fewer than k blocks and requests and without asking "
                                "for more shares (_ask_for_more_shares): the finder is never made hungry again and the "
                                "remaining servers are never queried (path: %s)" % w.brief(), w)

        # (g) the loops do their work for a live share / a running fetcher / a running, hungry finder
        for (qual, target, flags, what) in (
                (SHARE + ".loop", "self._do_loop", ("self._alive",), "a live share"),
                (FETCH + "._do_loop", "self._find_and_use_share", ("self._running",), "a running fetcher"),
                (FINDER + ".loop", "self.send_request", ("self.running", "self._hungry"), "a running, hungry finder")):
            f = idx.func(qual)
            if not f.cfg().find(_calls(f, target)):
                raise AnchorVanished("%s no longer calls %s" % (short(f), target))
            r.site(f, None, "reaches %s for %s" % (target, what))
            ok, k = _reaches_when(f, _calls(f, target), lambda op, l, rr, _fl=flags: op == "false" and l in _fl)
            r.count(k)
            r.require(ok, f, f.loc(), "%s reaches %s only when %s is false: for %s it does nothing, so no request is ever "
                      "sent" % (short(f), target, " / ".join(flags), what))


def _rule_request_accounting(ctx: Context):
    """C03.8: `pending_requests` is the premise of the no_more_shares gate (C03.4): it must hold exactly the DYHB
    queries in flight, whatever their outcome."""
    idx = ctx.idx
    with ctx.rule("C03.8", "R2", "ShareFinder.pending_requests holds exactly the queries in flight: send_request enters the "
                  "token, the DYHB Deferred retires it on success and failure, _request_retired removes it, overdue() marks "
                  "it; the server variable of ShareFinder.loop is bound on every path", expected=5) as r:
        sr = idx.func(FINDER + ".send_request")
        chain = [x for x in registrations(sr) if x.recv == _deferred_var(sr, "get_buckets")]
        r.site(sr, None, "chain retires the request")
        ir = [i for i, x in enumerate(chain) if attr_path(_effective(x)[0]) == "self._request_retired"]
        tok = None
        if not ir:
            r.violation(sr, sr.loc(), "the DYHB Deferred no longer retires the request (self._request_retired): "
                        "pending_requests never empties, the finder never announces no_more_shares and a read with too few "
                        "shares never fails")
        else:
            x = chain[ir[0]]
            r.require(_always_runs(sr, chain, ir[0]), sr, sr.loc(x.call), "the request is retired (%r) only when the query "
                      "succeeded: a server that errors or disconnects stays in pending_requests for ever, so no_more_shares is "
                      "never announced and a read with too few shares never fails" % x)
            a = _effective(x)[1]
            tok = attr_path(a[0]) if a else None
            if tok is None:
                raise AnchorVanished("_request_retired is no longer registered with the request token")
        if tok is not None:
            on_pending = _on_path(sr, "self.pending_requests")
            r.site(sr, None, "token `%s` enters pending_requests" % tok)
            _must_pass(r, sr, lambda n: any(m == "add" and c.args and attr_path(c.args[0]) == tok for (m, c) in on_pending(n)),
                       "entering the request token `%s` into pending_requests: the finder can announce no_more_shares while "
                       "this query is in flight, and the shares of a late server are given up" % tok)
        rr = idx.func(FINDER + "._request_retired")
        p = first_positional_params(rr)[0]
        on_pending = _on_path(rr, "self.pending_requests")
        r.site(rr, None, "removes the token")
        _must_pass(r, rr, lambda n: any(m in ("discard", "remove") and c.args and attr_path(c.args[0]) == p for (m, c) in on_pending(n))
                   or (n.kind == "stmt" and "self.pending_requests" in node_stores(n)),
                   "removing `%s` from pending_requests: no_more_shares is never announced" % p,
                   _fact_excuse(rr, lambda op, l, x, _p=p: op == "not in" and l == _p and x == "self.pending_requests"))
        od = idx.func(FINDER + ".overdue")
        p = first_positional_params(od)[0]
        on_overdue = _on_path(od, "self.overdue_requests")
        r.site(od, None, "marks the request overdue")
        _must_pass(r, od, lambda n: any(m == "add" and c.args and attr_path(c.args[0]) == p for (m, c) in on_overdue(n)),
                   "marking `%s` overdue (self.overdue_requests.add): a slow server keeps its query slot, and with "
                   "max_outstanding_requests slow servers the remaining ones are not asked until one of them answers" % p)
        fl = idx.func(FINDER + ".loop")
        cfg = fl.cfg()
        sends = [c for n in cfg.find(_calls(fl, "self.send_request")) for c in node_calls(n) if call_tail(c) == "send_request"]
        if not sends or not sends[0].args or not isinstance(sends[0].args[0], ast.Name):
            raise AnchorVanished("ShareFinder.loop no longer calls send_request(<server variable>)")
        srv = sends[0].args[0].id
        r.site(fl, sends[0], "`%s` is bound on every path" % srv)
        if srv not in fl.params:
            for (n, w) in find_path_avoiding(cfg, _reads(srv), gate_node=stores(srv)):
                r.violation(fl, fl.loc(n.ast), "`%s` is read but not bound on a path (%s): once the server list is exhausted the "
                            "loop dies with UnboundLocalError before it can announce no_more_shares, and a read with too "
                            "few shares never fails" % (srv, w.brief()), w)
                break


def _rule_alive_filter(ctx: Context):
    """C03.6: a share that has died never reports back (Share.loop returns at once when not alive), so a
    fetcher that is handed a dead share keeps it in its active map and waits forever.  Every share list
    given to a *new* SegmentFetcher must therefore be filtered by is_alive()."""
    idx = ctx.idx
    with ctx.rule("C03.6", "R3", "_start_new_segment hands the new SegmentFetcher only shares that are alive "
                  "(a dead share never answers get_block)", expected=2) as r:
        fn = idx.func("immutable.downloader.node:DownloadNode._start_new_segment")
        cfg = fn.cfg()
        rd = C.reaching_defs(cfg)
        adds = [n for n in cfg.stmt_nodes() if calls_at(n, "add_shares")]
        if not adds:
            raise AnchorVanished("_start_new_segment no longer calls add_shares on the new fetcher")
        # premise: a dead share's loop returns without doing (or notifying) anything
        sl0 = idx.func("immutable.downloader.share:Share.loop")
        sn = FlowNorm(sl0)
        silent_when_dead = False
        for t in sl0.cfg().find(lambda x: x.kind == "test"):
            for (d, lab) in sl0.cfg().succ[t.id]:
                f = sn.edge_fact(t, lab)
                if f and f[0] == "false" and f[1] == "self._alive":
                    nxt = sl0.cfg().nodes[d]
                    if is_return(nxt) or nxt.kind == "exit":
                        silent_when_dead = True
        if not silent_when_dead:
            ctx.note("C03.6: Share.loop no longer returns silently for a dead share; the is_alive() filter is not required")
            r.site(sl0, None, "premise absent: filter not required")
            r.site(sl0, None, "premise absent")
            return
        for n in adds:
            c = calls_at(n, "add_shares")[0]
            r.site(fn, c, "add_shares")
            a0 = arg(c, 0)
            e = a0
            if isinstance(a0, ast.Name):
                ds = rd.get(n.id, {}).get(a0.id, frozenset())
                vals = [assign_value(cfg.nodes[d], a0.id) for d in ds if d >= 0]
                e = vals[0] if len(vals) == 1 else None
            ok = False
            if isinstance(e, (ast.ListComp, ast.GeneratorExp, ast.SetComp)) and len(e.generators) == 1:
                g = e.generators[0]
                tgt = attr_path(g.target)
                ok = attr_path(e.elt) == tgt and any(
                    N(fn).cmp(cond, True) == ("truth", "%s.is_alive()" % tgt, None) for cond in g.ifs)
            elif isinstance(e, ast.Call) and call_tail(e) == "filter" and len(e.args) == 2:
                f0 = e.args[0]
                ok = isinstance(f0, ast.Lambda) and N(fn).cmp(f0.body, True) == ("truth", "%s.is_alive()" % f0.args.args[0].arg, None)
            r.require(ok, fn, fn.loc(c), "the new fetcher is given %s, which is not filtered by is_alive(): a share that died "
                      "during an earlier segment would be requested again and never answer, so the read hangs although "
                      "k live shares exist" % src(fn, a0))
        # the premise: a dead share's loop does nothing (so the filter is what keeps the fetcher from waiting on it)
        sl = idx.func("immutable.downloader.share:Share.loop")
        r.site(sl, None, "premise: Share.loop returns early when not alive")
        ia = idx.func("immutable.downloader.share:Share.is_alive")
        rets = [n for n in ia.cfg().find(is_return)]
        ian = _fnorm(ia)

        def reports_alive(n):
            v = n.ast.value
            if v is None:
                return False
            try:
                s = ian.norm(n, v)
            except Exception:
                s = None
            return "self._alive" in leaves(v) or bool(s and re.search(r"\bself\._alive\b", s)) \
                or "self._alive" in depends_on(ia, v)
        r.require(bool(rets) and all(reports_alive(n) for n in rets), ia, ia.loc(),
                  "is_alive() no longer reports the _alive flag cleared by _fail()")


HASHTREE_SET = "hashtree:IncompleteHashTree.set_hashes"


def _rule_rejection_isolated(ctx: Context):
    """C03.9: the share-hash tree and the ciphertext-hash tree belong to the DownloadNode and are shared by all
    shares.  A corrupt share offers a hash chain that is rejected; if the rejected call leaves anything behind
    (an offered hash, a parent computed from it) the intact shares under that node are rejected afterwards and
    the read fails with k good shares.  So a rejecting set_hashes must leave the tree exactly as it found it.
    The pairing store / journal and the exception coverage of the handler are decided by C35.1 / C35.2 and adopted
    as C03.9.1 / C03.9.2; here: the premise, the existence of the rollback and that it undoes every journaled
    index on every path to its re-raise."""
    idx = ctx.idx
    no_rollback = False
    with ctx.rule("C03.9", "R10", "a hash chain rejected by IncompleteHashTree.set_hashes leaves the tree as it was: the "
                  "DownloadNode's shared share-hash / ciphertext-hash trees are fed share-supplied chains, so the rejection "
                  "handler resets every index the call stored, for every journaled index, on every path to its re-raise",
                  expected=3) as r:
        # premise: share-supplied hashes reach trees that outlive the share
        fed = 0
        for name in ("process_share_hashes", "process_ciphertext_hashes"):
            f = idx.func(NODE + "." + name)
            p0 = first_positional_params(f)[0]
            for n in f.cfg().nodes:
                for c in node_calls(n):
                    tree = attr_path(c.func.value) if isinstance(c.func, ast.Attribute) else None
                    if call_tail(c) != "set_hashes" or not tree or not tree.startswith("self."):
                        continue
                    if not any(p0 in depends_on(f, a) for a in list(c.args) + [k.value for k in c.keywords]):
                        continue
                    vals = [x.value for g in f.cls.methods.values() for x in func_own_nodes(g)
                            if isinstance(x, ast.Assign) and any(attr_path(t) == tree for t in x.targets)]
                    if not any(isinstance(v, ast.Call) and call_tail(v) == "IncompleteHashTree" for v in vals):
                        continue
                    fed += 1
                    r.site(f, c, "share-supplied hashes go into the node's %s" % tree)
        if not fed:
            raise AnchorVanished("DownloadNode no longer feeds share-supplied hashes into its IncompleteHashTrees through set_hashes")

        sh = idx.func(HASHTREE_SET)
        cfg = sh.cfg()

        def tree_store(n, none):
            if n.kind != "stmt" or not isinstance(n.ast, ast.Assign) or "self[]" not in node_stores(n):
                return False
            v = n.ast.value
            return (isinstance(v, ast.Constant) and v.value is None) == none
        fills = cfg.find(lambda n: tree_store(n, False))
        rejections = cfg.find(is_raise)
        if not fills or not rejections:
            raise AnchorVanished("set_hashes no longer stores hashes into the tree / no longer rejects an offer")
        resets = lambda n: tree_store(n, True)
        handlers = [h for h in cfg.nodes if h.kind == "except"]
        undoing = []
        for h in handlers:
            vis, _par = explore(cfg, 0, lambda n, lab, nxt, st: 0, start=h)
            if any(resets(cfg.nodes[i]) for (i, _s) in vis):
                undoing.append(h)
        if not undoing:
            no_rollback = True
            r.site(sh, None, "no rollback")
            r.violation(sh, sh.loc(fills[0].ast), "set_hashes stores offered / derived hashes into the tree (%s) and can reject the "
                        "offer afterwards, but no exception handler takes them out again (self[i] = None): the rejected chain "
                        "of one corrupt share stays in the DownloadNode's shared hash tree, and every intact share below "
                        "the poisoned node is rejected too, so the read fails although k good shares exist" % src(sh, fills[0].ast))
        for h in undoing:
            r.site(sh, h.ast, "rollback handler")
            loops = []
            for lh in cfg.nodes:
                if lh.kind != "iter" or not isinstance(lh.ast.target, ast.Name):
                    continue
                body = [m for st in lh.ast.body for m in own_nodes(st)]
                if any(isinstance(m, ast.Assign) and isinstance(m.value, ast.Constant) and m.value.value is None
                       and any(isinstance(t, ast.Subscript) and attr_path(t.value) == "self" and lh.ast.target.id in
                               {x.id for x in ast.walk(t.slice) if isinstance(x, ast.Name)} for t in m.targets) for m in body):
                    loops.append(lh)
            ws, k, _v, _p = _unexcused(sh, lambda n, _l=loops: n in _l, start=h, ends=("exit", "raise"))
            r.count(k)
            for w in ws:
                r.violation(sh, sh.loc(h.ast), "the rejection handler of set_hashes can finish without walking the journal of "
                            "stored indices (path: %s): the hashes of the rejected chain stay in the shared tree" % w.brief(), w)
            hreach = {i for (i, _s) in explore(cfg, 0, lambda n, lab, nxt, st: 0, start=h)[0]}
            journals = {x.id for lh in loops for x in ast.walk(lh.ast.iter) if isinstance(x, ast.Name)}
            for n in cfg.nodes:
                if n.id in hreach or n.kind in ("entry", "exit", "raise"):
                    continue
                for c in node_calls(n):
                    if isinstance(c.func, ast.Attribute) and attr_path(c.func.value) in journals and c.func.attr in (
                            "discard", "remove", "pop", "clear", "difference_update", "intersection_update",
                            "symmetric_difference_update") and any(
                                is_raise(cfg.nodes[i]) and i not in hreach for (i, _s) in
                                explore(cfg, 0, lambda m, lab, nxt, st: None if lab == "exc" else 0, start=n)[0]):
                        r.violation(sh, sh.loc(c), "set_hashes takes entries out of its rollback journal (%s) before the offer has "
                                    "been accepted: a hash stored by this call and forgotten here survives a later rejection "
                                    "of the same chain and poisons the shared tree" % src(sh, c))
            for lh in loops:
                for w in _loop_body_must_pass(sh, lh, resets):
                    r.violation(sh, sh.loc(lh.ast), "the rollback loop of set_hashes can skip a journaled index without resetting "
                                "it to None (path: %s): part of a rejected chain (for example a parent computed from a corrupt "
                                "leaf) stays in the DownloadNode's shared hash tree and intact shares below it are rejected" %
                                w.brief(), w)
    # the pairing of every store with its journal entry, and the exception classes the handler covers: C35's rules
    try:
        ctx.include("C35", ["C35.1", "C35.2"], "C03.9")
    except AnchorVanished:
        if not no_rollback:      # a rollback exists but C35 cannot read it: undecided, fail closed
            raise


def _stopped_state(idx):
    """Attribute paths of SegmentFetcher (`self.x`) that stop() deletes or sets to None: a method that reads one of
    them on a stopped fetcher raises AttributeError (or fails on None)."""
    st = idx.func(FETCH + ".stop")
    dead = set()
    for n in st.cfg().nodes:
        if n.kind != "stmt":
            continue
        a = n.ast
        ts = []
        if isinstance(a, ast.Delete):
            ts = list(a.targets)
        elif isinstance(a, ast.Assign) and isinstance(a.value, ast.Constant) and a.value.value is None:
            ts = list(a.targets)
        while ts:
            t = ts.pop()
            if isinstance(t, (ast.Tuple, ast.List)):
                ts.extend(t.elts)
                continue
            p = attr_path(t)
            if p and p.startswith("self.") and isinstance(t, ast.Attribute):
                dead.add(p)
    return st, dead


def _dead_reads(n, dead):
    return sorted({attr_path(x) for e in node_exprs(n) for x in own_nodes(e)
                   if isinstance(x, ast.Attribute) and isinstance(x.ctx, ast.Load) and attr_path(x) in dead})


def _running_edge(fn):
    fx = _fnorm(fn)

    def p(n, lab):
        f = fx.edge_fact(n, lab)
        return bool(f) and ((f[0] == "truth" and f[1] == "self._running") or
                            (f[0] in ("is", "==") and {f[1], f[2]} == {"True", "self._running"}))
    return p


def _when_stopped(fn, dead):
    """What `fn` (a SegmentFetcher method) does on a stopped fetcher, on the paths that do not pass a
    `self._running` test: (first read of a deleted attribute or None, whether eventually(self.loop) is reached
    without such a read)."""
    cfg = fn.cfg()
    running = _running_edge(fn)
    wake = _schedules(lambda p: p == "self.loop")
    found = {"read": None, "wakes": False}

    def transfer(n, lab, nxt, st):
        if lab == "exc" or running(n, lab):
            return None
        if n.kind not in ("entry", "exit", "raise"):
            rd = _dead_reads(n, dead)
            if rd:
                if found["read"] is None:
                    found["read"] = (n, rd[0])
                return None
            if wake(n):
                found["wakes"] = True
        return 0
    explore(cfg, 0, transfer)
    return found["read"], found["wakes"]


def _stale_fetcher_sites(idx):
    """[(fetcher method, call, node method)]: a SegmentFetcher method calls self.stop() and then reports to
    self._node.M(..), and DownloadNode.M can return without re-binding self._active_segment - the node keeps pointing at
    a stopped fetcher (in the unchanged code: process_blocks, until the segment has been decoded in the thread pool)."""
    fcls = idx.cls(FETCH)
    ncls = idx.cls(NODE)
    out, seen = [], 0
    for f in fcls.methods.values():
        cfg = f.cfg()
        stops = cfg.find(_calls(f, "self.stop"))
        if not stops:
            continue
        after = set()
        for s in stops:
            vis, _par = explore(cfg, 0, lambda n, lab, nxt, st: None if lab == "exc" else 0, start=s)
            after |= {i for (i, _s) in vis if i != s.id}
        for i in sorted(after):
            n = cfg.nodes[i]
            for c in node_calls(n):
                nm = _cn(f, n, c)
                if not nm.startswith("self._node.") or nm.count(".") != 2:
                    continue
                g = ncls.lookup(nm.rsplit(".", 1)[1])
                if g is None:
                    continue
                seen += 1
                ws, _k, _v, _p = _unexcused(g, stores("self._active_segment"))
                if ws:
                    out.append((f, c, g))
    if not seen:
        raise AnchorVanished("no SegmentFetcher method stops itself and then reports to its node: cannot decide whether the "
                             "node can hold a stopped fetcher")
    return out


def _records_shares(n):
    return any(call_name(c) in ("self._shares.update", "self._shares.add") for c in node_calls(n)) \
        or "self._shares" in node_stores(n)


def _rule_stopped_fetcher(ctx: Context):
    """C03.10 / C03.11: the node keeps `_active_segment` pointing at a fetcher that has stopped for as long as its
    segment is being decoded.  Events of the finder that arrive in that window are still forwarded to it."""
    idx = ctx.idx
    _stop, dead = _stopped_state(idx)
    fcls = idx.cls(FETCH)
    stale = _stale_fetcher_sites(idx)
    why_stale = ""
    if stale:
        f0, _c0, g0 = stale[0]
        why_stale = "%s stops the fetcher and calls %s, which leaves _active_segment pointing at it" % (short(f0), short(g0))

    with ctx.rule("C03.10", "R2", "DownloadNode.got_shares records the shares in self._shares before (or whatever the outcome "
                  "of) the hand-over to the active fetcher: add_shares raises on a fetcher that has stopped, and the node "
                  "still points at one while its segment is decoded", expected=2) as r:
        gs = idx.func(NODE + ".got_shares")
        cfg = gs.cfg()
        if not stale or not dead:
            ctx.note("C03.10: the node cannot hold a stopped fetcher whose state is gone; the order of got_shares is free")
            r.site(gs, None, "premise absent: %s" % ("stop() deletes nothing" if stale else "no stale fetcher"))
            r.site(gs, None, "premise absent")
        else:
            r.site(stale[0][0], stale[0][1], "premise: " + why_stale)
            risky = {}
            for n in cfg.nodes:
                for c in node_calls(n):
                    nm = _cn(gs, n, c)
                    if not nm.startswith("self._active_segment.") or nm.count(".") != 2:
                        continue
                    g = fcls.lookup(nm.rsplit(".", 1)[1])
                    rd = _when_stopped(g, dead)[0] if g is not None else None
                    if rd is None:
                        r.site(gs, c, "%s cannot raise on a stopped fetcher" % nm)
                        continue
                    r.site(gs, c, "%s raises on a stopped fetcher (reads %s, deleted by stop())" % (nm, rd[1]))
                    risky[n.id] = (c, nm, rd[1])
            # which handlers take the AttributeError of the hand-over
            allowed = set()
            for nid in risky:
                for (d, l) in cfg.succ[nid]:
                    if l != "exc":
                        continue
                    dn = cfg.nodes[d]
                    if dn.kind == "except":
                        m = C._default_exc_match("AttributeError", dn.ast.type)
                        if m is False:
                            continue
                        allowed.add((nid, d))
                        if m is True:
                            break
                    else:
                        allowed.add((nid, d))

            def transfer(n, lab, nxt, st):
                if n.kind in ("entry", "exit", "raise"):
                    return st
                if _records_shares(n):       # also in the copy of a `finally` body that an exception passes through
                    return None
                if lab == "exc":
                    if st == "X":
                        return "X"
                    return "X" if (n.id, nxt.id) in allowed else None
                return st
            visited, parent = explore(cfg, 0, transfer)
            r.count(len(visited))
            tail = ("the node still points at a fetcher that has stopped while its segment is decoded (%s), and shares "
                    "found in that window are never remembered: once the servers used so far fail, later segments cannot "
                    "be fetched although k intact shares are on servers that answered" % why_stale)
            for nid in sorted(risky):
                c, nm, attr = risky[nid]
                if (nid, 0) in visited and not any(a == nid for (a, _d) in allowed):
                    w = witness(cfg, parent, (nid, 0))
                    r.violation(gs, gs.loc(c), "got_shares calls %s before it has recorded the shares in self._shares; on a "
                                "stopped fetcher that call raises (stop() deletes %s) and got_shares is left before the "
                                "recording: %s (path: %s)" % (nm, attr, tail, w.brief()), w)
            for end in (cfg.exit, cfg.raise_exit):
                if (end.id, "X") in visited:
                    w = witness(cfg, parent, (end.id, "X"))
                    r.violation(gs, gs.loc(), "got_shares can finish after a failed hand-over to a stopped fetcher without "
                                "recording the shares in self._shares: %s (path: %s)" % (tail, w.brief()), w)

    with ctx.rule("C03.11", "R3", "SegmentFetcher._do_loop does nothing for a stopped fetcher: the node forwards "
                  "no_more_shares to the stopped fetcher it still points at, that wakes the loop, and an exception there "
                  "is reported as fetch_failed for a segment whose blocks were all fetched", expected=2) as r:
        dl = idx.func(FETCH + "._do_loop")
        lp = idx.func(FETCH + ".loop")
        ncls = idx.cls(NODE)
        # which fetcher methods the node calls on _active_segment, and which of them wake the loop of a stopped fetcher
        wakers = []
        for g in ncls.methods.values():
            for n in g.cfg().nodes:
                for c in node_calls(n):
                    nm = _cn(g, n, c)
                    if nm.startswith("self._active_segment.") and nm.count(".") == 2 and not nm.endswith(".stop"):
                        m = fcls.lookup(nm.rsplit(".", 1)[1])
                        if m is not None and _when_stopped(m, dead)[1]:
                            wakers.append((g, c, m))
        reports = bool(lp.cfg().find(_calls(lp, "self._node.fetch_failed")))
        if not stale or not wakers or not reports:
            ctx.note("C03.11: a stopped fetcher's loop is never woken / its failure never reaches the node")
            r.site(dl, None, "premise absent")
            r.site(dl, None, "premise absent")
        else:
            g, c, m = wakers[0]
            r.site(g, c, "premise: %s; %s forwards to %s, which schedules the loop without looking at _running" % (
                why_stale, short(g), short(m)))
            cfg = dl.cfg()

            def harmful(n):
                if n.kind in ("entry", "exit", "raise"):
                    return None
                rd = _dead_reads(n, dead)
                if rd:
                    return "reads %s, which stop() deleted" % rd[0]
                for cc in node_calls(n):
                    nm = _cn(dl, n, cc)
                    if nm in ("self._node.fetch_failed", "self._node.process_blocks"):
                        return "calls %s a second time" % nm
                    if nm.startswith("self.") and nm.count(".") == 1:
                        h = fcls.lookup(nm.split(".")[1])
                        if h is not None and h.name != "stop" and _when_stopped(h, dead)[0] is not None:
                            return "calls %s, which reads %s deleted by stop()" % (nm, _when_stopped(h, dead)[0][1])
                return None
            targets = [n for n in cfg.nodes if harmful(n)]
            if not targets:
                raise AnchorVanished("_do_loop touches nothing that stop() invalidates")
            r.site(dl, None, "%d statements need a running fetcher" % len(targets))
            bad = find_path_avoiding(cfg, lambda n: n in targets, gate_edge=_running_edge(dl))
            r.count(len(cfg.nodes))
            if bad:
                # the test may sit in front of the call instead
                callers = [cs for cs in get_callgraph(idx).calls_named("_do_loop") if cs.fn.cls is fcls]
                outer_ok = bool(callers)
                for cs in callers:
                    ccfg = cs.fn.cfg()
                    if find_path_avoiding(ccfg, lambda n, _c=cs.call: any(x is _c for x in node_calls(n)),
                                          gate_edge=_running_edge(cs.fn)):
                        outer_ok = False
                if not outer_ok:
                    n, w = sorted(bad, key=lambda x: (harmful(x[0]).startswith("calls self._node."), x[0].id))[0]
                    r.violation(dl, dl.loc(n.ast), "_do_loop can reach `%s` (%s) without having tested self._running: %s; when the "
                                "finder reports no_more_shares in that window the stopped fetcher's loop runs, raises, and "
                                "SegmentFetcher.loop reports fetch_failed for the segment that is being decoded - the read fails "
                                "although k good blocks were fetched (path: %s)" % (src(dl, n.ast)[:60], harmful(n), why_stale,
                                                                                    w.brief()), w)


UNUSED = "self._shares"
SHARE_MAPS = ("self._active_share_map", "self._overdue_share_map")
BLOCKS = "self._blocks"
SHRINKERS = ("remove", "pop", "popitem", "popleft", "clear", "discard", "difference_update", "intersection_update",
             "symmetric_difference_update", "__delitem__")
COPIERS = ("sorted", "list", "dict", "set", "copy", "reversed", "DictOfSets")


def _class_funcs(ci):
    out, todo = [], list(ci.methods.values())
    while todo:
        f = todo.pop()
        out.append(f)
        todo.extend(f.nested.values())
    return sorted(out, key=lambda f: f.qual)


def _shrink_ops(fn, tracked):
    """[(cfg node, container path, kind, ast of the operation, payload)] for every operation of `fn` that can take
    entries out of one of the `tracked` containers.  kind: 'elem' (payload: (key expressions, bound name or None)),
    'all' (clear / del of the container / slice delete), 'rebind' (payload: the new value, None when it cannot be seen)."""
    fx = _fnorm(fn)
    out = []
    for n in fn.cfg().nodes:
        if n.kind in ("entry", "exit", "raise"):
            continue
        a = n.ast
        for c in node_calls(n):
            nm = _cn(fn, n, c)
            if "." not in nm:
                continue
            recv, meth = nm.rsplit(".", 1)
            if recv not in tracked or meth not in SHRINKERS:
                continue
            if meth in ("clear", "popitem", "popleft", "intersection_update", "difference_update", "symmetric_difference_update"):
                out.append((n, recv, "all", c, None))
            else:
                bound = None
                if meth == "pop" and n.kind == "stmt" and isinstance(a, ast.Assign) and a.value is c and len(a.targets) == 1 \
                        and isinstance(a.targets[0], ast.Name):
                    bound = a.targets[0].id
                out.append((n, recv, "elem", c, (list(c.args), bound)))
        if n.kind != "stmt":
            continue
        if isinstance(a, ast.Delete):
            ts = list(a.targets)
            while ts:
                t = ts.pop()
                if isinstance(t, (ast.Tuple, ast.List)):
                    ts.extend(t.elts)
                elif isinstance(t, ast.Subscript):
                    p = attr_path(fx.resolve(n, t.value)) if isinstance(t.value, ast.Name) else attr_path(t.value)
                    if p in tracked:
                        if isinstance(t.slice, ast.Slice):
                            out.append((n, p, "all", t, None))
                        else:
                            out.append((n, p, "elem", t, ([t.slice], None)))
                elif attr_path(t) in tracked:
                    out.append((n, attr_path(t), "all", t, None))
        elif isinstance(a, (ast.Assign, ast.AnnAssign)):
            for p in sorted(node_stores(n)):
                if p in tracked:
                    out.append((n, p, "rebind", a, assign_value(n, p)))
                elif p.endswith("[]") and p[:-2] in tracked:
                    for t in (a.targets if isinstance(a, ast.Assign) else [a.target]):
                        if isinstance(t, ast.Subscript) and attr_path(t.value) == p[:-2] and isinstance(t.slice, ast.Slice):
                            out.append((n, p[:-2], "rebind", a, a.value))
        elif isinstance(a, ast.AugAssign) and attr_path(a.target) in tracked and not isinstance(a.op, (ast.Add, ast.BitOr)):
            out.append((n, attr_path(a.target), "rebind", a, None))
    return out


def _keeps_all(fn, n, e, p, depth=6):
    """The value `e` holds every entry of the container `p` (a copy, a sorted copy, a concatenation with more)."""
    if depth <= 0 or e is None:
        return False
    if isinstance(e, ast.Name):
        e2 = _fnorm(fn).resolve(n, e)
        return e2 is not e and _keeps_all(fn, n, e2, p, depth - 1)
    if attr_path(e) == p:
        return True
    if isinstance(e, ast.BinOp) and isinstance(e.op, (ast.Add, ast.BitOr)):
        return _keeps_all(fn, n, e.left, p, depth - 1) or _keeps_all(fn, n, e.right, p, depth - 1)
    if isinstance(e, ast.Call) and call_tail(e) in COPIERS:
        if isinstance(e.func, ast.Attribute) and e.func.attr == "copy":
            return _keeps_all(fn, n, e.func.value, p, depth - 1)
        return bool(e.args) and _keeps_all(fn, n, e.args[0], p, depth - 1)
    if isinstance(e, (ast.List, ast.Tuple, ast.Set)):
        return any(isinstance(x, ast.Starred) and _keeps_all(fn, n, x.value, p, depth - 1) for x in e.elts)
    if isinstance(e, (ast.ListComp, ast.SetComp, ast.GeneratorExp)) and len(e.generators) == 1:
        g = e.generators[0]
        return not g.ifs and attr_path(e.elt) is not None and attr_path(e.elt) == attr_path(g.target) \
            and _keeps_all(fn, n, g.iter, p, depth - 1)
    return False


def _all_but(fn, n, e, p):
    """`e` is the container `p` without the single element named x (`[s for s in p if s is not x]`): x, else None."""
    if isinstance(e, ast.Name):
        e = _fnorm(fn).resolve(n, e)
    if isinstance(e, ast.Call) and call_tail(e) in ("list", "sorted") and e.args:
        e = e.args[0]
    if not (isinstance(e, (ast.ListComp, ast.GeneratorExp)) and len(e.generators) == 1):
        return None
    g = e.generators[0]
    tv = attr_path(g.target)
    if tv is None or attr_path(e.elt) != tv or not g.ifs or not _keeps_all(fn, n, g.iter, p):
        return None
    xs = set()
    for cond in g.ifs:
        f = N(fn).cmp(cond, True)
        if not f or f[0] not in ("is not", "!=") or tv not in (f[1], f[2]):
            return None
        other = f[2] if f[1] == tv else f[1]
        if not other or not re.match(r"^[A-Za-z_]\w*$", other) or other == "None":
            return None
        xs.add(other)
    return xs.pop() if len(xs) == 1 else None


def _stops_fetcher(fn):
    return lambda q: _stores_const("self._running", False)(q) or _calls(fn, "self.stop")(q)


def _outside_stop(fn, n):
    """Witness of a normal path through node n of `fn` that neither stops the fetcher nor runs on a stopped one."""
    cfg = fn.cfg()
    stops = _stops_fetcher(fn)
    fx = _fnorm(fn)

    def transfer(q, lab, nxt, st):
        if lab == "exc":
            return None
        if q.kind in ("entry", "exit", "raise"):
            return st
        passed, stopped = st
        if fx.edge_fact(q, lab) == ("false", "self._running", None):
            stopped = True
        return (passed or q is n, stopped or stops(q))
    visited, parent = explore(cfg, (False, False), transfer)
    key = (cfg.exit.id, (True, False))
    return witness(cfg, parent, key) if key in visited else None


def _not_started(fn, n, x):
    """Witness of a path on which the share named `x`, taken out of the unused list at node n, is not handed to
    _start_share (neither before the removal nor between the removal and the return / the next binding of x)."""
    cfg = fn.cfg()
    fx = _fnorm(fn)

    def starts(q):
        return any(call_tail(c) == "_start_share" and c.args and (attr_path(c.args[0]) == x or fx.norm(q, c.args[0]) == x)
                   for c in node_calls(q))

    def has_block(q, lab):       # a share whose block we already hold is of no use to this segment
        f = fx.edge_fact(q, lab)
        return bool(f) and f[0] == "in" and f[2] == BLOCKS and f[1] == x + "._shnum"
    before = find_path_avoiding(cfg, lambda q: q is n, gate_node=starts, gate_edge=has_block,
                                kill=lambda q: q is not n and x in node_stores(q), skip_exc_edges=True)
    if not before:
        return None

    def transfer(q, lab, nxt, st):
        if lab == "exc":
            return None
        if q is not n and (starts(q) or q.kind in ("exit", "raise")):
            return None
        if q is not n and x in node_stores(q):
            return 1
        return st
    visited, parent = explore(cfg, 0, transfer, start=n)
    for (nid, st) in sorted(visited):
        q = cfg.nodes[nid]
        if q.kind == "exit" or st == 1:
            return witness(cfg, parent, (nid, st))
    return None


def _own_entry(f, fx, n, states_ok=True):
    """Every normal path of f to node n (a removal from _active_share_map keyed by shnum) has established that the entry is
    the reporting share's own (`self._active_share_map.get(shnum) is share`) or that the share reports OVERDUE (only an
    active share does): after a share was abandoned its shnum may be held by its replacement, and a repeated DEAD of the
    abandoned share must not evict that one."""
    def own(q, lab):
        t = fx.edge_fact(q, lab)
        if not t:
            return False
        op, l, rr = t
        if op == "is" and {l, rr} == {"self._active_share_map.get(shnum)", "share"}:
            return True
        return states_ok and op in ("is", "==") and {l, rr} == {"state", "OVERDUE"}
    return not find_path_avoiding(f.cfg(), lambda q: q is n, gate_edge=own, skip_exc_edges=True,
                                  kill=lambda q: bool({"share", "shnum", "state"} & set(node_stores(q))))


def _event_helper_keys(idx, ev, h, n, node, p, payload):
    """`h` is a helper method that only _block_request_activity calls (self.<h>(..), no other caller or reference
    anywhere), and at every one of those calls the keys of the removal at node n of h, read with h's parameters renamed to
    the handler's arguments, are the (shnum[, share]) of the event."""
    try:
        bad, badrefs, total = callers_outside(idx, h.name, [ev.qual])
    except Exception:
        return False
    if bad or badrefs or not total:
        return False
    if any(isinstance(x, (ast.Yield, ast.YieldFrom, ast.Await)) for x in func_own_nodes(h)) \
            or isinstance(h.node, ast.AsyncFunctionDef) or h.node.decorator_list:
        return False
    efx = _fnorm(ev)
    sites = [(q, c) for q in ev.cfg().nodes if q.kind not in ("entry", "exit", "raise") for c in node_calls(q)
             if isinstance(c.func, ast.Attribute) and attr_path(c.func.value) == "self" and c.func.attr == h.name]
    if not sites or len(sites) != total or ev.cls.lookup(h.name) is not h:
        return False                                 # a call from a nested function or a bare reference is not followed
    ps = first_positional_params(h)
    hstores = set()
    for hn in h.cfg().nodes:
        if hn.kind not in ("entry", "exit", "raise"):
            hstores |= {t for t in node_stores(hn) if re.match(r"^[A-Za-z_]\w*$", t)}
    for (q, c) in sites:
        if any(isinstance(a, ast.Starred) for a in c.args) or any(k.arg is None for k in c.keywords):
            return False
        bound = dict(zip(ps, c.args))
        for k in c.keywords:
            if k.arg in ps and k.arg not in bound:
                bound[k.arg] = k.value
        rename = {}
        for prm, a in bound.items():
            t = efx.norm(q, a)
            if re.match(r"^[A-Za-z_]\w*$", t or ""):
                rename[prm] = t
        if hstores & set(rename):
            return False                             # the helper re-binds a parameter
        for nm in (set(h.params) | hstores) - set(rename):
            if nm in ("share", "shnum", "state"):
                rename[nm] = "<local %s of %s>" % (nm, h.name)
        hfx = FlowNorm(h, rename=rename)
        keys = [hfx.norm(n, k) for k in payload[0]]
        if isinstance(node, ast.Call) and call_tail(node) in ("discard", "remove") and p == SHARE_MAPS[1]:
            if keys[:2] != ["shnum", "share"]:
                return False
        elif keys[:1] != ["shnum"]:
            return False
        elif p == SHARE_MAPS[0] and not _own_entry(h, hfx, n, states_ok="state" in rename.values()
                                                   and [k for k, v in rename.items() if v == "state"] == ["state"]):
            return False
    return True


def _rule_candidates_kept(ctx: Context):
    """C03.12: the fetcher reaches k only through the shares it has been given.  An entry leaves one of its candidate
    containers only for a reason of its own: an unused share because it is being started, an active / overdue share
    because *that* share reported, a block never - or because the fetcher stops."""
    idx = ctx.idx
    with ctx.rule("C03.12", "R1/R3", "a share leaves the fetcher's candidate containers only for a reason of its own: the unused "
                  "list self._shares loses exactly the share that is handed to _start_share, _active_share_map / "
                  "_overdue_share_map lose exactly the (shnum, share) whose event _block_request_activity is handling, "
                  "self._blocks loses nothing - except in stop() / on a stopped fetcher", expected=4) as r:
        fcls = idx.cls(FETCH)
        ev = idx.func(FETCH + "._block_request_activity")
        if not calls_in_func(idx.func(FETCH + "._find_and_use_share"), "_start_share"):
            raise AnchorVanished("_find_and_use_share no longer starts a share")
        tracked = (UNUSED,) + SHARE_MAPS + (BLOCKS,)
        what = {UNUSED: "the unused list", SHARE_MAPS[0]: "the map of active requests", SHARE_MAPS[1]: "the map of overdue requests",
                BLOCKS: "the validated blocks"}
        lost = ("an intact share that is needed to reach k is never tried (or its request / block is no longer counted) and the "
                "read fails with NotEnoughSharesError although k good shares are reachable")
        n_ops = 0
        for fn in _class_funcs(fcls):
            if fn.name == "__init__" and fn.parent is None:
                continue
            fx = _fnorm(fn)
            for (n, p, kind, node, payload) in _shrink_ops(fn, tracked):
                n_ops += 1
                r.site(fn, node, "%s loses entries here (%s)" % (p, kind))
                w_out = _outside_stop(fn, n)
                r.count(len(fn.cfg().nodes))
                if w_out is None:
                    continue            # stop(): the fetcher gives everything up
                where = fn.loc(node)
                if p == BLOCKS:
                    r.violation(fn, where, "%s takes entries out of self._blocks (`%s`) while the fetcher is running: a validated "
                                "block is thrown away and its share is no longer in any list, so the segment cannot reach k "
                                "(path: %s)" % (short(fn), src(fn, node), w_out.brief()), w_out)
                    continue
                if p == UNUSED:
                    x = None
                    if kind == "elem":
                        keys, bound = payload
                        x = bound or (attr_path(keys[0]) if keys and isinstance(node, ast.Call) and call_tail(node) == "remove" else None)
                    elif kind == "rebind":
                        if _keeps_all(fn, n, payload, p):
                            continue
                        x = _all_but(fn, n, payload, p)
                    if x is not None:
                        w = _not_started(fn, n, x)
                        if w is None:
                            continue
                        r.violation(fn, where, "%s takes share `%s` out of the unused list (`%s`) without handing it to "
                                    "_start_share: a share that was never requested and never reported a terminal state is "
                                    "forgotten - %s (path: %s)" % (short(fn), x, src(fn, node)[:80], lost, w.brief()), w)
                    else:
                        r.violation(fn, where, "%s drops shares from the unused list self._shares (`%s`) that it does not start: "
                                    "shares leave that list only one at a time, for _start_share, never because of what "
                                    "happened to another share or to their server - %s (path: %s)" % (
                                        short(fn), src(fn, node)[:100], lost, w_out.brief()), w_out)
                    continue
                # the maps of requests in flight
                ok = False
                if kind == "rebind":
                    ok = _keeps_all(fn, n, payload, p)
                elif kind == "elem" and fn is ev:
                    keys = [fx.norm(n, k) for k in payload[0]]
                    if isinstance(node, ast.Call) and call_tail(node) in ("discard", "remove") and p == SHARE_MAPS[1]:
                        ok = keys[:2] == ["shnum", "share"]
                    else:
                        ok = keys[:1] == ["shnum"] and (p != SHARE_MAPS[0] or _own_entry(fn, fx, n))
                elif kind == "elem" and fn.cls is ev.cls and fn.parent is None:
                    ok = _event_helper_keys(idx, ev, fn, n, node, p, payload)
                if not ok:
                    r.violation(fn, where, "%s takes entries out of %s (`%s`) that are not the (shnum, share) whose own event "
                                "_block_request_activity is handling: a request in flight (or a slow share that may still "
                                "answer) is no longer counted, so the no-more-shares test gives the read up while its block "
                                "is on the way - %s (path: %s)" % (short(fn), what[p], src(fn, node)[:100], lost, w_out.brief()),
                                w_out)
        if not n_ops:
            raise AnchorVanished("SegmentFetcher never takes anything out of its share lists")


_run_without_alive = run


def run(ctx: Context):   # noqa: F811
    _run_without_alive(ctx)
    _rule_alive_filter(ctx)
    _rule_hand_over(ctx)
    _rule_request_accounting(ctx)
    _rule_rejection_isolated(ctx)
    _rule_stopped_fetcher(ctx)
    _rule_candidates_kept(ctx)
