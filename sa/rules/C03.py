"""C03 Immutable availability with k good shares.

Decided: the event plumbing that lets the segment fetcher fall back to the
remaining shares (DESIGN.md section 5, C03): wake-up discipline, per-state share
bookkeeping, share abandonment, the gate of the not-enough-shares verdict and
the per-server diversity escalation."""
from sa.h import *

EXPLANATION = (
    "Decided (structural, all paths): (1) wake-up discipline: every state-changing handler of SegmentFetcher "
    "(add_shares, no_more_shares, _block_request_activity while running, _ask_for_more_shares, _start_share), "
    "ShareFinder (hungry, overdue, the send_request chain, _got_response, _deliver_shares), DownloadNode "
    "(got_shares, no_more_shares, want_more_shares) and Share (get_block, schedule_loop, loop's flag reset, "
    "_trigger_loop, the _send_requests chain) passes the event on / schedules its loop on every normal path; "
    "(2) _block_request_activity, explored once per share state: a terminal state (COMPLETE, CORRUPT, DEAD, "
    "BADSEGNUM) leaves the share in neither _active_share_map nor _overdue_share_map, COMPLETE stores the block, "
    "OVERDUE moves the share from the active to the overdue map; (3) Share._fail clears _alive and notifies DEAD to "
    "every observer of every requested block, every handler of Share.loop and _got_error call _fail, block hash "
    "failure notifies CORRUPT and an out-of-range segment BADSEGNUM to every observer; (4) _no_shares_error is "
    "reached only under _no_more_shares and a k-count that includes blocks, active and overdue shares, "
    "_no_more_shares is set only by no_more_shares(), which only the finder announces, and only with no server "
    "left and no request in flight; (5) the want_more_diversity branch raises _max_shares_per_server and retries, "
    "and _find_and_use_share flags every share skipped for the per-server limit. Undecided: that the loop's "
    "choices reach k for every fault timing; removal from _shares_from_server (compensated by (5), so not a "
    "necessary condition).")
TECHNIQUE = "static analysis: must-pass path queries with excusing edge facts, CFG exploration per share state, Deferred chain order"

NODE = "immutable.downloader.node:DownloadNode"
FETCH = "immutable.downloader.fetcher:SegmentFetcher"
FINDER = "immutable.downloader.finder:ShareFinder"
SHARE = "immutable.downloader.share:Share"
COMMON = "allmydata.immutable.downloader.common"
TERMINAL = ("COMPLETE", "CORRUPT", "DEAD", "BADSEGNUM")


# ------------------------------------------------------------------ helpers
_FN = {}


def _fnorm(fn):
    fx = _FN.get(fn.qual)
    if fx is None or fx.fn is not fn:
        fx = _FN[fn.qual] = FlowNorm(fn)
    return fx


def _cn(fn, n, c):
    """Dotted callee name with local aliases resolved."""
    try:
        s = _fnorm(fn).norm(n, c.func)
    except Exception:
        s = None
    return s if s and re.match(r"^[\w.]+$", s) else call_name(c)


def _calls(fn, *names):
    ns = set(names)
    return lambda n: any(_cn(fn, n, c) in ns for c in node_calls(n))


def _schedules(target_pred):
    """node evaluates eventually(X, ..) (or calls X directly) with target_pred(path of X)."""
    def p(n):
        for c in node_calls(n):
            if call_tail(c) == "eventually" and c.args:
                ap = attr_path(c.args[0])
                if ap and target_pred(ap):
                    return True
            elif target_pred(call_name(c)):
                return True
        return False
    return p


def _stores_const(path, value):
    def p(n):
        if path not in node_stores(n):
            return False
        v = assign_value(n, path)
        return isinstance(v, ast.Constant) and v.value is value
    return p


def _unexcused(fn, required, excuse=None, start=None, ends=("exit",), stop_at=None):
    cfg = fn.cfg()

    def transfer(n, lab, nxt, st):
        if excuse is not None and excuse(n, lab):
            return None
        if n.kind not in ("entry", "exit", "raise") and lab != "exc" and required(n):
            return None
        if stop_at is not None and n is not start and stop_at(n):
            return None
        return 0
    visited, parent = explore(cfg, 0, transfer, start=start)
    out = []
    for kind in ends:
        end = cfg.exit if kind == "exit" else cfg.raise_exit
        if (end.id, 0) in visited:
            out.append(witness(cfg, parent, (end.id, 0)))
    return out, len(visited), visited, parent


def _must_pass(r, fn, required, what, excuse=None):
    ws, n, _v, _p = _unexcused(fn, required, excuse)
    r.count(n)
    for w in ws:
        r.violation(fn, fn.loc(), "%s can return without %s (path: %s)" % (short(fn), what, w.brief()), w)


def _fact_excuse(fn, pred):
    fx = _fnorm(fn)

    def ex(n, lab):
        f = fx.edge_fact(n, lab)
        return bool(f) and bool(pred(*f))
    return ex


def _loop_body_must_pass(fn, head, required):
    """Witnesses of iterations of the for-loop `head` that do not pass `required`."""
    cfg = fn.cfg()
    out = []
    for (d, l) in cfg.succ[head.id]:
        if l != "iter":
            continue

        def transfer(n, lab, nxt, st):
            if n is head or lab == "exc" or required(n):
                return None
            return 0
        visited, parent = explore(cfg, 0, transfer, start=cfg.nodes[d])
        for end in (head.id, cfg.exit.id):
            if (end, 0) in visited:
                out.append(witness(cfg, parent, (end, 0)))
    return out


def _target_func(fn, t):
    if isinstance(t, ast.Name):
        f = fn
        while f is not None:
            if t.id in f.nested:
                return f.nested[t.id]
            f = f.parent
        return fn.module.funcs.get(t.id)
    if isinstance(t, ast.Attribute) and isinstance(t.value, ast.Name) and t.value.id == "self" and fn.cls is not None:
        return fn.cls.lookup(t.attr)
    return None


def _effective(reg):
    t, a = reg.target, list(reg.args)
    if isinstance(t, ast.Name) and t.id == "incidentally" and a:
        return a[0], a[1:]
    return t, a


def _swallows(fn, reg):
    """An errback registration that turns every failure into a plain result, so the next callback runs."""
    if reg.kind != "eb":
        return False
    t, _a = _effective(reg)
    if attr_path(t) in ("log.err",):
        return True
    if isinstance(t, ast.Lambda):
        return isinstance(t.body, ast.Call) and call_name(t.body) in ("log.err", "log.msg")
    g = _target_func(fn, t)
    if g is None:
        return False
    for n in func_own_nodes(g):
        if isinstance(n, ast.Raise):
            return False
        if isinstance(n, ast.Call) and call_tail(n) == "trap":
            return False
        if isinstance(n, ast.Return) and n.value is not None and not (isinstance(n.value, ast.Constant) and n.value.value is None):
            return False
    return True


def _always_runs(fn, chain, i):
    k = chain[i].kind
    if k in ("both", "pair"):
        return True
    if k == "cb":
        return i > 0 and _swallows(fn, chain[i - 1])
    return False


def _deferred_var(fn, producer_tail):
    out = set()
    for n in func_own_nodes(fn):
        if isinstance(n, ast.Assign) and isinstance(n.value, ast.Call) and call_tail(n.value) == producer_tail:
            for t in n.targets:
                if isinstance(t, (ast.Tuple, ast.List)) and t.elts:
                    t = t.elts[0]
                p = attr_path(t)
                if p:
                    out.add(p)
    if len(out) != 1:
        raise AnchorVanished("Deferred of %s(..) not found in %s" % (producer_tail, short(fn)))
    return out.pop()


def _dominators(cfg):
    """node id -> set of ids of its dominators (reachable part of the CFG, normal and exceptional edges)."""
    reach = cfg.reachable_nodes()
    dom = {i: set(reach) for i in reach}
    dom[cfg.entry.id] = {cfg.entry.id}
    changed = True
    while changed:
        changed = False
        for i in sorted(reach):
            if i == cfg.entry.id:
                continue
            ps = [p for (p, _l) in cfg.pred[i] if p in reach]
            new = set.intersection(*[dom[p] for p in ps]) if ps else set()
            new = new | {i}
            if new != dom[i]:
                dom[i] = new
                changed = True
    return dom


def _state_names(idx):
    m = idx.module(COMMON)
    for st in m.tree.body:
        if isinstance(st, ast.Assign) and len(st.targets) == 1 and isinstance(st.targets[0], (ast.Tuple, ast.List)):
            names = [e.id for e in st.targets[0].elts if isinstance(e, ast.Name)]
            if "OVERDUE" in names and "COMPLETE" in names:
                return set(names)
    raise AnchorVanished("share state constants not found in %s" % COMMON)


def _notifies(state_names):
    def p(n):
        for c in node_calls(n):
            if call_tail(c) == "notify":
                st = kwarg(c, "state") or arg(c, 0)
                if isinstance(st, ast.Name) and st.id in state_names:
                    return True
        return False
    return p

def _observer_loops(fn, over, state_names):
    """for-loops whose iterable (after alias resolution) is `over` and whose body notifies one of the states
    on the loop variable."""
    cfg = fn.cfg()
    fxx = _fnorm(fn)
    out = []
    for h in cfg.nodes:
        if h.kind != "iter" or not isinstance(h.ast.target, ast.Name):
            continue
        if over is not None and fxx.norm(h, h.ast.iter) != over and attr_path(h.ast.iter) != over:
            continue
        var = h.ast.target.id
        body_notifies = [c for st in h.ast.body for c in own_nodes(st) if isinstance(c, ast.Call)
                         and call_tail(c) == "notify" and attr_path(c.func.value) == var]
        body_notifies = [c for c in body_notifies if isinstance(kwarg(c, "state") or arg(c, 0), ast.Name)
                         and (kwarg(c, "state") or arg(c, 0)).id in state_names]
        if body_notifies:
            out.append(h)
    return out


# --------------------------------------------------------------------- rules
def run(ctx: Context):
    idx = ctx.idx
    states = _state_names(idx)
    for s in TERMINAL + ("OVERDUE",):
        if s not in states:
            raise AnchorVanished("share state %s is no longer defined in downloader/common.py" % s)

    # -- 1. wake-up discipline ----------------------------------------------
    with ctx.rule("C03.1", "R2", "every state-changing handler of fetcher / finder / node / share passes the event on "
                  "or schedules its loop on every normal path", expected=18) as r:
        self_loop = _schedules(lambda p: p == "self.loop")

        def handler(qual, required, what, excuse=None, note=""):
            fn = idx.func(qual)
            if not fn.cfg().find(required):
                r.site(fn, None, note or what)
                r.violation(fn, fn.loc(), "%s never does this: %s" % (short(fn), what))
                return fn
            r.site(fn, None, note or what)
            _must_pass(r, fn, required, what, _fact_excuse(fn, excuse) if excuse else None)
            return fn

        # SegmentFetcher
        handler(FETCH + ".add_shares", self_loop, "scheduling SegmentFetcher.loop")
        f = handler(FETCH + ".no_more_shares", self_loop, "scheduling SegmentFetcher.loop")
        _must_pass(r, f, _stores_const("self._no_more_shares", True), "recording _no_more_shares = True")
        handler(FETCH + "._block_request_activity", self_loop, "scheduling SegmentFetcher.loop",
                lambda op, l, rr: op == "false" and l == "self._running")
        f = idx.func(FETCH + "._ask_for_more_shares")
        handler(FETCH + "._ask_for_more_shares", _calls(f, "self._node.want_more_shares"), "asking the node for more shares",
                lambda op, l, rr: op == "truth" and l == "self._no_more_shares")
        f = idx.func(FETCH + "._start_share")
        handler(FETCH + "._start_share", lambda n: any(
            call_tail(c) == "subscribe" and c.args and attr_path(c.args[0]) == "self._block_request_activity"
            for c in node_calls(n)), "subscribing _block_request_activity to the block request")
        _must_pass(r, f, lambda n: any(call_tail(c) == "get_block" and c.args and attr_path(c.args[0]) == "self.segnum"
                                       for c in node_calls(n)), "requesting the block of this segment (get_block(self.segnum))")
        # ShareFinder
        f = handler(FINDER + ".hungry", self_loop, "scheduling ShareFinder.loop")
        _must_pass(r, f, _stores_const("self._hungry", True), "recording _hungry = True")
        handler(FINDER + ".overdue", self_loop, "scheduling ShareFinder.loop")
        f = idx.func(FINDER + "._got_response")
        p0 = first_positional_params(f)[0]
        handler(FINDER + "._got_response", _calls(f, "self._deliver_shares"), "delivering the shares found",
                lambda op, l, rr, _p=p0: op == "false" and l == _p)
        handler(FINDER + "._deliver_shares", _schedules(lambda p: p.endswith(".got_shares")), "handing the shares to the node")
        sr = idx.func(FINDER + ".send_request")
        chain = [x for x in registrations(sr) if x.recv == _deferred_var(sr, "get_buckets")]
        r.site(sr, None, "chain " + " ".join(map(repr, chain)))

        def is_loop_wake(x):
            t, a = _effective(x)
            return attr_path(t) == "eventually" and a and attr_path(a[0]) == "self.loop"
        iw = [i for i, x in enumerate(chain) if is_loop_wake(x)]
        if not iw:
            r.violation(sr, sr.loc(), "the DYHB Deferred no longer reschedules ShareFinder.loop when the answer arrives")
        else:
            r.require(_always_runs(sr, chain, iw[-1]), sr, sr.loc(chain[iw[-1]].call),
                      "the loop wake-up (%r) does not run when the query or its handler failed: with the last "
                      "request failing nobody restarts the finder" % chain[iw[-1]])
            r.require(iw[-1] == len(chain) - 1 or all(x.kind == "eb" for x in chain[iw[-1] + 1:]), sr, sr.loc(chain[iw[-1]].call),
                      "callbacks are registered after the loop wake-up")
            ih = [i for i, x in enumerate(chain) if attr_path(x.target) == "self._got_response"]
            r.require(bool(ih) and ih[0] < iw[-1], sr, sr.loc(chain[iw[-1]].call),
                      "the finder loop is woken before _got_response handled the answer")
        # DownloadNode
        f = idx.func(NODE + ".got_shares")
        idle = lambda op, l, rr: (op == "false" and l == "self._active_segment") or \
            (op in ("is", "==") and {l, rr} == {"None", "self._active_segment"})
        handler(NODE + ".got_shares", _calls(f, "self._active_segment.add_shares"), "passing the shares to the active fetcher", idle)
        _must_pass(r, f, lambda n: any(call_name(c) in ("self._shares.update", "self._shares.add") for c in node_calls(n))
                   or "self._shares" in node_stores(n), "remembering the shares for later segments")
        f = idx.func(NODE + ".no_more_shares")
        handler(NODE + ".no_more_shares", _calls(f, "self._active_segment.no_more_shares"),
                "telling the active fetcher that no more shares will come", idle)
        f = idx.func(NODE + ".want_more_shares")
        handler(NODE + ".want_more_shares", _calls(f, "self._sharefinder.hungry"), "making the ShareFinder hungry")
        # Share
        f = idx.func(SHARE + ".get_block")
        handler(SHARE + ".get_block", lambda n, _f=f: _calls(_f, "self.schedule_loop")(n) or self_loop(n), "scheduling Share.loop")
        handler(SHARE + ".schedule_loop", self_loop, "scheduling Share.loop",
                lambda op, l, rr: op == "truth" and l == "self._loop_scheduled")
        f = idx.func(SHARE + "._trigger_loop")
        handler(SHARE + "._trigger_loop", lambda n, _f=f: _calls(_f, "self.schedule_loop")(n) or self_loop(n), "scheduling Share.loop",
                lambda op, l, rr: op == "false" and l == "self._alive")
        lp = idx.func(SHARE + ".loop")
        r.site(lp, None, "re-arms schedule_loop")
        rearm = _stores_const("self._loop_scheduled", False)
        if not lp.cfg().find(_calls(lp, "self._do_loop")):
            raise AnchorVanished("Share.loop no longer calls _do_loop")
        for (n, w) in find_path_avoiding(lp.cfg(), _calls(lp, "self._do_loop"), gate_node=rearm):
            r.violation(lp, lp.loc(n.ast), "Share._do_loop can run with _loop_scheduled still set: schedule_loop() then "
                        "never schedules the loop again and every later wake-up of this share is lost (path: %s)" % w.brief(), w)
        sq = idx.func(SHARE + "._send_requests")
        chain = [x for x in registrations(sq) if x.recv == _deferred_var(sq, "_send_request")]
        r.site(sq, None, "chain " + " ".join(map(repr, chain)))
        it = [i for i, x in enumerate(chain) if attr_path(x.target) == "self._trigger_loop"]
        ig = [i for i, x in enumerate(chain) if attr_path(x.target) == "self._got_data"]
        ie = [i for i, x in enumerate(chain) if attr_path(x.target) == "self._got_error"]
        if not ig:
            raise AnchorVanished("_send_requests no longer registers _got_data")
        if not it:
            r.violation(sq, sq.loc(), "the read Deferred no longer triggers Share.loop when data arrives")
        else:
            r.require(ig[0] < it[0], sq, sq.loc(chain[it[0]].call), "Share.loop is triggered before _got_data recorded the data")
        r.require(bool(ie) and ie[0] > ig[0] and chain[ie[0]].kind in ("eb", "both"), sq, sq.loc(),
                  "_got_error is not an errback behind _got_data: a failed read (or a failing _got_data) no longer "
                  "abandons the share, whose observers wait for ever")

    # -- 2. per-state bookkeeping -------------------------------------------
    with ctx.rule("C03.2", "R3", "_block_request_activity per share state: terminal states leave the share in neither the "
                  "active nor the overdue map, COMPLETE stores the block, OVERDUE moves the share to the overdue map",
                  expected=5) as r:
        fn = idx.func(FETCH + "._block_request_activity")
        ps = first_positional_params(fn)
        for need in ("share", "shnum", "state"):
            if need not in ps:
                raise AnchorVanished("_block_request_activity lost its %s parameter" % need)
        cfg = fn.cfg()
        fx = _fnorm(fn)

        def names_of(s):
            return set(re.findall(r"[A-Za-z_]\w*", s or ""))

        def consistent(f, X):
            op, l, rr = f
            if op in ("is", "==", "is not", "!=") and "state" in (l, rr):
                other = rr if l == "state" else l
                if other in states:
                    return (other == X) if op in ("is", "==") else (other != X)
            if op in ("in", "not in") and l == "state":
                ns = names_of(rr)
                if ns and ns <= states:
                    return (X in ns) if op == "in" else (X not in ns)
            return True

        def args_are(n, c, *want):
            return len(c.args) >= len(want) and all(fx.norm(n, a) == w for a, w in zip(c.args, want))

        def effects(n):
            out = set()
            a = n.ast
            if n.kind == "stmt" and isinstance(a, ast.Delete):
                for t in a.targets:
                    if isinstance(t, ast.Subscript) and attr_path(t.value) == "self._active_share_map" \
                            and fx.norm(n, t.slice) == "shnum":
                        out.add("active-")
            for c in node_calls(n):
                nm = _cn(fn, n, c)
                if nm == "self._active_share_map.pop" and args_are(n, c, "shnum"):
                    out.add("active-")
                if nm in ("self._overdue_share_map.discard", "self._overdue_share_map.remove") and args_are(n, c, "shnum", "share"):
                    out.add("overdue-")
                if nm == "self._overdue_share_map.add" and args_are(n, c, "shnum", "share"):
                    out.add("overdue+")
            if "self._blocks[]" in node_stores(n):
                out.add("block")
            return out

        def nothing_to_remove(f):
            op, l, rr = f
            if op in ("is not", "!=") and {l, rr} == {"self._active_share_map.get(shnum)", "share"}:
                return True
            return op == "not in" and l == "shnum" and rr == "self._active_share_map"

        for X in TERMINAL + ("OVERDUE",):
            need = {"active-", "overdue-"} if X in TERMINAL else {"active-", "overdue+"}
            if X == "COMPLETE":
                need = need | {"block"}

            def transfer(n, lab, nxt, st, _X=X):
                if n.kind in ("entry", "exit", "raise"):
                    return st
                if lab == "exc":
                    return st
                f = fx.edge_fact(n, lab)
                if f:
                    if f == ("false", "self._running", None) or not consistent(f, _X):
                        return None
                    if nothing_to_remove(f):
                        st = st | {"active-"}
                e = effects(n)
                return st | frozenset(e) if e else st
            visited, parent = explore(cfg, frozenset(), transfer)
            r.count(len(visited))
            r.site(fn, None, "state " + X)
            ends = [st for (nid, st) in visited if nid == cfg.exit.id]
            if not ends:
                raise AnalysisError("no path of _block_request_activity is consistent with state %s" % X)
            words = {"active-": "removing it from _active_share_map", "overdue-": "discarding it from _overdue_share_map",
                     "overdue+": "adding it to _overdue_share_map", "block": "storing the validated block"}
            why = {"active-": "the loop keeps counting the request as outstanding and never asks another share",
                   "overdue-": "the k-count of the no-more-shares test keeps counting a finished share and the read never fails",
                   "overdue+": "the no-more-shares test forgets a slow share and reports not-enough-shares while it may still answer",
                   "block": "the block is lost and the segment can never reach k blocks"}
            reported = set()
            for st in ends:
                for m in sorted(need - st):
                    if m in reported:
                        continue
                    reported.add(m)
                    w = witness(cfg, parent, (cfg.exit.id, st))
                    r.violation(fn, fn.loc(), "a share reporting %s can be handled without %s: %s (path: %s)" % (
                        X, words[m], why[m], w.brief()), w)

    # -- 3. abandonment -----------------------------------------------------
    with ctx.rule("C03.3", "R1", "Share._fail clears _alive and notifies DEAD to every observer of every requested block; "
                  "Share.loop's handlers and _got_error call _fail; CORRUPT / BADSEGNUM reach every observer", expected=5) as r:
        fl = idx.func(SHARE + "._fail")
        r.site(fl, None, "DEAD to all observers")
        _must_pass(r, fl, _stores_const("self._alive", False), "clearing _alive")

        notifies, observer_loops = _notifies, _observer_loops

        outer = [h for h in fl.cfg().nodes if h.kind == "iter" and attr_path(h.ast.iter) == "self._requested_blocks"]
        if not outer:
            r.violation(fl, fl.loc(), "_fail no longer walks _requested_blocks: observers of a dead share are never told")
        for oh in outer:
            t = oh.ast.target
            obs = t.elts[1].id if isinstance(t, (ast.Tuple, ast.List)) and len(t.elts) == 2 and isinstance(t.elts[1], ast.Name) else None
            inner = [h for h in observer_loops(fl, obs, {"DEAD"}) if obs] if obs else []
            r.require(bool(inner), fl, fl.loc(oh.ast), "no `for o in observers: o.notify(state=DEAD ..)` inside the walk over "
                      "_requested_blocks")
            _must_pass(r, fl, lambda n, _h=oh: n is _h, "walking over every requested block")
            for ws in [_loop_body_must_pass(fl, oh, lambda n, _i=inner: n in _i)]:
                for w in ws:
                    r.violation(fl, fl.loc(oh.ast), "a requested block can be skipped without notifying its observers (path: %s)" % w.brief(), w)
            for ih in inner:
                for w in _loop_body_must_pass(fl, ih, notifies({"DEAD"})):
                    r.violation(fl, fl.loc(ih.ast), "an observer can be skipped without the DEAD notification (path: %s)" % w.brief(), w)

        lp = idx.func(SHARE + ".loop")
        cfg = lp.cfg()
        calls = cfg.find(_calls(lp, "self._do_loop"))
        if not calls:
            raise AnchorVanished("Share.loop no longer calls _do_loop")
        fails = _calls(lp, "self._fail")
        for n in calls:
            r.site(lp, n.ast, "handlers abandon the share")
            handlers = [cfg.nodes[d] for (d, l) in cfg.succ[n.id] if l == "exc" and cfg.nodes[d].kind == "except"]
            catch_all = [h for h in handlers if h.ast.type is None or
                         (attr_path(h.ast.type) or "").split(".")[-1] in ("BaseException", "Exception")]
            r.require(bool(catch_all), lp, lp.loc(n.ast), "an unexpected exception of Share._do_loop is not turned into "
                      "_fail(): the fetcher keeps waiting for this share instead of using another one")
            for h in handlers:
                ws, k, _v, _p = _unexcused(lp, fails, start=h, ends=("exit", "raise"))
                r.count(k)
                for w in ws:
                    r.violation(lp, lp.loc(h.ast), "handler `%s` of Share.loop can finish without _fail(): the share's "
                                "observers are never told that it is unusable (path: %s)" % (repr(h)[1:-1], w.brief()), w)
        ge = idx.func(SHARE + "._got_error")
        r.site(ge, None, "read error abandons the share")
        _must_pass(r, ge, _calls(ge, "self._fail"), "calling _fail()")

        sd = idx.func(SHARE + "._satisfy_data_block")
        obsparam = first_positional_params(sd)[1]
        cfg = sd.cfg()
        hs = [h for h in cfg.nodes if h.kind == "except"]
        if not hs:
            raise AnchorVanished("_satisfy_data_block has no hash-failure handler")
        bad_states = {"CORRUPT", "DEAD"}
        for h in hs:
            r.site(sd, h.ast, "hash failure reaches every observer")
            loops = observer_loops(sd, obsparam, bad_states)
            ws, k, _v, _p = _unexcused(sd, lambda n, _l=loops: n in _l, start=h, ends=("exit",))
            r.count(k)
            for w in ws:
                r.violation(sd, sd.loc(h.ast), "a block hash failure can be handled without telling the observers "
                            "(CORRUPT): the fetcher keeps waiting for this block (path: %s)" % w.brief(), w)
            for lh in loops:
                for w in _loop_body_must_pass(sd, lh, notifies(bad_states)):
                    r.violation(sd, sd.loc(lh.ast), "an observer can be skipped without the CORRUPT notification", w)
        gs = idx.func(SHARE + "._get_satisfaction")
        loops = observer_loops(gs, None, {"BADSEGNUM"})
        r.site(gs, None, "BADSEGNUM reaches every observer")
        r.require(bool(loops), gs, gs.loc(), "_get_satisfaction no longer notifies BADSEGNUM for a segment beyond the end: "
                  "the fetcher waits for a block that does not exist")
        for lh in loops:
            for w in _loop_body_must_pass(gs, lh, notifies({"BADSEGNUM"})):
                r.violation(gs, gs.loc(lh.ast), "an observer can be skipped without the BADSEGNUM notification", w)

    # -- 4. the not-enough-shares verdict -----------------------------------
    with ctx.rule("C03.4", "R1/R4", "_no_shares_error only under _no_more_shares and a k-count over blocks, active and overdue "
                  "shares; no_more_shares is announced only by the finder, with no server left and no request in flight",
                  expected=4) as r:
        dl = idx.func(FETCH + "._do_loop")
        cfg = dl.cfg()
        fx = _fnorm(dl)
        target = _calls(dl, "self._no_shares_error")
        tn = cfg.find(target)
        if not tn:
            raise AnchorVanished("_do_loop no longer calls _no_shares_error")
        for n in tn:
            r.site(dl, n.ast, "verdict")

        def exhausted(n, lab):
            return fx.edge_fact(n, lab) == ("truth", "self._no_more_shares", None)

        def too_few(n, lab):
            f = fx.edge_fact(n, lab)
            if not f or f[0] != "<" or f[2] != "self._k":
                return False
            m = re.match(r"^len\((.*)\)$", f[1])
            return bool(m) and all(("self.%s" % a) in m.group(1) for a in ("_blocks", "_active_share_map", "_overdue_share_map"))
        for (n, w) in find_path_avoiding(cfg, target, gate_edge=exhausted):
            r.violation(dl, dl.loc(n.ast), "the read is failed while the finder may still deliver shares "
                        "(no `_no_more_shares` on path: %s)" % w.brief(), w)
        for (n, w) in find_path_avoiding(cfg, target, gate_edge=too_few):
            r.violation(dl, dl.loc(n.ast), "the read is failed without checking that blocks + active + overdue shares are "
                        "fewer than k: a late (overdue) good share is given up (path: %s)" % w.brief(), w)
        r.count(len(cfg.nodes))
        bad, badrefs, total = callers_outside(idx, "_no_shares_error", [FETCH + "._do_loop"])
        for cs in bad:
            r.violation(cs.fn, cs.loc, "%s calls _no_shares_error outside the gate in _do_loop" % short(cs.fn))
        for (f, nd) in badrefs:
            r.violation(f, f.loc(nd), "%s uses _no_shares_error as a value" % short(f))

        cg = get_callgraph(idx)
        n_st = 0
        for (f, nd) in cg.attr_stores("_no_more_shares"):
            if f.cls is None or f.cls.name != "SegmentFetcher":
                continue
            n_st += 1
            if f.name == "__init__":
                continue
            if f.qual != "allmydata." + FETCH + ".no_more_shares":
                r.violation(f, f.loc(nd), "%s sets _no_more_shares outside no_more_shares()" % short(f))
        r.site("stores of SegmentFetcher._no_more_shares: %d" % n_st)
        if n_st < 2:
            raise AnchorVanished("stores of SegmentFetcher._no_more_shares not found")
        bad, badrefs, total = callers_outside(idx, "no_more_shares", [NODE + ".no_more_shares", FINDER + ".loop"])
        r.site("callers of no_more_shares: %d" % total)
        if total < 2:
            raise AnchorVanished("announcers of no_more_shares not found")
        for cs in bad:
            r.violation(cs.fn, cs.loc, "%s announces no_more_shares" % short(cs.fn))
        for (f, nd) in badrefs:
            r.violation(f, f.loc(nd), "%s announces no_more_shares" % short(f))

        fl = idx.func(FINDER + ".loop")
        cfg = fl.cfg()
        fx2 = _fnorm(fl)
        ann = _schedules(lambda p: p.endswith(".no_more_shares"))
        an = cfg.find(ann)
        if not an:
            raise AnchorVanished("ShareFinder.loop no longer announces no_more_shares")
        for n in an:
            r.site(fl, n.ast, "announcement")
        idle = lambda n, lab: fx2.edge_fact(n, lab) == ("false", "self.pending_requests", None)
        for (n, w) in find_path_avoiding(cfg, ann, gate_edge=idle):
            r.violation(fl, fl.loc(n.ast), "no_more_shares is announced while DYHB requests may still be in flight (a late "
                        "server's shares are given up) (path: %s)" % w.brief(), w)
        sends = [c for n in cfg.find(_calls(fl, "self.send_request")) for c in node_calls(n) if call_tail(c) == "send_request"]
        if not sends or not sends[0].args or attr_path(sends[0].args[0]) is None:
            raise AnchorVanished("ShareFinder.loop no longer calls send_request(<server>)")
        srv = attr_path(sends[0].args[0])
        no_server = lambda n, lab: fx2.edge_fact(n, lab) in (("false", srv, None), ("is", "None", srv), ("is", srv, "None"))
        for (n, w) in find_path_avoiding(cfg, ann, gate_edge=no_server, kill=stores(srv)):
            r.violation(fl, fl.loc(n.ast), "no_more_shares is announced on a pass that obtained a server to query "
                        "(path: %s)" % w.brief(), w)
        # the server variable is falsy only when the iterator is exhausted: its only definitions are None and next(..)
        for n in cfg.find(stores(srv)):
            v = assign_value(n, srv)
            ok = (isinstance(v, ast.Constant) and v.value is None) or (isinstance(v, ast.Call) and call_tail(v) == "next"
                                                                        and v.args and attr_path(v.args[0]) == "self._servers")
            r.require(ok, fl, fl.loc(n.ast), "`%s` is bound to %s: a pass that did not take the next server can look like an "
                      "exhausted server list" % (srv, src(fl, v)))

    # -- 5. diversity escalation --------------------------------------------
    with ctx.rule("C03.5", "R1", "_do_loop: want_more_diversity raises _max_shares_per_server and retries; "
                  "_find_and_use_share flags every share skipped for the per-server limit", expected=2) as r:
        dl = idx.func(FETCH + "._do_loop")
        cfg = dl.cfg()
        fx = _fnorm(dl)
        tests = [n for n in cfg.nodes if n.kind == "test" and any(
            (fx.edge_fact(n, l) or ("",))[0] == "truth" and re.search(r"_find_and_use_share\(\)\[1\]$", fx.edge_fact(n, l)[1] or "")
            for (_d, l) in cfg.succ[n.id] if isinstance(l, tuple) and l[0] == "T")]
        if not tests:
            raise AnchorVanished("_do_loop no longer tests want_more_diversity")

        def raises_limit(n):
            a = n.ast
            if n.kind != "stmt" or "self._max_shares_per_server" not in node_stores(n):
                return False
            if isinstance(a, ast.AugAssign):
                return isinstance(a.op, ast.Add) and isinstance(a.value, ast.Constant) and isinstance(a.value.value, int) and a.value.value > 0
            v = assign_value(n, "self._max_shares_per_server")
            return v is not None and re.match(r"^\(?[1-9]\d* \+ self\._max_shares_per_server\)?$", fx.norm(n, v) or "") is not None
        dom = _dominators(cfg)
        for t in tests:
            r.site(dl, t.ast, "escalation")
            for (d, l) in cfg.succ[t.id]:
                if not (isinstance(l, tuple) and l[0] == "T"):
                    continue

                def transfer(n, lab, nxt, st, _t=t):
                    if lab == "exc" or st in ("R0", "R1"):
                        return None
                    if st == 0 and raises_limit(n):
                        st = 1
                    if nxt.id in dom.get(n.id, ()) and nxt.id in dom.get(_t.id, ()):
                        return "R%d" % st          # back edge of the loop around the test: a retry
                    return st
                visited, parent = explore(cfg, 0, transfer, start=cfg.nodes[d])
                r.count(len(visited))
                for (nid, st) in sorted(visited, key=repr):
                    if cfg.nodes[nid].kind == "exit":
                        w = witness(cfg, parent, (nid, st))
                        r.violation(dl, dl.loc(t.ast), "with every usable share behind the per-server limit _do_loop returns "
                                    "instead of retrying with a higher limit: k shares on one server are never all "
                                    "fetched (path: %s)" % w.brief(), w)
                        break
                for (nid, st) in sorted(visited, key=repr):
                    if st == "R0":
                        w = witness(cfg, parent, (nid, st))
                        r.violation(dl, dl.loc(t.ast), "_do_loop retries without raising _max_shares_per_server: the same "
                                    "shares are skipped again, for ever (path: %s)" % w.brief(), w)
                        break
                if not any(st == "R1" for (_n, st) in visited):
                    r.violation(dl, dl.loc(t.ast), "the want_more_diversity branch never loops back to try again")

        fu = idx.func(FETCH + "._find_and_use_share")
        cfg = fu.cfg()
        fx = _fnorm(fu)
        rets = [n for n in cfg.nodes if is_return(n) and isinstance(n.ast.value, ast.Tuple) and len(n.ast.value.elts) == 2]
        if not rets or not all(isinstance(n.ast.value.elts[1], ast.Name) for n in rets):
            raise AnchorVanished("_find_and_use_share no longer returns (sent_something, want_more_diversity)")
        flag = rets[0].ast.value.elts[1].id
        limit_tests = []
        for n in cfg.nodes:
            if n.kind != "test":
                continue
            for (d, l) in cfg.succ[n.id]:
                f = fx.edge_fact(n, l) if isinstance(l, tuple) else None
                if f and f[0] in ("<=", "<") and f[1] == "self._max_shares_per_server" and f[2] and f[2].startswith("len("):
                    limit_tests.append((n, d))
        if not limit_tests:
            raise AnchorVanished("_find_and_use_share no longer compares with _max_shares_per_server")
        heads = [h for h in cfg.nodes if h.kind == "iter"]
        for (t, d) in limit_tests:
            r.site(fu, t.ast, "limit skip is flagged")

            def transfer(n, lab, nxt, st):
                if lab == "exc" or _stores_const(flag, True)(n):
                    return None
                if n in heads or is_return(n):
                    return None
                return 0
            visited, parent = explore(cfg, 0, transfer, start=cfg.nodes[d])
            for (nid, st) in sorted(visited):
                n = cfg.nodes[nid]
                if n in heads or is_return(n) or n.kind == "exit":
                    w = witness(cfg, parent, (nid, st))
                    r.violation(fu, fu.loc(t.ast), "a share skipped because of the per-server limit is not reported as "
                                "want_more_diversity: _do_loop then waits instead of raising the limit (path: %s)" % w.brief(), w)
                    break


def _rule_alive_filter(ctx: Context):
    """C03.6: a share that has died never reports back (Share.loop returns at once when not alive), so a
    fetcher that is handed a dead share keeps it in its active map and waits forever.  Every share list
    given to a *new* SegmentFetcher must therefore be filtered by is_alive()."""
    idx = ctx.idx
    with ctx.rule("C03.6", "R3", "_start_new_segment hands the new SegmentFetcher only shares that are alive "
                  "(a dead share never answers get_block)", expected=2) as r:
        fn = idx.func("immutable.downloader.node:DownloadNode._start_new_segment")
        cfg = fn.cfg()
        rd = C.reaching_defs(cfg)
        adds = [n for n in cfg.stmt_nodes() if calls_at(n, "add_shares")]
        if not adds:
            raise AnchorVanished("_start_new_segment no longer calls add_shares on the new fetcher")
        # premise: a dead share's loop returns without doing (or notifying) anything
        sl0 = idx.func("immutable.downloader.share:Share.loop")
        sn = FlowNorm(sl0)
        silent_when_dead = False
        for t in sl0.cfg().find(lambda x: x.kind == "test"):
            for (d, lab) in sl0.cfg().succ[t.id]:
                f = sn.edge_fact(t, lab)
                if f and f[0] == "false" and f[1] == "self._alive":
                    nxt = sl0.cfg().nodes[d]
                    if is_return(nxt) or nxt.kind == "exit":
                        silent_when_dead = True
        if not silent_when_dead:
            ctx.note("C03.6: Share.loop no longer returns silently for a dead share; the is_alive() filter is not required")
            r.site(sl0, None, "premise absent: filter not required")
            r.site(sl0, None, "premise absent")
            return
        for n in adds:
            c = calls_at(n, "add_shares")[0]
            r.site(fn, c, "add_shares")
            a0 = arg(c, 0)
            e = a0
            if isinstance(a0, ast.Name):
                ds = rd.get(n.id, {}).get(a0.id, frozenset())
                vals = [assign_value(cfg.nodes[d], a0.id) for d in ds if d >= 0]
                e = vals[0] if len(vals) == 1 else None
            ok = False
            if isinstance(e, (ast.ListComp, ast.GeneratorExp, ast.SetComp)) and len(e.generators) == 1:
                g = e.generators[0]
                tgt = attr_path(g.target)
                ok = attr_path(e.elt) == tgt and any(
                    N(fn).cmp(cond, True) == ("truth", "%s.is_alive()" % tgt, None) for cond in g.ifs)
            elif isinstance(e, ast.Call) and call_tail(e) == "filter" and len(e.args) == 2:
                f0 = e.args[0]
                ok = isinstance(f0, ast.Lambda) and N(fn).cmp(f0.body, True) == ("truth", "%s.is_alive()" % f0.args.args[0].arg, None)
            r.require(ok, fn, fn.loc(c), "the new fetcher is given %s, which is not filtered by is_alive(): a share that died "
                      "during an earlier segment would be requested again and never answer, so the read hangs although "
                      "k live shares exist" % src(fn, a0))
        # the premise: a dead share's loop does nothing (so the filter is what keeps the fetcher from waiting on it)
        sl = idx.func("immutable.downloader.share:Share.loop")
        r.site(sl, None, "premise: Share.loop returns early when not alive")
        ia = idx.func("immutable.downloader.share:Share.is_alive")
        rets = [n for n in ia.cfg().find(is_return)]
        r.require(bool(rets) and all("_alive" in ast.unparse(n.ast.value) for n in rets), ia, ia.loc(),
                  "is_alive() no longer reports the _alive flag cleared by _fail()")


_run_without_alive = run


def run(ctx: Context):   # noqa: F811
    _run_without_alive(ctx)
    _rule_alive_filter(ctx)
