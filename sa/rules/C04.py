"""C04 Random-access and concurrent immutable reads.

Interleaving outcomes are schedule-level (undecided).  Decided: per-read
isolation, the cancel discipline of the shared segment-request queue, the
clip expression, the trimming arithmetic of Segmentation, the AES-CTR
positioning (shared with C01) and the literal-file slices."""
from sa.h import *
from sa.rules.C01 import (Sym, bind_call_args, dominated_by, gated_by_truth, nf, node_of, run_ctr, the_call)

EXPLANATION = (
    "Decided: (1) every DownloadNode.read builds a fresh Segmentation from its own (offset, clipped size, consumer) and "
    "every ImmutableFileNode.read a fresh DecryptingConsumer; neither object is kept on the node; Segmentation and "
    "DecryptingConsumer have no class-level mutable state, store only to self.*, and touch the download node only "
    "through get_segment (who-may-write on DownloadNode state from segmentation.py is empty); each get_segment makes its "
    "own Cancel handle and Deferred; (2) _cancel_request removes only the tuple of the cancelling handle and stops the "
    "active fetcher only when no remaining request wants its segment; _extract_requests partitions by segment number; "
    "Cancel.cancel and _deliver are one-shot; stopProducing cancels only its own handle; (3) the size is clipped to "
    "max(0, min(size, filesize - offset)), None means to EOF, and a zero-length read completes before a Segmentation "
    "is built; (4) Segmentation asks for segment offset // segment_size, the node labels segments with "
    "segnum * segment_size, and the bytes written are segment[offset-start : offset-start+overlap] guarded by the "
    "first-byte check, with offset/size advanced by the written length; (5) the AES-CTR counter is positioned from the "
    "read offset (C01.7); (6) LiteralFileNode.read slices [offset:] / [offset:offset+size]; (7) a read has at most one "
    "segment request outstanding: every route from a method the consumer may call at any time (resumeProducing) to "
    "get_segment passes `record is None` for a record that _fetch_next sets (a truthiness test of the segment number "
    "is not such a gate: segment 0 is falsy), the record is reset on both outcomes of the segment Deferred before a "
    "callback continues the read, and nobody else resets it without cancelling the request; (8) whoever retires the "
    "node's active fetcher - _cancel_request, also through same-class helpers, and the delivery/failure handlers - "
    "resets _active_segment and then calls _start_new_segment(), so requests queued by other reads are served; an exit of "
    "the delivery callback is exempt from that exactly when its path passed an edge on which `self._active_segment is not X` "
    "holds (negated `is`, either operand order, `!=`; the test may sit in a flag or in a helper that is one `return <test>`), "
    "X being a capture: a local of the registering function read from self._active_segment on every path to the "
    "registration, never re-bound, with no store to the slot from the read to that function's exit, closed over by the "
    "callback or handed to it as extra callback argument (or a parameter that every caller fills with the calling fetcher "
    "itself) - the cancel path has then already retired that fetcher, removed its requests and started the next one; an "
    "early return behind anything else (an unrelated test, `is None`, a value read from the slot inside the callback) is "
    "still reported; "
    "(2b) stopProducing cancels its handle on every path on which the handle was not seen to be unset; (3b) an assertion of "
    "Segmentation.__init__ about offset/size/file size is no stronger than offset + size <= file size (reads up to EOF pass); "
    "(9) every read() - DownloadNode, CiphertextFileNode, ImmutableFileNode, LiteralFileNode - returns on every path a "
    "Deferred (never None) that fires with the caller's consumer: succeed(consumer) for the empty read, else the Deferred "
    "of Segmentation.start(), which _fetch_next fires with self._consumer and whose callbacks hand the value on; "
    "ImmutableFileNode reads (fresh DecryptingConsumer, offset, size) and unwraps to the consumer; (10) get_segment calls "
    "(or schedules) the method that installs a fetcher on every path after queuing; every loop over "
    "_extract_requests(..) hands each (Deferred, Cancel) it took out of the queue to _deliver (a request seen to be "
    "inactive may be skipped); _deliver fires d.callback(result) on every path on which the handle was not seen inactive; "
    "(11) the method that writes to the consumer is a success callback on the Deferred of get_segment; after it comes an "
    "errback that re-enters the fetch route, registered on every path on which the node's segment size was not seen to be "
    "known, with no failure-swallowing errback in between; after the write the writer (or a later success callback) "
    "re-enters the fetch route on every path; start() enters it; resumeProducing sets again every flag that "
    "pauseProducing clears and that gates the route (unless it saw the pause mark unset); (12) the way back from a wrongly "
    "guessed segment number: the retry errback's f.trap(..) lets through the error the writer raises for a segment that does "
    "not hold the first wanted byte and the error with which SegmentFetcher fails a request past the end of the file; the "
    "fetcher makes that report only on paths whose edge facts imply segnum >= the node's count, and every pass of its loop "
    "method that goes on or returns has seen segnum < count (integer-exact: `<= count` is not enough), the count still a "
    "guess, or the fetcher stopped - else it has made the report; DownloadNode.get_num_segments answers (num_segments, True) "
    "on every path on which num_segments was not seen to be None; "
    "(13) ownership of the fetcher slot across asynchronous gaps: every function DownloadNode hands to addCallback / "
    "addErrback / addBoth / addCallbacks (also wrapped in eventually) or to eventually() / callLater() - nested function, "
    "lambda or method, followed into the same-class methods and sibling closures it calls - stores to self._active_segment "
    "only on paths that compared the slot with a capture (see 8) and found it identical, or saw the slot empty (is None / "
    "falsy: installing into a free slot orphans nobody), or installed its content themselves, and dereferences "
    "self._active_segment.<attr> (also through a local read from the slot) only on paths that found it identical to a "
    "capture; a helper method that stores to the slot ends that knowledge. A completion overtaken by _cancel_request "
    "therefore cannot clear the slot of the next fetcher (orphaning it, fetching its segment twice) nor raise / fail into "
    "a read that cancelled nothing. fetch_failed, _cancel_request, stop and _start_new_segment called synchronously are "
    "not continuations and are decided by (2)/(8); "
    "(14) _cancel_request tells the cancelling Cancel handle from the handles the other reads of the node have queued: its "
    "comparison is `is`/`is not`, or the handle class (found through the constructor call of get_segment) compares by identity "
    "(no __eq__/__ne__ other than `return self is other` in its package-local MRO, no dataclass/attrs decorator that generates "
    "one), or - when handles compare by value - every method that hands the handle to the node's callback has by then stored, "
    "into a compared field, a constant different from the value a fresh handle has there (constructor arguments are the same "
    "for every handle of a node, so a handle that still looks fresh equals every queued one); "
    "(15) re-entrancy from the consumer: for every call Segmentation makes on self._consumer after which (in the same method "
    "or the same-class methods it calls) an attribute is still stored that decides which segment _fetch_next asks for or "
    "whether the read is complete (_offset, _size), no public producer method (pause/resume/stopProducing) has a way to "
    "get_segment made of direct self.m() calls only (eventually()/callbacks end the stack) whose tests are open given the "
    "constants the calling method and the route have stored (a busy flag set around the call closes it); "
    "(16) the writer (the one method that writes to the consumer: it checks the segment against the read's position and "
    "advances it) is entered as the success callback of the segment's own request; for every other route into it (a method "
    "that calls it or hands it on outside the registrations on the segment Deferred, e.g. for a segment held back while the "
    "consumer is paused) no CFG path of any Segmentation method, consistent with the None / not-None tests of self attributes "
    "on it, lets a fetch route (a method from which get_segment is reachable other than through the writer) run ahead of the "
    "hand-over: a direct fetch before a direct or scheduled hand-over, a direct fetch after a scheduled hand-over, or a "
    "scheduled fetch before a scheduled hand-over (the position still points at the held segment, so the same segment is "
    "requested again and the duplicate is rejected once the position has moved).  "
    "Undecided: for (16): that a held segment is handed over exactly once (the holder being cleared), hand-over and fetch "
    "that are started by different activations or through nested functions, different schedulers with different latencies, "
    "a design that keeps the request recorded while its segment is held; whether a foreign call made between the identity check and the store can re-enter the node and change the "
    "slot (log.msg, seg_ev.*, fetcher.stop/add_shares are assumed not to), continuations registered on the node's behalf "
    "outside DownloadNode (ShareFinder / Share call got_shares, no_more_shares: they address whichever fetcher is current), "
    "generator-style gaps (none in the class), a guard hidden in a helper that is not a single `return <test>` (reported as "
    "ANALYSIS-ERROR, not as a violation), whether a truthiness-guarded dereference in a continuation is intended for "
    "whichever fetcher is current (reported: the rule demands the identity check); (13) is not adopted by C46 - an "
    "overtaken completion duplicates fetches and fails unrelated reads, but no schedule was found on which a read hangs; "
    "the the past-the-end check when it is moved into a helper whose result the loop method must honour, the "
    "BADSEGNUM notification of Share (the fetcher's own check at the top of the next pass makes up for it), "
    "outcomes of interleavings, Twisted producer/consumer flow control beyond the pause/resume flag (the "
    "_alive gate, _hungry/_alive after completion or stopProducing, register/unregisterProducer), a "
    "_start_new_segment inlined into its callers, what happens to a read whose fetch fails (the _error errback, the "
    "errback of stopProducing, the failure branch of process_blocks._deliver beyond handing the failure on), the "
    "integrity checks of _check_ciphertext_hash (other properties), download-status bookkeeping; for (14): a handle class "
    "with a base or decorator outside the package (ANALYSIS-ERROR), whether a compared field that is not a constant can tell "
    "handles apart, value comparison of SegmentFetcher objects in the `!=` spelling of the ownership guard; for (15): "
    "re-entrant calls made by anything but the consumer (log observers, the read's Deferred callbacks), a consumer that "
    "re-enters through the download node rather than through its producer.")
TECHNIQUE = ("static analysis: who-may-write/call sweeps, CFG gate rules on the cancel path (inter-procedural typestate with "
             "function summaries), in-class route gating of get_segment, normal forms of the clip and trim, Deferred callback-chain "
             "order and result flow, must-follow rules for start/deliver, integer-exact implication of segnum/count edge facts "
             "on the fetcher's bad-segment-number path, trapped failure classes of the retry errback, "
             "continuation discovery (Deferred registrations / eventually) with a CFG x (owned, empty) typestate of the fetcher slot "
             "whose identity-test edges are judged against reaching-definition captures taken before the asynchronous gap, "
             "equality semantics of the handle class (MRO / decorator reading) with a must-precede rule on the notifying call, "
             "same-stack call routes with constant propagation of gate flags from the consumer call-out, "
             "now/later ordering automaton over the CFG for fetch routes versus second routes into the writer")

NODE = "immutable.downloader.node:DownloadNode"
SEG = "immutable.downloader.segmentation:Segmentation"
DECR = "immutable.filenode:DecryptingConsumer"


def all_funcs_of(ci):
    out = []

    def rec(f):
        out.append(f)
        for g in f.nested.values():
            rec(g)
    for m in ci.methods.values():
        rec(m)
    return out


ACTIVE = "self._active_segment"


def follow_copies(sym, node, expr, depth=6):
    """(node, expr): plain-name copies (`rv = x; return rv`) followed to the expression that defines the value, with
    the CFG node at which that expression is evaluated.  Stops at a name with several (or no) reaching definitions."""
    while depth > 0 and isinstance(expr, ast.Name):
        ds = sym.rd.get(node.id, {}).get(expr.id, frozenset())
        if len(ds) != 1:
            break
        (d,) = tuple(ds)
        if d == C.PARAM_DEF:
            break
        dn = sym.cfg.nodes[d]
        v = sym.fnorm._def_value(dn, expr.id)
        if v is None:
            break
        node, expr, depth = dn, v, depth - 1
    return node, expr


def copy_root(sym, node, expr, depth=6):
    """(node, name expr): like follow_copies, but stops at the last plain name of the chain (the variable that was
    bound to a non-name value), so that what is registered on / stored through that variable can be looked up."""
    while depth > 0 and isinstance(expr, ast.Name):
        ds = sym.rd.get(node.id, {}).get(expr.id, frozenset())
        if len(ds) != 1:
            break
        (d,) = tuple(ds)
        if d == C.PARAM_DEF:
            break
        dn = sym.cfg.nodes[d]
        v = sym.fnorm._def_value(dn, expr.id)
        if not isinstance(v, ast.Name):
            break
        node, expr, depth = dn, v, depth - 1
    return node, expr


def _is_none(v):
    return isinstance(v, ast.Constant) and v.value is None


def self_callee(fn, call):
    """The same-class method called by `self.m(..)` inside fn (also from a nested function), else None."""
    f = call.func
    if fn.cls is not None and isinstance(f, ast.Attribute) and isinstance(f.value, ast.Name) and f.value.id == "self":
        return fn.cls.lookup(f.attr)
    return None


def self_method_value(fn, e):
    """The same-class method named by the bare value `self.m` (a method passed on, e.g. to eventually())."""
    if fn.cls is not None and isinstance(e, ast.Attribute) and isinstance(e.value, ast.Name) and e.value.id == "self":
        return fn.cls.lookup(e.attr)
    return None


class ActiveFetcher:
    """Inter-procedural typestate of DownloadNode._active_segment over one method and the same-class methods it calls
    (function summaries: state at entry -> set of states at the normal exit).

    state = (stopped, phase).  stopped: the active SegmentFetcher has been retired (stopped, or it finished by itself).
    phase 0: _active_segment may still be bound to it; 1: _active_segment was reset to None; 2: a method that installs
    the next fetcher (_start_new_segment) ran after the reset."""

    def __init__(self, idx, ci, own=None):
        """own: an Ownership; an edge on which a continuation has seen that the slot no longer holds the fetcher it
        is completing means there is nothing (left) for it to retire."""
        self.idx = idx
        self.ci = ci
        self.own = own
        self._syms = {}
        self._memo = {}
        self.states = 0
        self.starters = {m.qual for m in all_funcs_of(ci) if m.name != "__init__" and m.cfg().find(self.installs)}
        if not self.starters:
            raise AnchorVanished("no DownloadNode method installs a SegmentFetcher in _active_segment")

    @staticmethod
    def installs(n):
        return ACTIVE in node_stores(n) and not _is_none(assign_value(n, ACTIVE))

    def sym(self, fn):
        if fn.qual not in self._syms:
            self._syms[fn.qual] = Sym(self.idx, fn)
        return self._syms[fn.qual]

    def stop_calls(self, fn, n):
        """(call, receiver normal form) of the x.stop() calls at node n that are not calls of a same-class method."""
        out = []
        for c in node_calls(n):
            if call_tail(c) == "stop" and isinstance(c.func, ast.Attribute) and self_callee(fn, c) is None:
                out.append((c, nf(self.sym(fn).expand(n, c.func.value))))
        return out

    def step(self, fn, n, st, stack):
        cur = {st}

        def started(states):
            return {(s, 2 if p == 1 else p) for (s, p) in states}
        for c in node_calls(n):
            callee = self_callee(fn, c)
            if callee is not None and callee.qual in self.starters:
                cur = started(cur)
            elif callee is not None and callee.qual not in stack:
                nxt = set()
                for s_ in cur:
                    nxt |= self.outputs(callee, s_, stack)
                cur = nxt
            for a in list(c.args) + [k.value for k in c.keywords]:
                m = self_method_value(fn, a)
                if m is not None and m.qual in self.starters:
                    cur = started(cur)        # scheduled: eventually(self._start_new_segment)
        for (c, rv) in self.stop_calls(fn, n):
            if rv == ACTIVE:
                cur = {(True, p) for (_s, p) in cur}
        if ACTIVE in node_stores(n):
            ph = 1 if _is_none(assign_value(n, ACTIVE)) else 0
            cur = {(s, ph) for (s, _p) in cur}
        return cur

    def run(self, fn, st0, stack=()):
        """(visited product states, parent map) of fn started in st0; helpers are entered through their summaries."""
        cfg = fn.cfg()
        stack = tuple(stack) + (fn.qual,)
        s0 = (cfg.entry.id, st0)
        seen = {s0}
        parent = {s0: None}
        todo = [s0]
        cache = {}
        while todo:
            cur = todo.pop(0)
            nid, st = cur
            n = cfg.nodes[nid]
            for (d, lab) in cfg.succ[nid]:
                if n.kind in ("entry", "exit", "raise") or lab == "exc":
                    outs = {st}
                else:
                    if cur not in cache:
                        cache[cur] = self.step(fn, n, st, stack)
                    outs = cache[cur]
                    if self.own is not None and self.own.abandons(fn, n, lab):
                        outs = {(False, p) for (_s, p) in outs}
                for ns in outs:
                    nxt = (d, ns)
                    if nxt not in seen:
                        seen.add(nxt)
                        parent[nxt] = (cur, lab)
                        todo.append(nxt)
        self.states += len(seen)
        return seen, parent

    def outputs(self, fn, st, stack=()):
        key = (fn.qual, st)
        if key not in self._memo:
            seen, _p = self.run(fn, st, stack)
            ex = fn.cfg().exit.id
            self._memo[key] = {s for (nid, s) in seen if nid == ex}
        return self._memo[key]

    def may_stop(self, fn, n):
        """Executing node n of fn (including the same-class methods it calls) can stop the active fetcher."""
        if n.kind in ("entry", "exit", "raise"):
            return False
        return any(s for (s, _p) in self.step(fn, n, (False, 0), (fn.qual,)))

    def reached_methods(self, fn):
        """fn and the same-class methods it calls, transitively (the methods that install the next fetcher excluded)."""
        out, todo = {}, [fn]
        while todo:
            g = todo.pop()
            if g.qual in out:
                continue
            out[g.qual] = g
            for c in calls_in_func(g):
                h_ = self_callee(g, c)
                if h_ is not None and h_.qual not in self.starters:
                    todo.append(h_)
        return list(out.values())


# ------------------------------------------------------------------ who still owns the active-fetcher slot
REG_TAILS = {"addCallback": "cb", "addErrback": "eb", "addBoth": "both", "addCallbacks": "pair"}
SCHEDULERS = {"eventually": 0, "callLater": 1}      # callee tail -> position of the callable that runs on a later turn


class Continuation:
    """fn runs on a later reactor turn: it was handed to addCallback/addErrback/addBoth/addCallbacks (also wrapped in
    eventually) or to eventually()/callLater() by `call`, CFG node `node` of the function `host`.
    bind: {parameter of fn: argument AST evaluated in host when the continuation is registered}."""
    __slots__ = ("host", "call", "node", "fn", "bind", "how")

    def __init__(self, host, call, node, fn, bind, how):
        self.host, self.call, self.node, self.fn, self.bind, self.how = host, call, node, fn, bind, how


class Finding:
    __slots__ = ("fn", "ast", "what", "attr", "witness", "via")

    def __init__(self, fn, a, what, attr, w, via):
        self.fn, self.ast, self.what, self.attr, self.witness, self.via = fn, a, what, attr, w, via


class Ownership:
    """Static model of `may this code still treat self._active_segment as the fetcher it is completing?`.

    Code that runs after an asynchronous gap (a Continuation) knows that only by comparing the slot with a value
    that was read from the slot *before* the gap: a local of the registering function, read from
    self._active_segment on every path to the registration, never re-bound, with no store to the slot between the
    read and the function's return, and either closed over by the continuation or handed to it as an extra
    callback argument (or: a parameter that every caller in the package fills with the calling fetcher itself).
    Such a name is a *capture*.  edge(..) classifies a CFG edge of a continuation:
      own      slot IS a capture          abandon  slot IS NOT a capture
      empty    slot is None / falsy       full     slot is not None / truthy
    Locals of the continuation are followed to their unique reaching definition as long as nothing between the
    definition and the use can store to the slot (so `cur = self._active_segment` inside the continuation is the
    slot, never a capture).  A guard moved into a helper is read when the helper is one `return <test>`."""

    def __init__(self, idx, ci):
        self.idx = idx
        self.ci = ci
        self._lams = {}
        self.funcs = self._all_funcs()
        self._rd = {}
        self._direct = {}
        self._closure = {}
        self._memo = {}
        self._capmemo = {}
        self.opaque = {}            # qual of the function with the test -> helper FuncInfo the rule cannot read
        self.states = 0
        self.roots = self._registrations()
        self._caps_of = {}
        self._hosts = {}

    # -- functions of the class, nested functions and lambdas
    def lam(self, parent, node):
        f = self._lams.get(id(node))
        if f is None:
            f = FuncInfo(parent.module, node, "%s.<lambda@%d:%d>" % (parent.qual, node.lineno, node.col_offset), parent.cls, parent)
            self._lams[id(node)] = f
        return f

    def _all_funcs(self):
        out, todo, seen = [], list(all_funcs_of(self.ci)), set()
        while todo:
            f = todo.pop(0)
            if f.qual in seen:
                continue
            seen.add(f.qual)
            out.append(f)
            for x in func_own_nodes(f):
                if isinstance(x, ast.Lambda):
                    todo.append(self.lam(f, x))
        return out

    def lexical(self, f, name):
        """The nested function called `name` that is visible from f (f's own, or one of an enclosing function)."""
        g = f
        while g is not None:
            if name in g.nested:
                return g.nested[name]
            g = g.parent
        return None

    def binder(self, f, name):
        """The function whose local (or parameter) a load of `name` inside f refers to; None for globals."""
        g = f
        while g is not None:
            if name in g.params or name in self.locals_of(g):
                return g
            g = g.parent
        return None

    def locals_of(self, f):
        key = ("locals", f.qual)
        if key not in self._memo:
            self._memo[key] = set(all_defs(f))
        return self._memo[key]

    def resolve_callable(self, f, t, depth=2):
        """FuncInfo of what the expression t (a callback argument or the callee of a call) names, when that is a
        lambda, a nested function visible from f or a method of the class."""
        if isinstance(t, ast.Lambda):
            return self.lam(f, t)
        if isinstance(t, ast.Name):
            g = self.lexical(f, t.id)
            if g is not None:
                return g
            b = self.binder(f, t.id)
            if b is not None and depth > 0:
                vals = all_defs(b).get(t.id) or []
                if len(vals) == 1 and isinstance(vals[0], (ast.Lambda, ast.Attribute)):
                    return self.resolve_callable(b, vals[0], depth - 1)
            return None
        return self_method_value(f, t)

    # -- continuations registered by the class
    def _registrations(self):
        roots = []
        for host in self.funcs:
            for c in func_own_nodes(host):
                if not isinstance(c, ast.Call):
                    continue
                tail = call_tail(c)
                todo = []           # (callable ast, positional extras, keyword extras, takes the Deferred's result?)
                kws = {k.arg: k.value for k in c.keywords if k.arg}
                if tail in REG_TAILS and isinstance(c.func, ast.Attribute) and c.args:
                    if REG_TAILS[tail] == "pair":
                        def tup(v):
                            return list(v.elts) if isinstance(v, (ast.Tuple, ast.List)) else []
                        cba = tup(kws.get("callbackArgs") or (c.args[2] if len(c.args) > 2 else None))
                        eba = tup(kws.get("errbackArgs") or (c.args[3] if len(c.args) > 3 else None))
                        todo.append((c.args[0], cba, {}, True))
                        eb = kws.get("errback") or (c.args[1] if len(c.args) > 1 else None)
                        if eb is not None:
                            todo.append((eb, eba, {}, True))
                    else:
                        todo.append((c.args[0], list(c.args[1:]), kws, True))
                elif tail in SCHEDULERS and len(c.args) > SCHEDULERS[tail]:
                    i = SCHEDULERS[tail]
                    todo.append((c.args[i], list(c.args[i + 1:]), kws, False))
                for (t, extra, kw, result) in todo:
                    if isinstance(t, (ast.Name, ast.Attribute)) and (attr_path(t) or "").split(".")[-1] in SCHEDULERS and extra:
                        i = SCHEDULERS[(attr_path(t) or "").split(".")[-1]]
                        # d.addCallback(eventually, f, a): eventually(result, ..) is not how it is used; the usual
                        # form is a lambda, which is followed as a continuation of its own
                        t, extra, result = extra[i] if len(extra) > i else None, extra[i + 1:], False
                        if t is None:
                            continue
                    g = self.resolve_callable(host, t)
                    if g is None:
                        continue
                    ps = first_positional_params(g)
                    if result:
                        ps = ps[1:]
                    bind = {p: a for p, a in zip(ps, extra) if not isinstance(a, ast.Starred)}
                    for k, v in kw.items():
                        if k in g.params:
                            bind[k] = v
                    roots.append(Continuation(host, c, node_of(host, c), g, bind, tail))
        return roots

    # -- may a statement store to the slot (directly, or through a function of the class it calls)?
    def rd(self, f):
        if f.qual not in self._rd:
            self._rd[f.qual] = C.reaching_defs(f.cfg())
        return self._rd[f.qual]

    def callees_at(self, f, n):
        out = []
        for c in node_calls(n):
            g = self_callee(f, c)
            if g is None and isinstance(c.func, ast.Name):
                g = self.resolve_callable(f, c.func)
            if g is not None:
                out.append((c, g))
        return out

    @staticmethod
    def reads_slot(f):
        return any(isinstance(x, ast.Attribute) and attr_path(x) == ACTIVE for x in func_own_nodes(f))

    def _close(self, f, what, direct):
        key = (what, f.qual)
        if key not in self._closure:
            seen, todo, hit = set(), [f], False
            while todo and not hit:
                g = todo.pop()
                if g.qual in seen:
                    continue
                seen.add(g.qual)
                hit = direct(g)
                for n in g.cfg().nodes:
                    todo.extend(h_ for (_c, h_) in self.callees_at(g, n))
            self._closure[key] = hit
        return self._closure[key]

    def may_store_fn(self, f):
        return self._close(f, "store", lambda g: any(ACTIVE in node_stores(n) for n in g.cfg().nodes))

    def touches(self, f):
        return self._close(f, "touch", lambda g: self.reads_slot(g) or any(ACTIVE in node_stores(n) for n in g.cfg().nodes))

    def may_store_node(self, f, n):
        if n.kind in ("entry", "exit", "raise"):
            return False
        return ACTIVE in node_stores(n) or any(self.may_store_fn(g) for (_c, g) in self.callees_at(f, n))

    def _reach(self, cfg, start, back=False):
        seen, todo = set(), [start.id]
        edges = cfg.pred if back else cfg.succ
        while todo:
            x = todo.pop()
            for (d, _l) in edges[x]:
                if d not in seen:
                    seen.add(d)
                    todo.append(d)
        return seen

    def clean_between(self, f, d, n):
        """Nothing that runs from the definition node d (included) to the use at node n (included) can store to the slot."""
        key = ("clean", f.qual, d.id, n.id)
        if key not in self._memo:
            cfg = f.cfg()
            mid = (self._reach(cfg, d) & self._reach(cfg, n, back=True)) | {d.id, n.id}
            self._memo[key] = not any(self.may_store_node(f, cfg.nodes[i]) for i in mid)
        return self._memo[key]

    # -- captures
    def _fetcher_param(self, host, name):
        """`name` is a parameter of the method host that every caller in the package fills with `self`, the caller
        being a method of the class whose instances are installed in the slot: the fetcher hands itself in."""
        if host.parent is not None or name not in first_positional_params(host) or name in self.locals_of(host):
            return False
        kinds = set()
        for f in self.funcs:
            for n in f.cfg().nodes:
                if ACTIVE in node_stores(n):
                    v = assign_value(n, ACTIVE)
                    if isinstance(v, ast.Call):
                        k = self.idx.resolve_expr_to_class(f.module, v.func)
                        if k is not None:
                            kinds.add(k.qual)
        sites = [cs for cs in get_callgraph(self.idx).calls_named(host.name)
                 if isinstance(cs.call.func, ast.Attribute) and not (cs.fn.cls is not None and cs.fn.cls.lookup(host.name) not in (None, host))]
        if not sites or not kinds:
            return False
        for cs in sites:
            try:
                a = bind_call_args(host, cs.call).get(name)
            except AnalysisError:
                return False
            if not (isinstance(a, ast.Name) and a.id == "self" and cs.fn.cls is not None
                    and any(k.qual in kinds for k in cs.fn.cls.mro())):
                return False
        return True

    def is_capture(self, host, name, regnode, depth=3):
        """The local `name` of host holds, whenever the continuation registered at regnode runs, the value the slot
        had when host gave up control."""
        key = (host.qual, name, regnode.id)
        if key in self._capmemo:
            return self._capmemo[key]
        self._capmemo[key] = False
        self._capmemo[key] = ok = self._is_capture(host, name, regnode, depth)
        return ok

    def _is_capture(self, host, name, regnode, depth):
        cfg = host.cfg()
        if name in host.params:
            return self._fetcher_param(host, name)
        for x in ast.walk(host.node):
            if isinstance(x, (ast.Nonlocal, ast.Global)) and name in x.names:
                return False
        defs = [n for n in cfg.nodes if name in node_stores(n)]
        if not defs or depth <= 0:
            return False
        fx = self._flownorm(host)
        for d in defs:
            v = fx._def_value(d, name)
            if v is None:
                return False
            if attr_path(v) == ACTIVE:
                pass
            elif isinstance(v, ast.Name) and v.id != name and self.is_capture(host, v.id, d, depth - 1):
                pass
            else:
                return False
            # nothing that host does from the read on can change the slot: the value read is the value at the gap
            after = self._reach(cfg, d) | {d.id}
            if any(self.may_store_node(host, cfg.nodes[i]) for i in after):
                return False
        ids = {d.id for d in defs}
        return not find_path_avoiding(cfg, lambda q: q is regnode, gate_node=lambda q: q.id in ids)

    def _flownorm(self, f):
        key = ("fnorm", f.qual)
        if key not in self._memo:
            self._memo[key] = FlowNorm(f)
        return self._memo[key]

    def pregap_value(self, host, e, regnode):
        """The expression e, evaluated in host when the continuation is registered, is the slot's value at the gap."""
        if isinstance(e, ast.Name):
            return self.is_capture(host, e.id, regnode)
        if attr_path(e) == ACTIVE:
            cfg = host.cfg()
            return not any(self.may_store_node(host, cfg.nodes[i]) for i in self._reach(cfg, regnode))
        return False

    # A continuation's knowledge: (names of its namespace that are captures, qual of the registering function, id of
    # the registration's CFG node).  The last two say relative to which gap a closed-over name is judged.
    def lexical_caps(self, g, host, regnode):
        """Names g closes over that are captures of host for the continuation registered at regnode."""
        key = ("lex", g.qual, host.qual, regnode.id)
        if key not in self._memo:
            out = set()
            bound = set(g.params) | self.locals_of(g)
            for x in func_own_nodes(g, into_lambda=True):
                if isinstance(x, ast.Name) and isinstance(x.ctx, ast.Load) and x.id not in bound and x.id not in out:
                    if self.binder(g, x.id) is host and self.is_capture(host, x.id, regnode):
                        out.add(x.id)
            self._memo[key] = out
        return self._memo[key]

    def root_caps(self, root):
        g, host = root.fn, root.host
        self._hosts[(host.qual, root.node.id)] = (host, root.node)
        names = set(self.lexical_caps(g, host, root.node))
        for p, a in root.bind.items():
            if p not in self.locals_of(g) and self.pregap_value(host, a, root.node):
                names.add(p)
        return (frozenset(names), host.qual, root.node.id)

    def caps_of(self, fn):
        """What fn can rely on, one entry per registration of fn as a continuation (none: fn is not one)."""
        if fn.qual not in self._caps_of:
            self._caps_of[fn.qual] = [self.root_caps(x) for x in self.roots if x.fn is fn]
        return self._caps_of[fn.qual]

    def call_caps(self, f, caps, g, call):
        """Knowledge of the callee g for the call `call` made in f (whose knowledge is `caps`)."""
        names, hq, rid = caps
        out = set()
        ps = first_positional_params(g)
        for i, a in enumerate(call.args):
            if i < len(ps) and isinstance(a, ast.Name) and a.id in names and ps[i] not in self.locals_of(g):
                out.add(ps[i])
        for k in call.keywords:
            if k.arg in g.params and isinstance(k.value, ast.Name) and k.value.id in names and k.arg not in self.locals_of(g):
                out.add(k.arg)
        bound = set(g.params) | self.locals_of(g)
        for v in names:
            if v in bound:
                continue
            b = self.binder(g, v)
            if b is not None and (b is f or b is self.binder(f, v)):
                out.add(v)
        if (hq, rid) in self._hosts:
            out |= self.lexical_caps(g, *self._hosts[(hq, rid)])
        return (frozenset(out), hq, rid)

    # -- what an expression / an edge says about the slot
    def kind(self, f, caps, n, e, depth=3):
        """ACT: the slot's current value; CAP: a capture; NONE; OTHER."""
        if attr_path(e) == ACTIVE:
            return "ACT"
        if _is_none(e):
            return "NONE"
        if isinstance(e, ast.Name):
            if e.id in caps[0]:
                return "CAP"
            ds = self.rd(f).get(n.id, {}).get(e.id)
            if ds and len(ds) == 1 and depth > 0:
                (d,) = tuple(ds)
                if d != C.PARAM_DEF:
                    dn = f.cfg().nodes[d]
                    v = self._flownorm(f)._def_value(dn, e.id)
                    if v is not None and self.clean_between(f, dn, n):
                        return self.kind(f, caps, dn, v, depth - 1)
        return "OTHER"

    @staticmethod
    def single_return(g):
        body = [s for s in g.body if not (isinstance(s, ast.Expr) and isinstance(s.value, ast.Constant))]
        if len(body) == 1 and isinstance(body[0], ast.Return) and body[0].value is not None:
            return body[0].value
        return None

    def truth(self, f, caps, n, e, pol, depth=3):
        while isinstance(e, ast.UnaryOp) and isinstance(e.op, ast.Not):
            e, pol = e.operand, not pol
        if isinstance(e, ast.Compare) and len(e.ops) == 1:
            op = type(e.ops[0])
            if op not in (ast.Is, ast.IsNot, ast.Eq, ast.NotEq):
                return None
            same = (op in (ast.Is, ast.Eq)) == pol
            ks = {self.kind(f, caps, n, e.left), self.kind(f, caps, n, e.comparators[0])}
            if ks == {"ACT", "CAP"}:
                return "own" if same else "abandon"
            if ks == {"ACT", "NONE"}:
                return "empty" if same else "full"
            return None
        if isinstance(e, ast.Call) and depth > 0:
            g = self_callee(f, e)
            if g is None and isinstance(e.func, ast.Name):
                g = self.resolve_callable(f, e.func)
            if g is None:
                return None
            ret = self.single_return(g)
            if ret is None:
                if self.touches(g):
                    self.opaque.setdefault(f.qual, g)
                return None
            rn = [q for q in g.cfg().nodes if is_return(q)]
            if len(rn) != 1:
                return None
            return self.truth(g, self.call_caps(f, caps, g, e), rn[0], ret, pol, depth - 1)
        if isinstance(e, ast.Name) and depth > 0 and e.id not in caps[0]:
            ds = self.rd(f).get(n.id, {}).get(e.id)
            if ds and len(ds) == 1:
                (d,) = tuple(ds)
                if d != C.PARAM_DEF:
                    dn = f.cfg().nodes[d]
                    v = self._flownorm(f)._def_value(dn, e.id)
                    if isinstance(v, (ast.Compare, ast.UnaryOp, ast.Call)) and self.clean_between(f, dn, n):
                        return self.truth(f, caps, dn, v, pol, depth - 1)
        if self.kind(f, caps, n, e) == "ACT":
            return "full" if pol else "empty"
        return None

    def edge(self, f, caps, n, lab):
        if n.kind != "test" or not isinstance(lab, tuple):
            return None
        key = ("edge", f.qual, caps, n.id, lab[0])
        if key not in self._memo:
            self._memo[key] = self.truth(f, caps, n, n.ast, lab[0] == "T")
        return self._memo[key]

    def abandons(self, fn, n, lab):
        """On this edge the continuation fn has seen that the slot does not hold the fetcher it is completing
        (however fn came to be registered)."""
        cs = self.caps_of(fn)
        return bool(cs) and all(self.edge(fn, c, n, lab) == "abandon" for c in cs)

    def refuse_opaque(self, fn, what):
        """Called before a violation is reported on a continuation: a guard that sits in a helper the rule cannot
        read is an analysis error, not a verdict."""
        for n in fn.cfg().nodes:
            if n.kind == "test":
                for (_d, lab) in fn.cfg().succ[n.id]:
                    for c in self.caps_of(fn) or [(frozenset(), None, None)]:
                        self.edge(fn, c, n, lab)
        g = self.opaque.get(fn.qual)
        if g is not None:
            raise AnalysisError("%s tests the result of %s, which reads _active_segment but is not a single `return <test>`: "
                                "the rule cannot tell whether it establishes that the fetcher being completed is still the "
                                "active one (%s)" % (short(fn), short(g), what))

    # -- the walk: every store to / dereference of the slot in code that runs after the gap
    def derefs(self, f, caps, n):
        out = []
        for e in node_exprs(n):
            for x in own_nodes(e):
                if isinstance(x, ast.Attribute) and not (attr_path(x) == ACTIVE) and self.kind(f, caps, n, x.value) == "ACT":
                    out.append(x)
        return out

    def walk(self, g, caps, st0, stack=()):
        """(states at the normal exit, findings, number of stores/dereferences met) of g entered in state
        st0 = (owned, empty).  owned: the slot is known to hold the fetcher being completed (or one this path
        installed itself); empty: the slot is known to hold None."""
        key = ("walk", g.qual, caps, st0)
        if key in self._memo:
            return self._memo[key]
        self._memo[key] = ({(False, False)}, [], 0)       # recursion: assume nothing
        cfg = g.cfg()
        stack = tuple(stack) + (g.qual,)
        s0 = (cfg.entry.id, st0)
        seen, parent, todo = {s0}, {s0: None}, [s0]
        findings, met = [], 0
        flagged = set()
        while todo:
            cur = todo.pop(0)
            nid, st = cur
            n = cfg.nodes[nid]
            special = n.kind in ("entry", "exit", "raise")
            after = {st}
            if not special:
                owned, empty = st
                for x in self.derefs(g, caps, n):
                    met += 1
                    if not owned and (id(x), "d") not in flagged:
                        flagged.add((id(x), "d"))
                        findings.append(Finding(g, x, "deref", x.attr, witness(cfg, parent, cur), ()))
                for (c, h_) in self.callees_at(g, n):
                    if not self.touches(h_):
                        continue
                    nxt = set()
                    for s_ in after:
                        if h_.qual in stack:
                            nxt.add((False, False))
                            continue
                        ex, fs, k = self.walk(h_, self.call_caps(g, caps, h_, c), s_, stack)
                        met += k
                        nxt |= ex
                        for f_ in fs:
                            if (id(f_.ast), f_.what) not in flagged:
                                flagged.add((id(f_.ast), f_.what))
                                findings.append(Finding(f_.fn, f_.ast, f_.what, f_.attr, f_.witness, (g,) + tuple(f_.via)))
                    after = nxt
                if ACTIVE in node_stores(n):
                    met += 1
                    if any(not (o or e_) for (o, e_) in after) and (id(n.ast), "s") not in flagged:
                        flagged.add((id(n.ast), "s"))
                        findings.append(Finding(g, n.ast, "store", None, witness(cfg, parent, cur), ()))
                    v = assign_value(n, ACTIVE)
                    after = {(False, True) if _is_none(v) else ((True, False) if v is not None else (False, False))}
            for (d, lab) in cfg.succ[nid]:
                if special or lab == "exc":
                    outs = {st}
                else:
                    what = self.edge(g, caps, n, lab)
                    outs = set()
                    for (o, e_) in after:
                        if what == "own":
                            outs.add((True, False))
                        elif what == "abandon":
                            outs.add((False, e_))
                        elif what == "empty":
                            outs.add((False, True))
                        elif what == "full":
                            outs.add((o, False))
                        else:
                            outs.add((o, e_))
                for ns in outs:
                    nx = (d, ns)
                    if nx not in seen:
                        seen.add(nx)
                        parent[nx] = (cur, lab)
                        todo.append(nx)
        self.states += len(seen)
        res = ({s for (i, s) in seen if i == cfg.exit.id}, findings, met)
        self._memo[key] = res
        return res

    def stale_guards(self, g, caps):
        """Tests of g that compare the slot with something that is not a capture (for the message)."""
        out = []
        for n in g.cfg().nodes:
            e = n.ast
            if n.kind == "test" and isinstance(e, ast.Compare) and len(e.ops) == 1 \
                    and isinstance(e.ops[0], (ast.Is, ast.IsNot, ast.Eq, ast.NotEq)):
                ks = [self.kind(g, caps, n, e.left), self.kind(g, caps, n, e.comparators[0])]
                if "ACT" in ks and "CAP" not in ks and "NONE" not in ks:
                    out.append(e)
        return out


def fresh_local(r, fn, ctor, what):
    """The constructor call of the per-read object in fn (exactly one) and its CFG node.  Whether the object that
    is *used* is the fresh one is decided by the caller through the reaching definition of the receiver."""
    call = the_call(fn, ctor)
    n = node_of(fn, call)
    for g in func_own_nodes(fn):
        if isinstance(g, (ast.Global, ast.Nonlocal)):
            r.violation(fn, fn.loc(g), "%s uses global state" % short(fn))
    return call, n


def recv_is(expanded, call):
    """The expanded receiver is (a copy of) the constructor call `call`."""
    return isinstance(expanded, ast.Call) and ast.dump(expanded.func) == ast.dump(call.func) and len(expanded.args) == len(call.args)


def run_isolation(ctx, r):
    idx = ctx.idx
    cg = get_callgraph(idx)
    rd = idx.func(NODE + ".read")
    rp = first_positional_params(rd)
    s = Sym(idx, rd)
    sc, sn = fresh_local(r, rd, "Segmentation", "Segmentation")
    r.site(rd, sc, "fresh Segmentation per read")
    # start() is called on that object
    st = the_call(rd, "start")
    recv = s.expand(node_of(rd, st), st.func.value)
    r.require(recv is not None and recv_is(recv, sc), rd, rd.loc(st),
              "the read is started on %s, not on a Segmentation built for this call: reads would share offset/size/consumer" % nf(recv))
    sinit = idx.func(SEG + ".__init__")
    b = bind_call_args(sinit, sc)
    sp = first_positional_params(sinit)
    r.require(nf(b.get(sp[0])) == "self" and nf(b.get(sp[1])) == rp[1] and nf(b.get(sp[3])) == rp[0]
              and isinstance(b.get(sp[2]), ast.Name) and b[sp[2]].id == rp[2], rd, rd.loc(sc),
              "Segmentation is built with %s, not (node, offset, size, consumer) of this read" % src(rd, sc))
    others = [cs for cs in cg.calls_named("Segmentation") if cs.fn.qual != rd.qual]
    for cs in others:
        r.violation(cs.fn, cs.loc, "%s builds a Segmentation outside DownloadNode.read" % short(cs.fn))
    # __init__ keeps its own offset/size/consumer
    si = Sym(idx, sinit, expand_attrs=False)
    for attr, pname in (("self._offset", sp[1]), ("self._size", sp[2]), ("self._consumer", sp[3]), ("self._node", sp[0])):
        stv = si.attr_stores().get(attr)
        r.require(stv is not None and nf(stv[1]) == pname, sinit, sinit.loc(stv[0].ast if stv else None),
                  "Segmentation.%s is not initialised from its own %s argument" % (attr.split(".")[1], pname))

    # fresh DecryptingConsumer
    ird = idx.func("immutable.filenode:ImmutableFileNode.read")
    dc, dn = fresh_local(r, ird, "DecryptingConsumer", "DecryptingConsumer")
    r.site(ird, dc, "fresh DecryptingConsumer per read")
    for cs in cg.calls_named("DecryptingConsumer"):
        if cs.fn.qual != ird.qual:
            r.violation(cs.fn, cs.loc, "%s builds a DecryptingConsumer outside ImmutableFileNode.read" % short(cs.fn))

    # per-read classes: no class-level mutable state; stores only to self.*; node touched only via get_segment
    for clsq, node_names in ((SEG, {"self._node"}), (DECR, set())):
        ci = idx.cls(clsq)
        r.site(ci.module.relpath + " class " + ci.name, None, "stores only to self.*")
        for name, vals in ci.attrs.items():
            for v in vals:
                if isinstance(v, (ast.List, ast.Dict, ast.Set, ast.ListComp, ast.DictComp, ast.SetComp, ast.Call)):
                    r.violation(ci.qual, "%s:%s" % (ci.module.relpath, getattr(v, "lineno", 0)),
                                "class attribute %s.%s = %s is shared by all reads" % (ci.name, name, ast.unparse(v)[:60]))
        for f in all_funcs_of(ci):
            fs = Sym(idx, f)
            for g in func_own_nodes(f):
                if isinstance(g, (ast.Global, ast.Nonlocal)):
                    r.violation(f, f.loc(g), "%s uses global/nonlocal state" % short(f))
            for n in f.cfg().nodes:
                for p in node_stores(n):
                    sub = p.endswith("[]")
                    base = p[:-2] if sub else p
                    if "." not in base and not sub:
                        continue    # plain local
                    # the object written into: owner of the attribute, or the container of the subscript
                    owner = base if sub else ".".join(base.split(".")[:-1])
                    tgt = nf(fs.expand(n, parse_expr(owner)))
                    if tgt == "self" or (sub and (tgt.startswith("self.") and tgt.count(".") == 1 and tgt not in node_names)) \
                            or (sub and "." not in tgt and not tgt.startswith("self") and tgt not in first_positional_params(f)):
                        continue
                    r.violation(f, f.loc(n.ast), "%s stores to %s (object %s): state outside this read is modified" % (short(f), p, tgt))
                r.count(1)
                for c in node_calls(n, into_lambda=True):
                    if isinstance(c.func, ast.Attribute):
                        rv = nf(fs.expand(n, c.func.value))
                        if rv in node_names or rv in ("node",):
                            r.require(c.func.attr in ("get_segment",), f, f.loc(c), "%s calls %s.%s: a read may touch the shared "
                                      "download node only through get_segment" % (short(f), rv, c.func.attr))
    # who-may-write on DownloadNode attributes from segmentation.py / filenode consumers = empty (covered above);
    # each get_segment makes its own Deferred and Cancel
    gs = idx.func(NODE + ".get_segment")
    gss = Sym(idx, gs)
    ap = the_call(gs, "append", lambda c: attr_path(c.func.value) == "self._segment_requests")
    r.site(gs, ap, "own Deferred and Cancel per request")
    tup = ap.args[0] if ap.args else None
    ok = isinstance(tup, ast.Tuple) and len(tup.elts) >= 3
    kinds = [nf(gss.expand(node_of(gs, ap), e)) for e in tup.elts] if ok else []
    gp = first_positional_params(gs)
    r.require(ok and kinds[0] == gp[0] and kinds[1] == "defer.Deferred()" and kinds[2] == "Cancel(self._cancel_request)",
              gs, gs.loc(ap), "the queued request is %s, not (segnum, fresh Deferred, fresh Cancel(self._cancel_request), ..)" % kinds[:3])
    rets = gs.cfg().find(is_return)
    for n in rets:
        v = follow_copies(gss, n, n.ast.value)[1] if n.ast.value is not None else None
        okr = isinstance(v, ast.Tuple) and len(v.elts) == 2 and ok and all(isinstance(x, ast.Name) for x in v.elts) and \
            [x.id for x in v.elts] == [e.id if isinstance(e, ast.Name) else None for e in tup.elts[1:3]]
        r.require(okr, gs, gs.loc(n.ast), "get_segment returns %s, not the (Deferred, Cancel) it queued" % src(gs, v))
    for f in all_funcs_of(idx.cls(NODE)):
        if f.qual.split(":")[1] not in ("DownloadNode.get_segment",):
            for c in calls_in_func(f, "append"):
                if attr_path(c.func.value) == "self._segment_requests":
                    r.violation(f, f.loc(c), "%s queues a segment request outside get_segment" % short(f))


def run_cancel(ctx, r):
    idx = ctx.idx
    gs = idx.func(NODE + ".get_segment")
    ap = the_call(gs, "append", lambda c: attr_path(c.func.value) == "self._segment_requests")
    tup = ap.args[0]
    gss = Sym(idx, gs)
    kinds = [nf(gss.expand(node_of(gs, ap), e)) for e in tup.elts]
    ci_pos = [i for i, k in enumerate(kinds) if k.startswith("Cancel(")]
    seg_pos = [i for i, k in enumerate(kinds) if k == first_positional_params(gs)[0]]
    if len(ci_pos) != 1 or len(seg_pos) != 1:
        raise AnchorVanished("get_segment: request tuple shape changed: %s" % kinds)
    CI, SI = ci_pos[0], seg_pos[0]
    width = len(tup.elts)

    def comp_filter(fn, comp, what):
        """(element index tested, op, other side nf, elt is whole tuple?) of a one-generator, one-condition comprehension
        over self._segment_requests."""
        if not (isinstance(comp, ast.ListComp) and len(comp.generators) == 1):
            return None
        g = comp.generators[0]
        if attr_path(g.iter) != "self._segment_requests":
            return None
        names = {}
        if isinstance(g.target, ast.Tuple):
            if len(g.target.elts) != width:
                return None
            for i, e in enumerate(g.target.elts):
                if isinstance(e, ast.Name):
                    names[e.id] = i
            whole = None
        elif isinstance(g.target, ast.Name):
            whole = g.target.id
        else:
            return None

        def index_of(e):
            if isinstance(e, ast.Name) and e.id in names:
                return names[e.id]
            if isinstance(e, ast.Subscript) and isinstance(e.value, ast.Name) and e.value.id == whole \
                    and isinstance(e.slice, ast.Constant):
                return e.slice.value
            return None
        cond = None
        if len(g.ifs) == 1:
            t = g.ifs[0]
            pol = True
            while isinstance(t, ast.UnaryOp) and isinstance(t.op, ast.Not):
                t, pol = t.operand, not pol
            if isinstance(t, ast.Compare) and len(t.ops) == 1:
                op = {ast.Eq: "==", ast.NotEq: "!=", ast.Is: "==", ast.IsNot: "!="}.get(type(t.ops[0]))
                if op and not pol:
                    op = "!=" if op == "==" else "=="
                for a, b_ in ((t.left, t.comparators[0]), (t.comparators[0], t.left)):
                    if index_of(a) is not None and op:
                        cond = (index_of(a), op, nf(b_))
        elif len(g.ifs) == 0:
            cond = (None, None, None)
        return cond, index_of(comp.elt) if not (isinstance(comp.elt, ast.Name) and comp.elt.id == whole) else "whole", comp

    # ---- _cancel_request
    cr = idx.func(NODE + "._cancel_request")
    cp = first_positional_params(cr)
    crs = Sym(idx, cr)
    cfg = cr.cfg()
    st_nodes = [n for n in cfg.nodes if "self._segment_requests" in node_stores(n)]
    if len(st_nodes) != 1:
        raise AnchorVanished("_cancel_request: expected one store to self._segment_requests")
    fnode = st_nodes[0]
    r.site(cr, fnode.ast, "removes only the cancelling request")
    cf = comp_filter(cr, assign_value(fnode, "self._segment_requests"), "filter")
    r.require(cf is not None and cf[0] == (CI, "!=", cp[0]) and cf[1] == "whole", cr, cr.loc(fnode.ast),
              "cancel keeps %s: it must keep exactly the requests whose Cancel handle (tuple index %d) is not the "
              "cancelling one" % (src(cr, fnode.ast.value), CI))
    # the statements of _cancel_request that can stop the active fetcher, directly or through a same-class helper
    eff = ActiveFetcher(idx, idx.cls(NODE))
    stops = [n for n in cfg.nodes if eff.may_stop(cr, n)]
    if not stops:
        raise AnchorVanished("_cancel_request no longer stops the active fetcher")
    stop_ids = {n.id for n in stops}
    fnorm = FlowNorm(cr)
    r.site(cr, stops[0].ast, "stop only when the active segment is unwanted")
    segvars = {}
    for n in cfg.nodes:
        if n.kind == "stmt" and isinstance(n.ast, ast.Assign) and len(n.ast.targets) == 1 and isinstance(n.ast.targets[0], ast.Name):
            c2 = comp_filter(cr, n.ast.value, "segnums")
            if c2 is not None and c2[0] == (None, None, None) and c2[1] == SI:
                segvars[n.ast.targets[0].id] = n

    def unwanted(n, lab):
        f = fnorm.edge_fact(n, lab)
        return bool(f) and f[0] == "not in" and f[1] == "self._active_segment.segnum" and f[2] in segvars
    for (n, w) in find_path_avoiding(cfg, lambda q: q.id in stop_ids, gate_edge=unwanted,
                                     kill=lambda q: "self._segment_requests" in node_stores(q) and q is not fnode):
        r.violation(cr, cr.loc(n.ast), "cancelling one read stops the active fetcher although another request may still want "
                    "its segment (path: %s)" % w.brief(), w)
    # nothing but the active fetcher is stopped, in _cancel_request or in the same-class methods it calls
    for g in eff.reached_methods(cr):
        for n in g.cfg().nodes:
            for (c, rv) in eff.stop_calls(g, n):
                r.require(rv == ACTIVE, g, g.loc(c), "cancelling one read stops %s%s" % (
                    rv, "" if g is cr else " (in %s, called from _cancel_request)" % short(g)))
    for f in all_funcs_of(idx.cls(NODE)):
        nm = f.qual.split(":")[1]
        for n in f.cfg().nodes:
            if "self._segment_requests" in node_stores(n) and nm not in (
                    "DownloadNode.__init__", "DownloadNode._cancel_request", "DownloadNode._extract_requests"):
                r.violation(f, f.loc(n.ast), "%s rewrites the shared request queue" % nm)

    # ---- _extract_requests partitions by segment number
    er = idx.func(NODE + "._extract_requests")
    ep = first_positional_params(er)
    keep = [n for n in er.cfg().nodes if "self._segment_requests" in node_stores(n)]
    rets = er.cfg().find(is_return)
    if len(keep) != 1 or len(rets) != 1:
        raise AnchorVanished("_extract_requests shape changed")
    r.site(er, keep[0].ast, "partition by segment number")
    kf = comp_filter(er, assign_value(keep[0], "self._segment_requests"), "keep")
    r.require(kf is not None and kf[0] == (SI, "!=", ep[0]) and kf[1] == "whole", er, er.loc(keep[0].ast),
              "requests kept after delivery: %s (must be exactly those for other segments)" % src(er, keep[0].ast.value))
    ers = Sym(idx, er)
    rv = rets[0].ast.value
    if isinstance(rv, ast.Name):
        dnode, rv = follow_copies(ers, rets[0], rv)
        r.require(dnode is not rets[0] and not isinstance(rv, ast.Name) and not dominated_by(er.cfg(), keep[0], dnode),
                  er, er.loc(rets[0].ast), "the retired requests are computed after the queue was already filtered")
    rf = comp_filter(er, rv, "retire")
    r.require(rf is not None and rf[0] == (SI, "==", ep[0]), er, er.loc(rets[0].ast),
              "requests retired for segment %s: %s" % (ep[0], src(er, rv)))
    if rf is not None and isinstance(rf[2].elt, ast.Tuple):
        g = rf[2].generators[0]
        pos = {e.id: i for i, e in enumerate(g.target.elts) if isinstance(e, ast.Name)} if isinstance(g.target, ast.Tuple) else {}
        got = [pos.get(e.id) if isinstance(e, ast.Name) else None for e in rf[2].elt.elts]
        r.require(got[:2] == [1, CI], er, er.loc(rets[0].ast), "retired entries are not (Deferred, Cancel, ..) of the request: %s" % got)

    # ---- Cancel.cancel / _deliver are one-shot
    cc = idx.func("immutable.downloader.node:Cancel.cancel")
    r.site(cc, None, "one-shot cancel")
    fnc = FlowNorm(cc)

    def cleared(q):
        v = assign_value(q, "self.active")
        return isinstance(v, ast.Constant) and v.value is False

    def was_inactive(q, lab):
        f = fnc.edge_fact(q, lab)
        return bool(f) and f[0] == "false" and f[1] == "self.active"
    for (n, w) in find_path_avoiding(cc.cfg(), lambda q: q.kind == "exit", gate_node=cleared, gate_edge=was_inactive):
        r.violation(cc, cc.loc(), "after cancel() the handle can still be active: a segment that is already on its way "
                    "would be delivered to the cancelled read", w)
    fcalls = [c for c in calls_in_func(cc) if call_name(c) == "self._f"]
    r.require(bool(fcalls), cc, cc.loc(), "cancel() no longer tells the node")
    for c in fcalls:
        r.require(len(c.args) == 1 and nf(c.args[0]) == "self", cc, cc.loc(c), "cancel passes %s, not itself" % src(cc, c))
    dl = idx.func(NODE + "._deliver")
    dp = first_positional_params(dl)
    r.site(dl, None, "deliver only to uncancelled requests")
    for (n, w) in gated_by_truth(dl, has_call("callback"), dp[1] + ".active"):
        r.violation(dl, dl.loc(n.ast), "a segment is delivered to a request that was cancelled", w)
    for n in dl.cfg().find(has_call("callback")):
        c = calls_at(n, "callback")[0]
        r.require(nf(c.func.value) == dp[0] and len(c.args) == 1 and nf(c.args[0]) == dp[2], dl, dl.loc(c),
                  "_deliver fires %s" % src(dl, c))
    # ---- Segmentation keeps and cancels only its own handle
    fn_ = idx.func(SEG + "._fetch_next")
    fs = Sym(idx, fn_)
    gcall = the_call(fn_, "get_segment")
    stc = [n for n in fn_.cfg().nodes if "self._cancel_segment_request" in node_stores(n)]
    r.site(fn_, gcall, "own cancel handle")
    okh = len(stc) == 1 and nf(fs.expand(stc[0], assign_value(stc[0], "self._cancel_segment_request"))) == \
        nf(fs.expand(node_of(fn_, gcall), gcall)) + "[1]"
    r.require(okh, fn_, fn_.loc(gcall), "the handle kept for cancelling is not the one returned by this get_segment call")
    sp_ = idx.func(SEG + ".stopProducing")
    for f in all_funcs_of(idx.cls(SEG)):
        for c in calls_in_func(f, "cancel", into_lambda=True):
            r.require(f is sp_ and nf(c.func.value) == "self._cancel_segment_request", f, f.loc(c),
                      "%s cancels %s" % (short(f), nf(c.func.value)))
    r.require(bool(calls_in_func(sp_, "cancel")), sp_, sp_.loc(), "stopProducing no longer cancels the outstanding segment request")
    HANDLE = "self._cancel_segment_request"
    fsp = FlowNorm(sp_)

    def cancels_handle(q):
        return any(isinstance(c.func, ast.Attribute) and nf(c.func.value) == HANDLE for c in calls_at(q, "cancel"))

    def no_handle(q, lab):
        f = fsp.edge_fact(q, lab)
        return bool(f) and ((f[0] == "false" and f[1] == HANDLE) or (f[0] in ("is", "==") and {f[1], f[2]} == {"None", HANDLE}))
    r.site(sp_, None, "the outstanding request is cancelled whenever there is one")
    for (n, w) in find_path_avoiding(sp_.cfg(), lambda q: q.kind == "exit", gate_node=cancels_handle, gate_edge=no_handle,
                                     skip_exc_edges=True):
        r.violation(sp_, sp_.loc(), "stopProducing can finish without cancelling the segment request it has outstanding (%s is "
                    "set on this path): the node goes on fetching for, and delivers to, a read that was stopped (path: %s)"
                    % (HANDLE, w.brief()), w)


def seg_fetcher(idx):
    """(Segmentation class, its functions, the one method F that calls get_segment, that call, its CFG node,
    {qual: method} of the methods from which the get_segment call is reachable inside the class)."""
    ci = idx.cls(SEG)
    funcs = all_funcs_of(ci)
    fetchers = [f for f in funcs if calls_in_func(f, "get_segment", into_lambda=True)]
    if len(fetchers) != 1:
        raise AnchorVanished("Segmentation: expected one method that calls get_segment, found %d" % len(fetchers))
    F = fetchers[0]
    gc = the_call(F, "get_segment")
    gn = node_of(F, gc)
    reach = {F.qual: F}
    grew = True
    while grew:
        grew = False
        for g in funcs:
            if g.qual in reach:
                continue
            for x in func_own_nodes(g, into_lambda=True):
                m_ = self_method_value(g, x) if isinstance(x, ast.Attribute) else None
                if m_ is not None and m_.qual in reach:
                    reach[g.qual] = g
                    grew = True
                    break
    return ci, funcs, F, gc, gn, reach


def run_outstanding(ctx, r):
    """At most one segment request of a read is outstanding at any time (C04.7)."""
    idx = ctx.idx
    ci, funcs, F, gc, gn, reach = seg_fetcher(idx)
    fs = Sym(idx, F)
    fcfg = F.cfg()
    handle = nf(fs.expand(gn, gc)) + "[1]"
    r.site(F, gc, "one outstanding segment request per read")

    # -- the record(s) of the outstanding request: self attributes that _fetch_next sets to a non-constant value.
    #    'handle' is the Cancel object returned by get_segment (always truthy); anything else ('value', the segment
    #    number) has the legitimate falsy value 0, so only a comparison with None tells 'nothing outstanding'.
    kinds = {}
    for n in fcfg.nodes:
        for p in node_stores(n):
            if not p.startswith("self.") or p.endswith("[]") or p.count(".") != 1:
                continue
            v = assign_value(n, p)
            if v is None:
                continue
            ev = fs.expand(n, v)
            if isinstance(ev, ast.Constant):
                continue
            kinds[p] = "handle" if nf(ev) == handle else "value"
    if not kinds:
        raise AnchorVanished("%s keeps no record of the outstanding segment request" % short(F))
    cancel_cls = idx.cls("immutable.downloader.node:Cancel")
    handle_truthy = cancel_cls.lookup("__bool__") is None and cancel_cls.lookup("__len__") is None

    def is_reset(n, m):
        return m in node_stores(n) and _is_none(assign_value(n, m))

    def is_set(n, m):
        return m in node_stores(n) and not _is_none(assign_value(n, m))

    def resets_any(n):
        return any(is_reset(n, m) for m in kinds)
    used = set()
    weak = {}
    fnorms = {}

    def gate_of(fn):
        if fn.qual not in fnorms:
            fnorms[fn.qual] = FlowNorm(fn)
        fnorm = fnorms[fn.qual]

        def g(n, lab):
            f = fnorm.edge_fact(n, lab)
            if not f:
                return False
            for m, k in kinds.items():
                if f[0] in ("is", "==") and {f[1], f[2]} == {"None", m}:
                    used.add(m)
                    return True
                if f[0] == "false" and f[1] == m:
                    if k == "handle" and handle_truthy:
                        used.add(m)
                        return True
                    weak.setdefault(fn.qual, (fn, n, m))
            return False
        return g

    # -- the Deferred of the request and the callbacks registered on it: they run when the request has been retired
    dname = None
    if isinstance(gn.ast, ast.Assign) and len(gn.ast.targets) == 1 and isinstance(gn.ast.targets[0], (ast.Tuple, ast.List)) \
            and gn.ast.value is gc and gn.ast.targets[0].elts and isinstance(gn.ast.targets[0].elts[0], ast.Name):
        dname = gn.ast.targets[0].elts[0].id
    if dname is None:
        raise AnchorVanished("%s: cannot identify the Deferred returned by get_segment" % short(F))
    regs = registrations(F, dname)
    if not regs:
        raise AnchorVanished("%s registers no callback on the segment Deferred" % short(F))
    reg_nodes = set()
    for reg in regs:
        for t in (reg.target, reg.errtarget):
            if t is not None:
                reg_nodes |= {id(x) for x in ast.walk(t)}

    def refs_to(target):
        """[(g, cfg nodes of g)] where the method `target` is called or passed on as a value; the callbacks on the
        segment Deferred are left out (they are decided by the retire rule below)."""
        out = []
        for g in funcs:
            ns = []
            for n in g.cfg().nodes:
                hit = False
                for e in node_exprs(n):
                    for x in own_nodes(e, into_lambda=True):
                        if id(x) in reg_nodes:
                            continue
                        if target.parent is None:
                            hit = hit or (self_method_value(g, x) is target and isinstance(x.ctx, ast.Load))
                        else:
                            hit = hit or (isinstance(x, ast.Name) and x.id == target.name and isinstance(x.ctx, ast.Load)
                                          and (g is target.parent or g.parent is target.parent))
                if hit:
                    ns.append(n)
            if ns:
                out.append((g, ns))
        return out

    # -- (a) every route from a method the consumer may call at any time to get_segment passes `record is None`.
    #    start() is exempt: it runs once on the fresh object (C04.1), whose records __init__ sets to None.
    rd = idx.func(NODE + ".read")
    start_fn = ci.lookup(the_call(rd, "start").func.attr)
    if start_fn is None:
        raise AnchorVanished("DownloadNode.read starts the Segmentation with an unknown method")
    bad_routes = []

    def routes(fn, targets, chain, seen):
        ws = find_path_avoiding(fn.cfg(), lambda q: q.id in targets, gate_node=resets_any, gate_edge=gate_of(fn))
        r.count(len(fn.cfg().nodes))
        if not ws or fn is start_fn:
            return
        if not fn.name.startswith("_"):
            bad_routes.append((fn, chain, ws[0][1]))
        for g, ns in refs_to(fn):
            if g.qual not in seen:
                routes(g, {n.id for n in ns}, [g] + chain, seen | {g.qual})
    routes(F, {gn.id}, [F], {F.qual})
    entries = [g for g in funcs if not g.name.startswith("_") and g is not start_fn and g.qual in reach]
    for g in entries:
        r.site(g, None, "reaches get_segment only when no request is outstanding")
    reported = set()
    for (entry, chain, w) in bad_routes:
        how = " -> ".join(f.name for f in chain) + " -> get_segment"
        culprit = next((weak[f.qual] for f in chain if f.qual in weak), None)
        if culprit is not None:
            cf, cn, cm = culprit
            key, where, loc = cf.qual, cf, cf.loc(cn.ast)
            msg = ("%s tests the record of the outstanding segment request (%s) by truthiness, but it holds a segment "
                   "number and segment 0 is falsy: while segment 0 is being fetched %s() issues a second request for the "
                   "same read (%s), whose delivery no longer matches the advanced offset" % (short(cf), cm, entry.name, how))
        else:
            key, where, loc = entry.qual, entry, entry.loc()
            msg = ("%s() can ask the node for a segment (%s) without having seen that no request of this read is outstanding "
                   "(%s is None): a pause/resume while a segment is being fetched issues a duplicate request and the read "
                   "fails or delivers the wrong bytes" % (entry.name, how, " / ".join(sorted(kinds))))
        if key not in reported:
            reported.add(key)
            r.violation(where, loc, msg, w)
    init = ci.lookup("__init__")
    for m in sorted(used):
        r.require(init is not None and not find_path_avoiding(init.cfg(), lambda q: q.kind == "exit",
                                                              gate_node=lambda q, _m=m: is_reset(q, _m)),
                  init or F, (init or F).loc(), "a fresh Segmentation does not start with %s = None" % m)

    # -- (b) _fetch_next records the request it makes
    r.site(F, gc, "the request is recorded")
    for m in sorted(used):
        def transfer(n, lab, nxt, st, _m=m):
            if lab == "exc" or n.kind in ("entry", "exit", "raise"):
                return st
            called, isset = st
            if n is gn:
                called = True
            if is_reset(n, _m):
                isset = False
            elif is_set(n, _m):
                isset = True
            return (called, isset)
        visited, parent = explore(fcfg, (False, False), transfer)
        r.count(len(visited))
        key = (fcfg.exit.id, (True, False))
        if key in visited:
            w = witness(fcfg, parent, key)
            r.violation(F, F.loc(gc), "%s asks the node for a segment but can return with %s unset: the next resumeProducing() "
                        "or retry issues a second request while this one is outstanding (path: %s)" % (short(F), m, w.brief()), w)

    # -- (c) the request is retired (record reset to None) on both outcomes before a callback continues the read
    def must_reset(g, m):
        return not find_path_avoiding(g.cfg(), lambda q: q.kind == "exit", gate_node=lambda q: is_reset(q, m))

    def resets_before_continuing(g, m):
        ns = {n.id for n in g.cfg().nodes for e in node_exprs(n) for x in own_nodes(e, into_lambda=True)
              if isinstance(x, ast.Attribute) and self_method_value(g, x) is not None and self_method_value(g, x).qual in reach}
        return not find_path_avoiding(g.cfg(), lambda q: q.id in ns, gate_node=lambda q: is_reset(q, m))
    flat = []
    for reg in regs:
        if reg.kind == "pair":
            flat.append(({"cb"}, reg.target, reg))
            if reg.errtarget is not None:
                flat.append(({"eb"}, reg.errtarget, reg))
        else:
            flat.append(({"cb": {"cb"}, "eb": {"eb"}, "both": {"cb", "eb"}}[reg.kind], reg.target, reg))
    cleared = {m: set() for m in used}
    retire_fns = set()
    continuing = 0
    for (ch, t, reg) in flat:
        g = self_method_value(F, t)
        if g is None:
            continue
        retire_fns.add(g.qual)
        if g.qual in reach:
            continuing += 1
            for m in sorted(used):
                missing = sorted(c for c in ch if c not in cleared[m])
                if missing and not resets_before_continuing(g, m):
                    r.violation(F, F.loc(reg.call), "%s continues the read on the %s path of the segment Deferred while %s still "
                                "marks the finished request as outstanding: the guard of the next fetch never passes and the read "
                                "stalls" % (short(g), "/".join("success" if c == "cb" else "failure" for c in missing), m))
        for m in used:
            if must_reset(g, m):
                cleared[m] |= ch
    if not continuing:
        raise AnchorVanished("%s: no callback on the segment Deferred continues the read" % short(F))
    r.site(F, regs[0].call, "retired before the read continues")

    # -- (d) the record is forgotten only when the request was retired (callbacks above) or cancelled first
    r.site(ci.module.relpath + " class " + ci.name, None, "who may forget the outstanding request")

    def cancels(q):
        return any(call_tail(c) == "cancel" for c in node_calls(q))
    for m in sorted(used):
        for g in funcs:
            if g.qual in retire_fns or g is init:
                continue
            for n in g.cfg().nodes:
                if is_reset(n, m) and find_path_avoiding(g.cfg(), lambda q, _n=n: q is _n, gate_node=cancels):
                    r.violation(g, g.loc(n.ast), "%s forgets the outstanding segment request (%s = None) although it was neither "
                                "retired nor cancelled: the next resumeProducing() issues a duplicate request for the same read"
                                % (short(g), m))


def run_restart(ctx, r):
    """Whoever retires the active fetcher of the shared node starts the next queued request (C04.8)."""
    idx = ctx.idx
    ci = idx.cls(NODE)
    # a completion that runs on a later turn and sees that the slot no longer holds the fetcher it is completing (the
    # cancel path retired it and has already started the next one) has nothing to reset and nothing to start
    own = Ownership(idx, ci)
    eff = ActiveFetcher(idx, ci, own)
    cr = idx.func(NODE + "._cancel_request")
    todo = [(cr, False, "cancelling a read")]
    for f in all_funcs_of(ci):
        if f is not cr and calls_in_func(f, "_extract_requests") and f.name != "_extract_requests":
            todo.append((f, True, "delivering a segment (or its failure)"))
    for (fn, stopped0, what) in todo:
        cfg = fn.cfg()
        seen, parent = eff.run(fn, (stopped0, 0))
        r.count(len(seen))
        if not any(st[0] for (_n, st) in seen):
            raise AnchorVanished("%s no longer stops the active fetcher" % short(fn))
        r.site(fn, None, "restart after retiring the active fetcher")
        k0, k1 = (cfg.exit.id, (True, 0)), (cfg.exit.id, (True, 1))
        if k0 in seen or k1 in seen:
            own.refuse_opaque(fn, "C04.8")
        if k0 in seen:
            w = witness(cfg, parent, k0)
            r.violation(fn, fn.loc(), "%s: %s can finish with _active_segment still bound to the retired SegmentFetcher: "
                        "_start_new_segment() is then a no-op and the segment requests of the other reads on this node are "
                        "never served (path: %s)" % (short(fn), what, w.brief()), w)
        if k1 in seen:
            w = witness(cfg, parent, k1)
            r.violation(fn, fn.loc(), "%s: %s retires the active fetcher but can finish without _start_new_segment(): the "
                        "requests other reads have queued for other segments are never started, so those reads never "
                        "complete (path: %s)" % (short(fn), what, w.brief()), w)


def run_ownership(ctx, r):
    """Code of DownloadNode that runs after an asynchronous gap touches _active_segment only after it has made sure
    that the slot still holds the fetcher it is completing (C04.13)."""
    idx = ctx.idx
    ci = idx.cls(NODE)
    own = Ownership(idx, ci)
    if not own.roots:
        raise AnchorVanished("DownloadNode registers no Deferred callback / eventually() continuation")
    seen = set()
    for root in own.roots:
        g = root.fn
        if not own.touches(g):
            continue
        caps = own.root_caps(root)
        _exits, findings, met = own.walk(g, caps, (False, False))
        if not met:
            continue
        r.site(root.host, root.call, "%s(%s) runs later and touches _active_segment%s" % (
            root.how, short(g).split(".", 1)[-1], (" knowing " + "/".join(sorted(caps[0]))) if caps[0] else ""))
        findings = [f for f in findings if (id(f.ast), f.what) not in seen]
        if findings:
            own.refuse_opaque(g, "C04.13")
            for f in findings:
                for h_ in f.via:
                    own.refuse_opaque(h_, "C04.13")
                own.refuse_opaque(f.fn, "C04.13")
        for f in findings:
            seen.add((id(f.ast), f.what))
            where = "%s, registered with %s by %s" % (short(g), root.how, short(root.host))
            if f.fn is not g:
                where = "%s (called from %s)" % (short(f.fn), " -> ".join([short(g)] + [short(x) for x in f.via[1:]])) \
                    + ", which runs in the continuation " + where
            stale = own.stale_guards(f.fn, caps if f.fn is g else (frozenset(), None, None)) + (own.stale_guards(g, caps) if f.fn is not g else [])
            hint = ""
            if stale:
                hint = "; `%s` does not help: what the slot is compared with was not read from it before the gap" % src(g, stale[0])
            elif not caps[0]:
                hint = "; nothing this code can see was read from _active_segment before the Deferred was set up"
            if f.what == "store":
                msg = ("%s assigns self._active_segment (`%s`) on a later reactor turn, on a path that has not established that "
                       "the slot still holds the fetcher it is completing (no `self._active_segment is <value read from it "
                       "before the gap>`, nor the slot seen empty)%s: when the only reader of that segment cancels in the "
                       "meantime, _cancel_request() has already retired that fetcher and installed the next one; this store "
                       "orphans the new fetcher, _start_new_segment() fetches its segment a second time, and the stale outcome "
                       "is handed to reads that have nothing to do with it (path: %s)" % (
                           where, src(f.fn, f.ast), hint, f.witness.brief()))
            else:
                msg = ("%s dereferences self._active_segment.%s on a later reactor turn, on a path that has not established "
                       "that the slot still holds the fetcher it is completing%s: by then _cancel_request() may have put None "
                       "or another read's SegmentFetcher there, so this raises (or looks at the wrong fetcher) and the error is "
                       "delivered to a concurrent read that did not cancel anything (path: %s)" % (
                           where, f.attr, hint, f.witness.brief()))
            r.violation(f.fn, f.fn.loc(f.ast), msg, f.witness)
    r.count(own.states)
    # the synchronous retirers are not continuations: fetch_failed is told by the fetcher who it is, _cancel_request /
    # stop swap the slot in one statement.  They are decided by C04.2 / C04.8, not here.


# ------------------------------------------------------------------ Deferred results and callback chains
REGK = {"addCallback": "cb", "addErrback": "eb", "addBoth": "both", "addCallbacks": "pair"}


def callback_func(fn, t):
    """What a callback expression of fn names: the lambda itself, a nested function of fn (or of an enclosing
    function), or a same-class method; None when it is something else."""
    if isinstance(t, ast.Lambda):
        return t
    if isinstance(t, ast.Name):
        f = fn
        while f is not None:
            if t.id in f.nested:
                return f.nested[t.id]
            f = f.parent
        return None
    return self_method_value(fn, t)


class _Flow:
    """Reaching definitions of one function, in the shape follow_copies / copy_root expect."""

    def __init__(self, fn):
        self.fn = fn
        self.cfg = fn.cfg()
        self.fnorm = FlowNorm(fn)
        self.rd = self.fnorm.rd


def callback_returns(fn, t):
    """(parameter names, [normal form of the value returned on each normal way out]) of a callback; 'None' stands
    for falling off the end.  (None, []) when the callback cannot be resolved."""
    g = callback_func(fn, t)
    if g is None:
        return None, []
    if isinstance(g, ast.Lambda):
        return [a.arg for a in g.args.args], [nf(g.body)]
    cfg = g.cfg()
    out = []
    flow = _Flow(g)
    for (pid, lab) in cfg.pred[cfg.exit.id]:
        pn = cfg.nodes[pid]
        if is_return(pn) and pn.ast.value is not None:
            out.append(nf(follow_copies(flow, pn, pn.ast.value)[1]))
        else:
            out.append("None")
    return first_positional_params(g), out


def falls_off_end(fn):
    """fn can finish without a return statement (and so returns None)."""
    cfg = fn.cfg()
    return any(lab != "exc" and not is_return(cfg.nodes[pid]) and cfg.nodes[pid].kind != "entry"
               for (pid, lab) in cfg.pred[cfg.exit.id]) or not cfg.find(is_return)


def passes_through(fn, t):
    ps, rets = callback_returns(fn, t)
    return bool(ps) and bool(rets) and all(x == ps[0] for x in rets)


def unchain(e):
    """x.addCallback(a).addErrback(b) -> (x, [call_a, call_b])."""
    chain = []
    while isinstance(e, ast.Call) and isinstance(e.func, ast.Attribute) and e.func.attr in REGK:
        chain.append(e)
        e = e.func.value
    chain.reverse()
    return e, chain


def flat_regs(regs):
    """[(position, {'cb','eb'}, callable ast, registration call)] - addCallbacks contributes two entries."""
    out = []
    for i, (kind, tgt, err, call) in enumerate(regs):
        if kind == "pair":
            out.append((i, {"cb"}, tgt, call))
            if err is not None:
                out.append((i, {"eb"}, err, call))
        else:
            out.append((i, {"cb": {"cb"}, "eb": {"eb"}, "both": {"cb", "eb"}}[kind], tgt, call))
    return out


def returned_deferred(sym, rn):
    """(origin, success value) of the Deferred returned at the return node rn of sym.fn.  origin: the expanded
    expression the Deferred comes from, callbacks stripped.  success value: normal form of what the Deferred finally
    fires with - 'ORIGIN' when every success callback registered on it in this function hands its argument on, the
    normal form of the returned expression when the last value-changing callback returns one thing, else '?'."""
    fn = sym.fn
    base, chain = unchain(rn.ast.value)
    regs = []
    if isinstance(base, ast.Name):
        at = rn
        if not chain:
            at, base = copy_root(sym, rn, base)       # rv = d; return rv
        regs = [(x.kind, x.target, x.errtarget, x.call) for x in registrations(fn, base.id)]
        origin, chain0 = unchain(sym.expand(at, base))
        # a chain assigned to the name (d = f().addCallback(..)) is already part of registrations()
    else:
        for c in chain:
            if c.args:
                kind = REGK[c.func.attr]
                regs.append((kind, c.args[0], c.args[1] if kind == "pair" and len(c.args) > 1 else None, c))
        origin = sym.expand(rn, base)
    value = "ORIGIN"
    for (_i, ch, t, _c) in flat_regs(regs):
        if "cb" not in ch or passes_through(fn, t):
            continue
        _ps, rets = callback_returns(fn, t)
        value = rets[0] if rets and all(x == rets[0] for x in rets) else "?"
    return origin, value


def segment_deferred(F, gn, gc):
    """Name of the local that holds the Deferred returned by the get_segment call of F."""
    if isinstance(gn.ast, ast.Assign) and len(gn.ast.targets) == 1 and isinstance(gn.ast.targets[0], (ast.Tuple, ast.List)) \
            and gn.ast.value is gc and gn.ast.targets[0].elts and isinstance(gn.ast.targets[0].elts[0], ast.Name):
        return gn.ast.targets[0].elts[0].id
    raise AnchorVanished("%s: cannot identify the Deferred returned by get_segment" % short(F))


def reach_refs(g, n, reach):
    """(called, passed): node n of g calls a same-class method from which get_segment is reachable / hands such a
    method on as a value (eventually(self.m), addCallback(self.m))."""
    called = passed = False
    funcs_called = set()
    for c in node_calls(n, into_lambda=True):
        m = self_callee(g, c)
        if m is not None and m.qual in reach:
            called = True
            funcs_called.add(id(c.func))
    for e in node_exprs(n):
        for x in own_nodes(e, into_lambda=True):
            if isinstance(x, ast.Attribute) and id(x) not in funcs_called and isinstance(x.ctx, ast.Load):
                m = self_method_value(g, x)
                if m is not None and m.qual in reach:
                    passed = True
    return called, passed


def run_result(ctx, r):
    """Every read() hands back a Deferred that fires with the caller's consumer (C04.9)."""
    idx = ctx.idx
    # -- DownloadNode.read: succeed(consumer) for the empty read, else the Deferred of the fresh Segmentation
    rd = idx.func(NODE + ".read")
    rp = first_positional_params(rd)
    s = Sym(idx, rd)
    sc = the_call(rd, "Segmentation")
    stc = the_call(rd, "start")
    r.site(rd, None, "read returns a Deferred that fires with the consumer")
    rets = rd.cfg().find(is_return)
    r.require(not falls_off_end(rd), rd, rd.loc(), "DownloadNode.read can finish without returning the Deferred of the read")
    for n in rets:
        if n.ast.value is None or _is_none(n.ast.value):
            r.violation(rd, rd.loc(n.ast), "DownloadNode.read returns None instead of a Deferred: the caller of this read "
                        "cannot wait for (or use) its result")
            continue
        origin, value = returned_deferred(s, n)
        if isinstance(origin, ast.Call) and call_tail(origin) == "succeed":
            got = nf(origin.args[0]) if (value == "ORIGIN" and len(origin.args) == 1) else value
            r.require(got == rp[0], rd, rd.loc(n.ast), "an empty read completes with %s, not with the consumer" % got)
        elif isinstance(origin, ast.Call) and isinstance(origin.func, ast.Attribute) and origin.func.attr == stc.func.attr \
                and recv_is(origin.func.value, sc):
            r.require(value in ("ORIGIN", rp[0]), rd, rd.loc(n.ast), "the read's Deferred is made to fire with %s instead of "
                      "the consumer handed on by Segmentation" % value)
        else:
            r.violation(rd, rd.loc(n.ast), "DownloadNode.read returns %s: neither succeed(consumer) nor the Deferred of the "
                        "Segmentation started for this read" % nf(origin))
    # -- Segmentation.start returns the Deferred that _fetch_next fires with the consumer
    ci, funcs, F, gc, gn, reach = seg_fetcher(idx)
    start_fn = ci.lookup(stc.func.attr)
    if start_fn is None:
        raise AnchorVanished("DownloadNode.read starts the Segmentation with an unknown method")
    done = [c for c in calls_in_func(F, "callback") if isinstance(c.func, ast.Attribute)]
    if not done:
        raise AnchorVanished("%s never completes the read" % short(F))
    r.site(start_fn, None, "the Deferred of the read fires with the consumer")
    dattrs = {nf(c.func.value) for c in done}
    for c in done:
        r.require(len(c.args) == 1 and nf(c.args[0]) == "self._consumer", F, F.loc(c),
                  "the finished read fires its Deferred with %s, not with its consumer" % src(F, c))
    ss = Sym(idx, start_fn)
    srets = start_fn.cfg().find(is_return)
    r.require(not falls_off_end(start_fn), start_fn, start_fn.loc(), "Segmentation.%s can finish without returning the Deferred "
              "of the read" % start_fn.name)
    for n in srets:
        if n.ast.value is None:
            r.violation(start_fn, start_fn.loc(n.ast), "Segmentation.%s returns None, not the Deferred of the read" % start_fn.name)
            continue
        base, _ch = unchain(n.ast.value)
        base = follow_copies(ss, n, base)[1]
        r.require(nf(base) in dattrs, start_fn, start_fn.loc(n.ast), "Segmentation.%s returns %s, but the read is completed "
                  "through %s" % (start_fn.name, nf(base), " / ".join(sorted(dattrs))))
    for da in sorted(dattrs):
        for reg in registrations(start_fn, da):
            for (_i, ch, t, call) in flat_regs([(reg.kind, reg.target, reg.errtarget, reg.call)]):
                if "cb" in ch:
                    r.require(passes_through(start_fn, t), start_fn, start_fn.loc(call), "%s replaces the result of the read "
                              "(the consumer)" % src(start_fn, t))

    # -- the wrappers
    def wrapper(fn, inner_tail, want_args, what):
        """fn returns the Deferred of <something>.<inner_tail>(..) called with want_args(expanded call) and finally
        firing with fn's consumer."""
        ps = first_positional_params(fn)
        sy = Sym(idx, fn)
        rs = fn.cfg().find(is_return)
        r.site(fn, None, what)
        r.require(not falls_off_end(fn), fn, fn.loc(), "%s can finish without returning the Deferred of the read" % short(fn))
        for n in rs:
            if n.ast.value is None or _is_none(n.ast.value):
                r.violation(fn, fn.loc(n.ast), "%s returns None instead of a Deferred" % short(fn))
                continue
            origin, value = returned_deferred(sy, n)
            if not (isinstance(origin, ast.Call) and call_tail(origin) == inner_tail):
                r.violation(fn, fn.loc(n.ast), "%s returns %s, not the Deferred of %s(..)" % (short(fn), nf(origin), inner_tail))
                continue
            want_args(fn, ps, n, origin, value)

    def cipher_args(fn, ps, n, origin, value):
        inner = idx.func("immutable.filenode:CiphertextFileNode.read")
        b = bind_call_args(inner, origin)
        ip = first_positional_params(inner)
        dc = the_call(fn, "DecryptingConsumer")
        r.require(b.get(ip[0]) is not None and recv_is(b[ip[0]], dc), fn, fn.loc(n.ast),
                  "the ciphertext is not read into the DecryptingConsumer built for this call")
        r.require(b.get(ip[1]) is not None and nf(b[ip[1]]) == ps[1] and b.get(ip[2]) is not None and nf(b[ip[2]]) == ps[2],
                  fn, fn.loc(n.ast), "the ciphertext range read is (%s, %s), not the (%s, %s) of this call" % (
                      nf(b[ip[1]]) if ip[1] in b else "default", nf(b[ip[2]]) if ip[2] in b else "default", ps[1], ps[2]))
        r.require(value == ps[0], fn, fn.loc(n.ast), "%s fires with %s, not with the caller's consumer" % (
            short(fn), "the DecryptingConsumer" if value == "ORIGIN" else value))

    def node_args(fn, ps, n, origin, value):
        r.require(nf(origin.func.value) == "self._node" and [nf(a) for a in origin.args] == ps[:3] and not origin.keywords,
                  fn, fn.loc(n.ast), "%s reads %s, not (consumer, offset, size) of this call" % (short(fn), nf(origin)))
        r.require(value == "ORIGIN", fn, fn.loc(n.ast), "%s replaces the result of the read by %s" % (short(fn), value))

    def literal_args(fn, ps, n, origin, value):
        r.require(value == ps[0], fn, fn.loc(n.ast), "%s fires with %s, not with the caller's consumer" % (
            short(fn), "the last byte sent" if value == "ORIGIN" else value))
    wrapper(idx.func("immutable.filenode:ImmutableFileNode.read"), "read", cipher_args, "fires with the caller's consumer")
    wrapper(idx.func("immutable.filenode:CiphertextFileNode.read"), "read", node_args, "hands the read to the download node")
    wrapper(idx.func("immutable.literal:LiteralFileNode.read"), "beginFileTransfer", literal_args, "fires with the caller's consumer")


def run_service(ctx, r):
    """Every queued segment request is started and, once taken out of the queue, delivered (C04.10)."""
    idx = ctx.idx
    ci = idx.cls(NODE)
    funcs = all_funcs_of(ci)
    eff = ActiveFetcher(idx, ci)
    may_start = set(eff.starters)
    grew = True
    while grew:
        grew = False
        for g in funcs:
            if g.qual not in may_start and any((self_callee(g, c) is not None and self_callee(g, c).qual in may_start)
                                               for c in calls_in_func(g)):
                may_start.add(g.qual)
                grew = True

    def starts_next(fn):
        def p(q):
            for c in node_calls(q):
                m = self_callee(fn, c)
                if m is not None and m.qual in may_start:
                    return True
                for a in list(c.args) + [k.value for k in c.keywords]:
                    m = self_method_value(fn, a)
                    if m is not None and m.qual in may_start:
                        return True
            return False
        return p
    # -- (a) get_segment starts a fetcher when none is active
    gs = idx.func(NODE + ".get_segment")
    ap = the_call(gs, "append", lambda c: attr_path(c.func.value) == "self._segment_requests")
    apn = node_of(gs, ap)
    r.site(gs, ap, "a queued request is started")
    for (n, w) in find_path_from_to_avoiding(gs.cfg(), lambda q: q is apn, starts_next(gs)):
        r.violation(gs, gs.loc(ap), "get_segment queues the request but can return without %s: when no segment is being fetched "
                    "nothing starts this one, and the read never receives its bytes (path: %s)" % (
                        " / ".join(sorted(q.split(".")[-1] + "()" for q in eff.starters)), w.brief()), w)
    # -- (b) the requests _extract_requests takes out of the queue are handed to _deliver
    er = idx.func(NODE + "._extract_requests")
    dl = idx.func(NODE + "._deliver")
    dp = first_positional_params(dl)
    users = 0
    for f in funcs:
        calls = [c for c in calls_in_func(f, er.name) if self_callee(f, c) is er]
        if not calls or f is er:
            continue
        fsym = Sym(idx, f)
        cfg = f.cfg()
        loops = []
        for q in cfg.nodes:
            if q.kind == "iter":
                it = fsym.expand(q, q.ast.iter)
                if isinstance(it, ast.Call) and call_tail(it) == er.name:
                    loops.append(q)
        if len(loops) < len(calls):
            r.violation(f, f.loc(calls[0]), "%s takes requests out of the queue without going through them: their reads are "
                        "never completed" % short(f))
        for ln in loops:
            users += 1
            r.site(f, ln.ast, "retired requests are delivered")
            tg = ln.ast.target
            if isinstance(tg, (ast.Tuple, ast.List)) and len(tg.elts) >= 2 and all(isinstance(e, ast.Name) for e in tg.elts[:2]):
                want = [tg.elts[0].id, tg.elts[1].id]
            elif isinstance(tg, ast.Name):
                want = [norm_src("%s[0]" % tg.id), norm_src("%s[1]" % tg.id)]
            else:
                raise AnchorVanished("%s: cannot read the loop over the retired requests" % short(f))

            def delivers(q, _f=f, _want=want):
                for c in node_calls(q):
                    args = None
                    if self_callee(_f, c) is dl:
                        args = list(c.args)
                    else:
                        for i, a in enumerate(c.args):
                            if self_method_value(_f, a) is dl:
                                args = list(c.args[i + 1:])
                                break
                    if args is not None and len(args) >= len(dp) and [nf(a) for a in args[:2]] == _want:
                        return True
                return False

            fnf = FlowNorm(f)

            def transfer(n, lab, nxt, st, _ln=ln, _want=want, _fnf=fnf):
                if lab == "exc":
                    return None
                if n is _ln:
                    return 0 if lab == "iter" else None
                if n.kind in ("exit", "raise") or delivers(n):
                    return None
                if n.kind == "test":
                    f_ = _fnf.edge_fact(n, lab)
                    if f_ and f_[0] == "false" and f_[1] == _want[1] + ".active":
                        return None     # a cancelled request: _deliver would do nothing with it either
                return 0
            visited, parent = explore(cfg, 0, transfer, start=ln)
            r.count(len(visited))
            bad = None
            for (nid, st) in sorted(visited):
                q = cfg.nodes[nid]
                if q is ln:
                    continue
                if q.kind == "exit" or any(d == ln.id and transfer(q, lab, ln, 0) is not None for (d, lab) in cfg.succ[nid]):
                    bad = (nid, st)
                    break
            if bad is not None:
                w = witness(cfg, parent, bad)
                r.violation(f, f.loc(ln.ast), "%s removes the requests for a segment from the queue but does not hand every one of "
                            "them to %s(%s, %s, ..): the read that made the request never gets its segment (or its failure) and "
                            "never completes (path: %s)" % (short(f), dl.name, want[0], want[1], w.brief()), w)
    if not users:
        raise AnchorVanished("nobody goes through the requests returned by _extract_requests")
    # -- (c) _deliver fires the Deferred of every request that is still active
    r.site(dl, None, "an active request is fired")
    fnd = FlowNorm(dl)

    def fires(q):
        return any(nf(c.func.value) == dp[0] and len(c.args) == 1 and nf(c.args[0]) == dp[2]
                   for c in calls_at(q, "callback") if isinstance(c.func, ast.Attribute))

    def inactive(q, lab):
        f_ = fnd.edge_fact(q, lab)
        return bool(f_) and f_[0] == "false" and f_[1] == dp[1] + ".active"
    for (n, w) in find_path_avoiding(dl.cfg(), lambda q: q.kind == "exit", gate_node=fires, gate_edge=inactive, skip_exc_edges=True):
        r.violation(dl, dl.loc(), "%s can return without %s.callback(%s) although the request is still active: the segment is "
                    "dropped and the read waits for ever (path: %s)" % (short(dl), dp[0], dp[2], w.brief()), w)


def run_chain(ctx, r):
    """The callbacks on the segment Deferred write the bytes, retry a wrong guess and continue the read; a resumed
    read is let through its gates again (C04.11)."""
    idx = ctx.idx
    ci, funcs, F, gc, gn, reach = seg_fetcher(idx)
    fcfg = F.cfg()
    fnorm = FlowNorm(F)
    dname = segment_deferred(F, gn, gc)
    regs = flat_regs([(x.kind, x.target, x.errtarget, x.call) for x in registrations(F, dname)])
    writers = [g for g in funcs if any(isinstance(c.func, ast.Attribute) and nf(c.func.value) == "self._consumer"
                                       for c in calls_in_func(g, "write"))]
    if len(writers) != 1:
        raise AnchorVanished("Segmentation: expected one method that writes to the consumer, found %d" % len(writers))
    W = writers[0]
    wc = the_call(W, "write")
    wn = node_of(W, wc)
    # -- (a) the writer is a success callback of the segment Deferred
    r.site(F, gc, "the delivered segment reaches the writer")
    iw = [i for (i, ch, t, _c) in regs if "cb" in ch and self_method_value(F, t) is W]
    if not iw:
        r.violation(F, F.loc(gc), "%s is not registered as a success callback on the Deferred of get_segment: the delivered "
                    "segment is never written to the consumer and the read never completes" % short(W))
        return
    iw = iw[0]
    # -- (b) a wrong guess of the segment size is retried
    r.site(F, gc, "a wrong segment guess is retried")
    SEGSZ = "self._node.segment_size"
    retries = [(i, t, c) for (i, ch, t, c) in regs if "eb" in ch and i > iw and self_method_value(F, t) is not None
               and self_method_value(F, t).qual in reach]
    if not retries:
        r.violation(F, F.loc(gc), "no errback on the segment Deferred fetches again after %s: a read that starts past segment 0 "
                    "of a file whose segment size differs from the guess fails with WrongSegmentError / BadSegmentNumberError "
                    "instead of returning its slice" % short(W))
    else:
        ir = retries[0][0]
        for (i, ch, t, c) in regs:
            if iw < i < ir and "eb" in ch and not passes_through(F, t):
                r.violation(F, F.loc(c), "the errback %s runs before the retry and swallows the wrong-segment failure" % src(F, t))
        retry_ids = {node_of(F, c).id for (_i, _t, c) in retries}

        def known(q, lab):
            f_ = fnorm.edge_fact(q, lab)
            if not f_:
                return False
            return (f_[0] in ("is not", "!=") and {f_[1], f_[2]} == {"None", SEGSZ}) or (f_[0] == "truth" and f_[1] == SEGSZ)

        def transfer(n, lab, nxt, st):
            if lab == "exc":
                return None
            if n.kind in ("entry", "exit", "raise"):
                return st
            called, ok = st
            if n is gn:
                called = True
            if n.id in retry_ids or known(n, lab):
                ok = True
            return (called, ok)
        visited, parent = explore(fcfg, (False, False), transfer)
        r.count(len(visited))
        key = (fcfg.exit.id, (True, False))
        if key in visited:
            w = witness(fcfg, parent, key)
            r.violation(F, F.loc(retries[0][2]), "the retry errback is not registered when the segment size is only a guess "
                        "(%s is None): the one case in which the wrong segment can be fetched is the one that is not retried "
                        "(path: %s)" % (SEGSZ, w.brief()), w)
    # -- (c) after writing, the read goes on (next segment or completion)
    r.site(W, wc, "the read continues after a write")
    later = any(i > iw and "cb" in ch and ((self_method_value(F, t) is not None and self_method_value(F, t).qual in reach)
                                           or (isinstance(t, ast.Lambda) and any(
                                               isinstance(x, ast.Attribute) and self_method_value(F, x) is not None
                                               and self_method_value(F, x).qual in reach for x in ast.walk(t.body))))
                for (i, ch, t, _c) in regs)
    if not later:
        for (n, w) in find_path_from_to_avoiding(W.cfg(), lambda q: q is wn, lambda q: any(reach_refs(W, q, reach))):
            r.violation(W, W.loc(wc), "after writing a segment's bytes %s can return without asking for the next segment or "
                        "completing the read: a read never fires its Deferred (path: %s)" % (short(W), w.brief()), w)
    # -- (e) start() enters the fetch route (nobody else does for a fresh read: the consumer only resumes after a pause)
    rd = idx.func(NODE + ".read")
    start_fn = ci.lookup(the_call(rd, "start").func.attr)
    if start_fn is None:
        raise AnchorVanished("DownloadNode.read starts the Segmentation with an unknown method")
    r.site(start_fn, None, "start() asks for the first segment")
    for (n, w) in find_path_avoiding(start_fn.cfg(), lambda q: q.kind == "exit", gate_node=lambda q: any(reach_refs(start_fn, q, reach)),
                                     skip_exc_edges=True):
        r.violation(start_fn, start_fn.loc(), "%s can return without asking for the first segment: the read never delivers a byte "
                    "(path: %s)" % (short(start_fn), w.brief()), w)
    # -- (d) resumeProducing restores every flag that pauseProducing cleared and that gates the way to get_segment
    pp, rs = ci.lookup("pauseProducing"), ci.lookup("resumeProducing")
    if pp is None or rs is None:
        raise AnchorVanished("Segmentation no longer implements pauseProducing/resumeProducing")
    r.site(rs, None, "resume reopens what pause closed")

    def const_store(q, x, truth):
        v = assign_value(q, x) if x in node_stores(q) else None
        return isinstance(v, ast.Constant) and bool(v.value) is truth
    cleared = sorted({x for q in pp.cfg().nodes for x in node_stores(q)
                      if x.startswith("self.") and x.count(".") == 1 and const_store(q, x, False)})
    for x in cleared:
        blocking = None
        for g in reach.values():
            gnorm = FlowNorm(g)
            refs = {q.id for q in g.cfg().nodes if any(reach_refs(g, q, reach))} | ({gn.id} if g is F else set())
            if not refs:
                continue

            def open_(q, lab, _g=gnorm, _x=x):
                f_ = _g.edge_fact(q, lab)
                return bool(f_) and f_[0] == "truth" and f_[1] == _x
            tested = any(open_(q, lab) for q in g.cfg().nodes if q.kind == "test" for (_d, lab) in g.cfg().succ[q.id])
            if tested and not find_path_avoiding(g.cfg(), lambda q, _r=refs: q.id in _r, gate_edge=open_):
                blocking = g
                break
        if blocking is None:
            continue
        rcfg = rs.cfg()
        rnorm = FlowNorm(rs)
        direct = {q.id for q in rcfg.nodes if reach_refs(rs, q, reach)[0]}
        # what pauseProducing leaves behind as a mark of 'paused' (a time stamp): seeing it unset means there was no pause
        marks = {y for q in pp.cfg().nodes for y in node_stores(q) if y.startswith("self.") and y.count(".") == 1
                 and assign_value(q, y) is not None and not isinstance(assign_value(q, y), ast.Constant)}

        def not_paused(q, lab, _n=rnorm, _m=marks):
            f_ = _n.edge_fact(q, lab)
            return bool(f_) and ((f_[0] == "false" and f_[1] in _m) or (f_[0] in ("is", "==") and "None" in (f_[1], f_[2])
                                                                      and ({f_[1], f_[2]} - {"None"}) <= _m))
        for (n, w) in find_path_avoiding(rcfg, lambda q: q.kind == "exit" or q.id in direct,
                                         gate_node=lambda q, _x=x: const_store(q, _x, True), gate_edge=not_paused,
                                         skip_exc_edges=True):
            r.violation(rs, rs.loc(), "pauseProducing clears %s and %s goes on only when it is set, but resumeProducing can finish "
                        "without setting it again: a read that was paused once never delivers the rest of its slice (path: %s)"
                        % (x, short(blocking), w.brief()), w)
            break


FETCH = "immutable.downloader.fetcher:SegmentFetcher"


def _exc_class_expr(e):
    """The class expression of `raise X(..)` / `raise X` / `Failure(X(..))`."""
    return e.func if isinstance(e, ast.Call) else e


def run_past_end(ctx, r):
    """A read that starts from a *guessed* segment size can ask for a segment that does not exist.  The only way
    back is: the fetcher fails exactly such a request with an error the retry errback of the read lets through
    (C04.12)."""
    idx = ctx.idx
    nrm = Normaliser(Env(None, depth=0))
    ci, funcs, F, gc, gn, reach = seg_fetcher(idx)
    dname = segment_deferred(F, gn, gc)
    regs = flat_regs([(x.kind, x.target, x.errtarget, x.call) for x in registrations(F, dname)])
    writers = [g for g in funcs if any(isinstance(c.func, ast.Attribute) and nf(c.func.value) == "self._consumer"
                                       for c in calls_in_func(g, "write"))]
    if len(writers) != 1:
        raise AnchorVanished("Segmentation: expected one method that writes to the consumer, found %d" % len(writers))
    W = writers[0]
    iw = [i for (i, ch, t, _c) in regs if "cb" in ch and self_method_value(F, t) is W]
    if not iw:
        raise AnchorVanished("%s is not a success callback of the segment Deferred (reported by C04.11)" % short(W))
    retry = [self_method_value(F, t) for (i, ch, t, _c) in regs if "eb" in ch and i > iw[0] and self_method_value(F, t) is not None
             and self_method_value(F, t).qual in reach]
    if not retry:
        raise AnchorVanished("no errback of the segment Deferred fetches again (reported by C04.11)")
    RT = retry[0]
    # -- (a) what the retry errback lets through: the f.trap(..) calls that every route to the re-fetch passes
    rp = first_positional_params(RT)
    rcfg = RT.cfg()
    again = {q.id for q in rcfg.nodes if any(reach_refs(RT, q, reach))}
    if not rp or not again:
        raise AnchorVanished("%s: cannot read the retry errback" % short(RT))
    traps = []
    for c in calls_in_func(RT, "trap"):
        if isinstance(c.func, ast.Attribute) and nf(c.func.value) == rp[0]:
            tn = node_of(RT, c)
            if not find_path_avoiding(rcfg, lambda q: q.id in again, gate_node=lambda q, _t=tn: q is _t, skip_exc_edges=True):
                traps.append((c, [idx.resolve_expr_to_class(RT.module, a) for a in c.args]))
    r.site(RT, traps[0][0] if traps else None, "the retry lets the wrong-guess failures through")

    def recovered(k):
        """Failure class k passes every trap on the way to the re-fetch (a class outside the package in a trap may
        be a base of anything)."""
        return all(any(t is None or t in k.mro() for t in ts) for (_c, ts) in traps)

    def why(k):
        c = next(c for (c, ts) in traps if not any(t is None or t in k.mro() for t in ts))
        return c, src(RT, c)
    # -- (b) the writer's own complaint about a segment that does not hold the first wanted byte
    ws = Sym(idx, W)
    wcfg = W.cfg()
    wnorm = FlowNorm(W)
    ovs = calls_in_func(W, "overlap")
    if len(ovs) != 1:
        raise AnchorVanished("%s: the overlap(..) computation was not found" % short(W))
    ov = nf(ws.expand(node_of(W, ovs[0]), ovs[0]))

    def unusable(q, lab):
        f = wnorm.edge_fact(q, lab)
        return bool(f) and ((f[0] == "false" and f[1] == ov) or (f[0] == "!=" and {f[1], f[2]} == {ov + "[0]", "self._offset"}))
    wrong = [q for q in wcfg.nodes if is_raise(q) and q.ast.exc is not None
             and not find_path_avoiding(wcfg, lambda x, _q=q: x is _q, gate_edge=unusable)]
    if not wrong:
        raise AnchorVanished("%s no longer raises when the delivered segment does not hold the first wanted byte" % short(W))
    for q in wrong:
        k = idx.resolve_expr_to_class(W.module, _exc_class_expr(q.ast.exc))
        r.site(W, q.ast, "wrong segment -> %s" % (k.name if k is not None else src(W, q.ast.exc)))
        if k is not None and not recovered(k):
            c, s_ = why(k)
            r.violation(RT, RT.loc(c), "%s re-raises (%s) the %s that %s raises for a segment fetched from a guessed segment size "
                        "that does not hold the first wanted byte: the first read at a non-zero offset of a file whose segment "
                        "size differs from the guess fails instead of being retried with the real size" % (
                            short(RT), s_, k.name, short(W)))
    # -- (c) the fetcher: which object it reports to, which attribute is its segment number
    fci = idx.cls(FETCH)
    ffuncs = all_funcs_of(fci)
    finit = fci.lookup("__init__")
    sn = None
    for m in all_funcs_of(idx.cls(NODE)):
        cs = [c for c in calls_in_func(m, fci.name) if isinstance(c.func, (ast.Name, ast.Attribute))]
        if cs:
            sn = (m, cs[0])
            break
    if finit is None or sn is None:
        raise AnchorVanished("DownloadNode no longer builds a SegmentFetcher")
    ss = Sym(idx, sn[0])
    bound = {p: nf(ss.expand(node_of(sn[0], sn[1]), a)) for p, a in bind_call_args(finit, sn[1]).items()}
    istores = {p: nf(v[1]) for p, v in Sym(idx, finit, expand_attrs=False).attr_stores().items()}
    node_attrs = [a for a, p in istores.items() if bound.get(p) == "self"]
    seg_attrs = [a for a, p in istores.items() if bound.get(p) == norm_src("self._segment_requests[0][0]")]
    if len(node_attrs) != 1 or len(seg_attrs) != 1:
        raise AnchorVanished("SegmentFetcher.__init__: cannot tell the node / segment number attributes (%s, %s)" % (node_attrs, seg_attrs))
    R, SEGN = node_attrs[0], seg_attrs[0]
    S = nrm.poly(parse_expr(SEGN))
    COUNTS = [nrm.poly(parse_expr(norm_src(t % R))) for t in ("%s.get_num_segments()[0]", "%s.num_segments")]
    GUESS = {norm_src(t % R) for t in ("%s.get_num_segments()[1]", "%s.have_UEB")}
    KNOWN = norm_src("%s.num_segments" % R)

    def segnum_bound(f):
        """(side, exact) of a canonical edge fact that compares the fetcher's segment number with the node's count:
        side 'in' - it bounds the number from above, 'out' - from below; exact - it implies segnum < count
        (resp. segnum >= count) over the integers."""
        if not f or f[0] not in ("<", "<=") or f[2] is None:
            return None
        try:
            diff = nrm.poly(parse_expr(f[2])) - nrm.poly(parse_expr(f[1]))      # the fact says 0 < diff / 0 <= diff
        except Exception:
            return None
        for cnt in COUNTS:
            c = ((cnt - S) - diff).const_value()        # diff = count - segnum - c
            if c is not None:
                return ("in", c >= (0 if f[0] == "<" else 1))
            c = ((S - cnt) - diff).const_value()        # diff = segnum - count - c
            if c is not None:
                return ("out", c >= (-1 if f[0] == "<" else 0))
        return None
    fnorms = {}

    def fact(g, q, lab):
        if g.qual not in fnorms:
            fnorms[g.qual] = FlowNorm(g)
        return fnorms[g.qual].edge_fact(q, lab)
    # -- (d) the failures the fetcher hands to the node as Failure(<Class>(..)): those issued for a segment number
    #    bounded from below by the count, or of a class the retry asks for by name, are the past-the-end reports
    named = {t for (_c, ts) in traps for t in ts if t is not None}
    reports = []
    for g in ffuncs:
        gs_ = None
        for c in calls_in_func(g, "fetch_failed"):
            if not (isinstance(c.func, ast.Attribute) and nf(c.func.value) == R and len(c.args) == 2):
                continue
            gs_ = gs_ or Sym(idx, g)
            q = node_of(g, c)
            fv = gs_.expand(q, c.args[1])
            if not (isinstance(fv, ast.Call) and call_tail(fv) == "Failure" and len(fv.args) == 1 and isinstance(fv.args[0], ast.Call)):
                continue
            k = idx.resolve_expr_to_class(g.module, fv.args[0].func)
            if k is None:
                continue
            below = not find_path_avoiding(g.cfg(), lambda x, _q=q: x is _q, skip_exc_edges=True,
                                           gate_edge=lambda x, lab, _g=g: (segnum_bound(fact(_g, x, lab)) or ("", 0))[0] == "out")
            if below or k in named:
                reports.append((g, q, c, k))
    hosts = {}
    for (g, q, c, k) in reports:
        hosts.setdefault(g.qual, (g, []))[1].append(q)
        r.site(g, c, "past the end -> %s" % k.name)
        if not recovered(k):
            c_, s_ = why(k)
            r.violation(RT, RT.loc(c_), "%s re-raises (%s) the %s with which %s fails a request for a segment past the end of "
                        "the file: a first read whose guessed segment number does not exist fails instead of being retried "
                        "with the real segment size" % (short(RT), s_, k.name, short(g)))
        for (x, w) in find_path_avoiding(g.cfg(), lambda x, _q=q: x is _q, skip_exc_edges=True,
                                         gate_edge=lambda x, lab, _g=g: segnum_bound(fact(_g, x, lab)) == ("out", True)):
            r.violation(g, g.loc(c), "%s fails the segment request with %s although %s may be smaller than the node's segment "
                        "count: reads of a segment that exists (the last one) fail (path: %s)" % (short(g), k.name, SEGN, w.brief()), w)
    if not hosts:
        for g in ffuncs:
            if any(isinstance(c.func, ast.Attribute) and nf(c.func.value) == R for c in calls_in_func(g, "get_num_segments")):
                hosts[g.qual] = (g, [])
    if not hosts:
        raise AnchorVanished("SegmentFetcher neither asks the node for the segment count nor reports a bad segment number")
    # -- (e) ... and every pass of the fetcher's loop that goes on (or just returns) has seen the number in range, the
    #    count still a guess, or the fetcher stopped - otherwise it has made that report
    stop = fci.lookup("stop")
    stopped = set()
    if stop is not None:
        for q in stop.cfg().nodes:
            for p in node_stores(q):
                v = assign_value(q, p)
                if p.startswith("self.") and isinstance(v, ast.Constant) and v.value is False:
                    stopped.add(p)
    entries = set()
    for g in ffuncs:
        for c in calls_in_func(g, None, into_lambda=True):
            for a in c.args:
                m = self_method_value(g, a)
                if m is not None:
                    entries.add(m.qual)
    closure, todo = set(), [f for f in ffuncs if f.qual in entries]
    while todo:
        g = todo.pop()
        if g.qual in closure:
            continue
        closure.add(g.qual)
        for c in calls_in_func(g):
            m = self_callee(g, c)
            if m is not None:
                todo.append(m)
    for (g, rnodes) in hosts.values():
        rids = {q.id for q in rnodes}
        r.site(g, None, "no pass goes on with a segment number past the end")
        r.require(g.qual in closure, g, g.loc(), "%s, which checks the segment number against the node's count, is not run by "
                  "the fetcher's scheduled loop" % short(g))

        def passed(x, lab, _g=g):
            f = fact(_g, x, lab)
            if not f:
                return False
            if segnum_bound(f) == ("in", True):
                return True
            if f[0] == "false" and (f[1] in GUESS or f[1] in stopped):
                return True
            return f[0] in ("is", "==") and {f[1], f[2]} == {"None", KNOWN}
        ws_ = find_path_avoiding(g.cfg(), lambda x: x.kind == "exit", gate_node=lambda x, _r=rids: x.id in _r, gate_edge=passed,
                                 skip_exc_edges=True)
        r.count(len(g.cfg().nodes))
        for (x, w) in ws_[:1]:
            r.violation(g, g.loc(), "%s can go on with (or return from) a pass although the node's segment count is authoritative "
                        "and %s was not seen to be smaller than it, without failing the request with %s: a first read whose "
                        "guessed segment number is one that does not exist (offset // guessed size == real number of segments) is "
                        "answered BADSEGNUM by every share and dies with NotEnoughSharesError instead of being retried with the "
                        "real segment size (path: %s)" % (short(g), SEGN, " / ".join(sorted(t.name for t in named)) or
                                                          "an error the retry recovers from", w.brief()), w)
    # -- (f) the node says 'authoritative' with the real count as soon as it has one
    gns = idx.func(NODE + ".get_num_segments")
    gsy = Sym(idx, gns)
    gnorm = FlowNorm(gns)
    r.site(gns, None, "(num_segments, True) once the count is known")

    def good(q):
        v = gsy.expand(q, q.ast.value) if q.ast.value is not None else None
        if not (isinstance(v, ast.Tuple) and len(v.elts) == 2 and nf(v.elts[0]) == "self.num_segments"):
            return False
        a = v.elts[1]
        if isinstance(a, ast.Constant):
            return a.value is True
        f = nrm.cmp(a, True)
        return f in (("is not", "self.num_segments", "None"), ("is not", "None", "self.num_segments"), ("truth", "self.have_UEB", None))

    def unknown(q, lab):
        f = gnorm.edge_fact(q, lab)
        return bool(f) and ((f[0] in ("is", "==") and {f[1], f[2]} == {"None", "self.num_segments"})
                            or (f[0] == "false" and f[1] in ("self.num_segments", "self.have_UEB")))
    for (q, w) in find_path_avoiding(gns.cfg(), lambda x: is_return(x) and not good(x), gate_edge=unknown, skip_exc_edges=True):
        r.violation(gns, gns.loc(q.ast), "get_num_segments answers %s although the real segment count may be known: the fetcher "
                    "takes the count for a guess and never fails a request past the end of the file (path: %s)" % (
                        src(gns, q.ast.value) if q.ast.value is not None else "None", w.brief()), w)


def run_clip(ctx, r):
    idx = ctx.idx
    rd = idx.func(NODE + ".read")
    rp = first_positional_params(rd)
    s = Sym(idx, rd)
    cfg = rd.cfg()
    fnorm = FlowNorm(rd)
    sc = the_call(rd, "Segmentation")
    sn = node_of(rd, sc)
    sinit = idx.func(SEG + ".__init__")
    b = bind_call_args(sinit, sc)
    size_arg = b[first_positional_params(sinit)[2]]
    got = nf(s.expand(sn, size_arg))
    want = norm_src("max(0, min(%s, self._verifycap.size - %s))" % (rp[2], rp[1]))
    r.site(rd, sc, "clip %s" % got)
    r.require(got == want, rd, rd.loc(sc), "the read length handed to Segmentation is %s, not %s" % (got, want))
    # None means 'to EOF'
    none_ok = False
    for n in cfg.nodes:
        if n.kind != "test":
            continue
        for (d, lab) in cfg.succ[n.id]:
            f = fnorm.edge_fact(n, lab)
            if f and f[0] == "is" and {f[1], f[2]} == {"None", rp[2]}:
                dn = cfg.nodes[d]
                while dn.kind == "stmt" and rp[2] not in node_stores(dn):       # statements that do not bind the size
                    nx = [x for (x, l) in cfg.succ[dn.id] if l != "exc"]
                    if len(nx) != 1:
                        break
                    dn = cfg.nodes[nx[0]]
                v = assign_value(dn, rp[2])
                none_ok = v is not None and nf(v) == "self._verifycap.size"
                r.require(none_ok, rd, rd.loc(dn.ast), "size=None is replaced by %s, not by the file size" % (nf(v) if v is not None else src(rd, dn.ast)))
                none_ok = True
    r.require(none_ok, rd, rd.loc(), "read() no longer maps size=None to the file size")
    # zero-length reads complete before a Segmentation is built
    r.site(rd, sc, "size == 0 short-circuit")

    sname = size_arg.id if isinstance(size_arg, ast.Name) else None

    def nonzero(n, lab):
        f = fnorm.edge_fact(n, lab)
        if f and f[0] == "truth":
            other = f[1]
        elif f and f[0] == "!=" and "0" in (f[1], f[2]):
            other = f[2] if f[1] == "0" else f[1]
        else:
            return False
        if other == got:
            return True
        # the clipped value itself: same reaching definition as at the Segmentation call
        return sname is not None and other == sname and s.rd.get(n.id, {}).get(sname) == s.rd.get(sn.id, {}).get(sname)
    for (n, w) in find_path_avoiding(cfg, lambda q: q is sn, gate_edge=nonzero):
        r.violation(rd, rd.loc(n.ast), "a Segmentation can be built for a zero-length (or past-EOF) read (path: %s)" % w.brief(), w)
    for n in cfg.find(is_return):
        if n.ast.value is None:
            continue        # C04.9 reports a read that returns nothing
        v = s.expand(n, n.ast.value)
        if isinstance(v, ast.Call) and call_tail(v) == "succeed":
            r.require(len(v.args) == 1 and nf(v.args[0]) == rp[0], rd, rd.loc(n.ast), "an empty read returns %s, not the consumer" % nf(v))
    # the clipped range (offset + size <= file size, with equality for every read up to EOF) must be accepted by
    # whatever Segmentation.__init__ asserts about it
    sp = first_positional_params(sinit)
    nrm = Normaliser(Env(None, depth=0))
    fin = FlowNorm(sinit)
    FSZ = sp[0] + "._verifycap.size"
    slack = Poly.atom(FSZ) - Poly.atom(sp[1]) - Poly.atom(sp[2])         # >= 0 for every clipped range, == 0 up to EOF
    for n in sinit.cfg().nodes:
        if n.kind != "test" or not getattr(n, "assume", False):
            continue
        for (d_, lab) in sinit.cfg().succ[n.id]:
            if not (isinstance(lab, tuple) and lab[0] == "T"):
                continue
            f = fin.edge_fact(n, lab)
            if not f or f[2] is None or f[0] not in ("<", "<=", "==", "!="):
                continue
            try:
                diff = nrm.poly(parse_expr(f[2])) - nrm.poly(parse_expr(f[1]))      # fact: 0 <op> diff
            except Exception:
                continue
            atoms = set(diff.atoms())
            if FSZ not in atoms or not (atoms & {sp[1], sp[2]}):
                continue
            ok = (f[0] == "<=" and diff == slack) or (f[0] == "<" and diff == slack + Poly.const(1))
            r.require(ok, sinit, sinit.loc(n.ast), "Segmentation.__init__ asserts %s, which rejects clipped ranges (%s + %s <= file "
                      "size, equal for every read that ends at EOF): such reads fail with AssertionError" % (
                          src(sinit, n.ast), sp[1], sp[2]))


def run_trim(ctx, r):
    idx = ctx.idx
    nrm = Normaliser(Env(None, depth=0))
    g = idx.func(SEG + "._got_segment")
    gp = first_positional_params(g)
    s = Sym(idx, g)
    cfg = g.cfg()
    fnorm = FlowNorm(g)
    wc = the_call(g, "write")
    wn = node_of(g, wc)
    r.site(g, wc, "trim")
    data = s.expand(wn, wc.args[0])
    SEGSTART, SEGDATA = "%s[0]" % gp[0], "%s[1]" % gp[0]
    ok = isinstance(data, ast.Subscript) and isinstance(data.slice, ast.Slice) and nf(data.value) == SEGDATA \
        and data.slice.lower is not None and data.slice.upper is not None and data.slice.step is None
    r.require(ok, g, g.loc(wc), "the consumer is given %s, not a slice of the delivered segment" % nf(data))
    ov = None
    if ok:
        lo, hi = nrm.poly(data.slice.lower), nrm.poly(data.slice.upper)
        r.require(lo == Poly.atom("self._offset") - Poly.atom(SEGSTART), g, g.loc(wc),
                  "the slice starts at %s, not at (wanted offset - segment start)" % lo)
        ln = hi - lo
        # the length is the overlap length o[1] with o = overlap(segstart, len(segment), offset, size)
        cands = [a for a in ln.atoms()]
        okl = len(ln.t) == 1 and len(cands) == 1 and list(ln.t.values())[0] == 1
        if okl and cands[0] != "self._size":      # [a:a+size] is clipped at the segment end by slicing itself
            m = re.match(r"^(\w+\.)*overlap\((.*)\)\[1\]$", cands[0])
            okl = m is not None
            if okl:
                args = [a.strip() for a in m.group(2).split(", ")]
                okl = args == [SEGSTART, "len(%s)" % SEGDATA, "self._offset", "self._size"]
        r.require(okl, g, g.loc(wc), "the slice length is %s, not the length of overlap(segment start, len(segment), offset, size)" % ln)
    ovs = [c for c in calls_in_func(g, "overlap")]
    if len(ovs) == 1:
        on = node_of(g, ovs[0])
        ov = nf(s.expand(on, ovs[0]))
        r.require([nf(s.expand(on, a)) for a in ovs[0].args] == [SEGSTART, "len(%s)" % SEGDATA, "self._offset", "self._size"],
                  g, g.loc(ovs[0]), "overlap is computed for %s" % ov)
    if ov is None:
        raise AnchorVanished("_got_segment: the overlap(..) computation was not found")
    # first-byte guard
    if ov is not None:
        def has_overlap(n, lab):
            f = fnorm.edge_fact(n, lab)
            return bool(f) and f[0] == "truth" and f[1] == ov

        def first_byte(n, lab):
            f = fnorm.edge_fact(n, lab)
            return bool(f) and f[0] == "==" and {f[1], f[2]} == {ov + "[0]", "self._offset"}
        for gate, what in ((has_overlap, "the segment does not overlap the wanted range"),
                           (first_byte, "the overlap does not start at the wanted offset")):
            for (n, w) in find_path_avoiding(cfg, lambda q: q is wn, gate_edge=gate):
                r.violation(g, g.loc(n.ast), "bytes are written although %s (path: %s)" % (what, w.brief()), w)
    # progress bookkeeping
    upd = {}
    for n in cfg.nodes:
        if n.kind == "stmt" and isinstance(n.ast, ast.AugAssign):
            p = attr_path(n.ast.target)
            if p in ("self._offset", "self._size"):
                upd[p] = (type(n.ast.op).__name__, nf(s.expand(n, n.ast.value)), n)
    r.site(g, None, "offset/size advance")
    want_len = "len(%s)" % nf(data)
    r.require(upd.get("self._offset", ("", ""))[:2] == ("Add", want_len) and upd.get("self._size", ("", ""))[:2] == ("Sub", want_len),
              g, g.loc(wc), "after a write offset/size are updated by %s (expected += / -= the written length)" % {
                  k: v[:2] for k, v in upd.items()})
    # requested segment number and segment label
    fn_ = idx.func(SEG + "._fetch_next")
    fs = Sym(idx, fn_)
    gc = the_call(fn_, "get_segment")
    gn = node_of(fn_, gc)
    r.site(fn_, gc, "segment number from offset")
    a0 = gc.args[0]
    defs = fs.rd.get(gn.id, {}).get(a0.id, frozenset()) if isinstance(a0, ast.Name) else frozenset()
    fnorm2 = FlowNorm(fn_)
    vals = []
    for d in defs:
        dn = fn_.cfg().nodes[d]
        v = fs.expand(dn, fs.fnorm._def_value(dn, a0.id))
        if isinstance(v, ast.Constant) and v.value == 0:
            def off0(n, lab):
                f = fnorm2.edge_fact(n, lab)
                return bool(f) and f[0] == "==" and {f[1], f[2]} == {"0", "self._offset"}
            r.require(not find_path_avoiding(fn_.cfg(), lambda q, _d=dn: q is _d, gate_edge=off0), fn_, fn_.loc(dn.ast),
                      "segment 0 is requested although the offset may be non-zero")
        else:
            vals.append((v, dn))
    okv = len(vals) == 1 and isinstance(vals[0][0], ast.BinOp) and isinstance(vals[0][0].op, ast.FloorDiv) \
        and nf(vals[0][0].left) == "self._offset" and \
        nf(vals[0][0].right) == "__fixup__(self._node.segment_size, self._node.guessed_segment_size)"
    r.require(okv, fn_, fn_.loc(gc), "the requested segment is %s, not offset // (segment_size or guessed_segment_size)" % (
        [nf(v) for v, _d in vals] or "?"))
    # the active-segnum / got_segment bookkeeping uses the same number
    ck = idx.func(NODE + "._check_ciphertext_hash")
    ckp = first_positional_params(ck)
    cks = Sym(idx, ck)
    r.site(ck, None, "segment label segnum * segment_size")
    for n in ck.cfg().find(is_return):
        at, v = follow_copies(cks, n, n.ast.value) if n.ast.value is not None else (n, None)
        okc = isinstance(v, ast.Tuple) and len(v.elts) == 3 and \
            nrm.poly(cks.expand(at, v.elts[0])) == Poly.atom(ckp[1]) * Poly.atom("self.segment_size")
        r.require(okc, ck, ck.loc(n.ast), "a segment is labelled with start %s, not segnum * segment_size" % (
            nf(cks.expand(at, v.elts[0])) if isinstance(v, ast.Tuple) and v.elts else src(ck, v)))
    # completion: size == 0 fires the Deferred with the consumer
    done = [n for n in fn_.cfg().find(has_call("callback"))]
    fnorm3 = fnorm2
    for n in done:
        def size0(q, lab):
            f = fnorm3.edge_fact(q, lab)
            return bool(f) and f[0] == "==" and {f[1], f[2]} == {"0", "self._size"}
        r.require(not find_path_avoiding(fn_.cfg(), lambda q, _n=n: q is _n, gate_edge=size0), fn_, fn_.loc(n.ast),
                  "the read is reported complete although bytes remain")
    r.require(bool(done), fn_, fn_.loc(), "_fetch_next never completes the read")


def run_literal(ctx, r):
    idx = ctx.idx
    rd = idx.func("immutable.literal:LiteralFileNode.read")
    rp = first_positional_params(rd)
    s = Sym(idx, rd)
    cfg = rd.cfg()
    fnorm = FlowNorm(rd)
    bt = the_call(rd, "beginFileTransfer")
    bn = node_of(rd, bt)
    r.site(rd, bt, "literal slice")
    a0 = bt.args[0] if bt.args else None
    ok = isinstance(a0, ast.Call) and call_tail(a0) == "BytesIO" and len(a0.args) == 1 and isinstance(a0.args[0], ast.Name) \
        and len(bt.args) >= 2 and nf(bt.args[1]) == rp[0]
    r.require(ok, rd, rd.loc(bt), "FileSender is given %s" % src(rd, bt))
    if not ok:
        return
    var = a0.args[0].id
    defs = s.rd.get(bn.id, {}).get(var, frozenset())
    seen = {}
    for d in defs:
        if d == C.PARAM_DEF:
            continue
        dn = cfg.nodes[d]
        v = s.fnorm._def_value(dn, var)
        seen[nf(v)] = dn
    w_all = norm_src("self.u.data[%s:]" % rp[1])
    w_rng = norm_src("self.u.data[%s:%s+%s]" % (rp[1], rp[1], rp[2]))
    r.require(set(seen) == {w_all, w_rng}, rd, rd.loc(bt), "the literal data sent is one of %s (expected %s / %s)" % (
        sorted(seen), w_all, w_rng))

    def none_fact(op):
        def g(n, lab):
            f = fnorm.edge_fact(n, lab)
            return bool(f) and f[0] == op and {f[1], f[2]} == {"None", rp[2]}
        return g
    if w_all in seen:
        for (n, w) in find_path_avoiding(cfg, lambda q: q is seen[w_all], gate_edge=none_fact("is")):
            r.violation(rd, rd.loc(n.ast), "the whole tail of the literal is sent although a size was given", w)
    if w_rng in seen:
        for (n, w) in find_path_avoiding(cfg, lambda q: q is seen[w_rng], gate_edge=none_fact("is not")):
            r.violation(rd, rd.loc(n.ast), "offset+size is computed although size may be None", w)


# ------------------------------------------------------------------ how cancel handles compare (C04.14)
HARMLESS_DECORATORS = {"implementer", "provider", "total_ordering", "final"}
DATACLASS_DECORATORS = {"dataclass"}
ATTRS_DECORATORS = {"s", "attrs", "attributes", "define", "mutable", "frozen"}
FIELD_MAKERS = {"field", "ib", "attrib", "attr"}


def _const_of(v):
    """('const', value) / ('param', None) / ('other', None) of the initial value expression of a generated field."""
    if v is None:
        return ("param", None)
    if isinstance(v, ast.Constant):
        return ("const", v.value)
    if isinstance(v, ast.Call) and call_tail(v) in FIELD_MAKERS:
        kws = {k.arg: k.value for k in v.keywords if k.arg}
        d = kws.get("default")
        if d is None and v.args and call_tail(v) in ("ib", "attrib"):
            d = v.args[0]
        if d is None:
            return ("other", None) if ("default_factory" in kws or "factory" in kws) else ("param", None)
        return ("const", d.value) if isinstance(d, ast.Constant) else ("other", None)
    return ("other", None)


def _kw_false(call, *names):
    if not isinstance(call, ast.Call):
        return False
    return any(k.arg in names and isinstance(k.value, ast.Constant) and k.value.value is False for k in call.keywords)


def handle_equality(idx, ci):
    """How two instances of the class ci compare under == / != / in:
    ('identity', None, why) or ('fields', {field: ('const', v) | ('param', None) | ('other', None)}, why) - the
    instance attributes that take part in the comparison, with the value a fresh instance has in them.
    AnalysisError when the class gets its comparison from somewhere the rule cannot read."""
    for c in ci.mro():
        ext = [b for b in c.opaque_bases if b.split(".")[-1] != "object"]
        if ext:
            raise AnalysisError("%s derives from %s, which is outside the package: the rule cannot tell whether two handles "
                                "compare by identity" % (c.name, ", ".join(ext)))
        for dec in c.node.decorator_list:
            f = dec.func if isinstance(dec, ast.Call) else dec
            tail = (attr_path(f) or "").split(".")[-1]
            if tail in HARMLESS_DECORATORS:
                continue
            gen = tail in DATACLASS_DECORATORS or tail in ATTRS_DECORATORS
            if not gen:
                raise AnalysisError("class decorator %s of %s: the rule cannot tell whether it gives the handles a value "
                                    "comparison" % (ast.unparse(dec), c.name))
            if "__eq__" in c.methods:
                break           # an explicit __eq__ wins over the generated one
            if _kw_false(dec, "eq", "cmp"):
                continue
            fields = {}
            for s in c.node.body:
                if isinstance(s, ast.AnnAssign) and isinstance(s.target, ast.Name):
                    if "ClassVar" in ast.unparse(s.annotation).replace("typing.", "").split("[")[0]:
                        continue
                    if _kw_false(s.value, "compare", "eq", "cmp"):
                        continue
                    fields[s.target.id] = _const_of(s.value)
                elif isinstance(s, ast.Assign) and len(s.targets) == 1 and isinstance(s.targets[0], ast.Name) \
                        and isinstance(s.value, ast.Call) and call_tail(s.value) in FIELD_MAKERS and tail in ATTRS_DECORATORS:
                    if not _kw_false(s.value, "compare", "eq", "cmp"):
                        fields[s.targets[0].id] = _const_of(s.value)
            return ("fields", fields, "@%s generates %s.__eq__ over (%s)" % (ast.unparse(f), c.name, ", ".join(fields)))
        for name in ("__eq__", "__ne__"):
            m = c.methods.get(name)
            if m is None:
                continue
            ps = [a.arg for a in m.node.args.args]
            ret = Ownership.single_return(m)
            if len(ps) >= 2 and isinstance(ret, ast.Compare) and len(ret.ops) == 1 and isinstance(ret.ops[0], (ast.Is, ast.IsNot)) \
                    and {nf(ret.left), nf(ret.comparators[0])} == {ps[0], ps[1]}:
                continue        # identity, spelled out
            init = ci.lookup("__init__")
            inits = {}
            if init is not None:
                ip = set(first_positional_params(init))
                for p, (_n, v) in Sym(idx, init, expand_attrs=False).attr_stores().items():
                    if p.count(".") == 1:
                        inits[p.split(".")[1]] = ("param", None) if (isinstance(v, ast.Name) and v.id in ip) else _const_of(v) \
                            if isinstance(v, ast.Constant) else ("other", None)
            used = {x.attr for x in func_own_nodes(m, into_lambda=True)
                    if isinstance(x, ast.Attribute) and isinstance(x.value, ast.Name) and x.value.id == ps[0]}
            whole = {"__dict__"} & used or any(isinstance(x, ast.Call) and call_tail(x) == "vars" for x in func_own_nodes(m))
            fields = dict(inits) if whole else {a: inits.get(a, ("other", None)) for a in used if a in inits}
            if not fields:
                raise AnalysisError("%s.%s: the rule cannot read which attributes of a handle it compares" % (c.name, name))
            return ("fields", fields, "%s.%s compares (%s)" % (c.name, name, ", ".join(sorted(fields))))
    return ("identity", None, "%s inherits object.__eq__" % ci.name)


def run_handle_identity(ctx, r):
    """_cancel_request finds the request of the read that cancels by its Cancel handle.  The handles of the other reads
    that wait on the same node must not be mistaken for it (C04.14)."""
    idx = ctx.idx
    gs = idx.func(NODE + ".get_segment")
    gss = Sym(idx, gs)
    ap = the_call(gs, "append", lambda c: attr_path(c.func.value) == "self._segment_requests")
    tup = ap.args[0] if ap.args else None
    if not isinstance(tup, ast.Tuple):
        raise AnchorVanished("get_segment: the queued request is no longer a tuple")
    made = [gss.expand(node_of(gs, ap), e) for e in tup.elts]
    hcalls = [v for v in made if isinstance(v, ast.Call) and any(nf(a) == "self._cancel_request" for a in v.args)]
    if len(hcalls) != 1:
        raise AnchorVanished("get_segment: expected one handle built around self._cancel_request in the queued request")
    hc = idx.resolve_expr_to_class(gs.module, hcalls[0].func)
    if hc is None:
        raise AnchorVanished("get_segment: the cancel handle %s is not an instance of a class of the package" % nf(hcalls[0]))
    cr = idx.func(NODE + "._cancel_request")
    cp = first_positional_params(cr)
    if not cp:
        raise AnchorVanished("_cancel_request takes no handle")
    # -- the comparisons of _cancel_request that look for the handle
    by_value, by_identity = [], []
    for x in func_own_nodes(cr, into_lambda=True):
        if isinstance(x, ast.Compare) and len(x.ops) == 1 and any(isinstance(s, ast.Name) and s.id == cp[0]
                                                                   for s in [x.left] + list(x.comparators)):
            (by_identity if isinstance(x.ops[0], (ast.Is, ast.IsNot)) else by_value).append(x)
    if not by_value and not by_identity:
        raise AnchorVanished("_cancel_request no longer compares the queued handles with the cancelling one")
    for x in by_value + by_identity:
        r.site(cr, x, "the cancelling handle is told apart from the handles of the other reads")
    if not by_value:
        return
    kind, fields, why = handle_equality(idx, hc)
    r.count(len(hc.mro()))
    if kind == "identity":
        return
    # -- value comparison: a handle that calls the node must by then differ from a fresh handle of another read in a
    #    compared field (the constructor arguments are the same for every handle of the node, see C04.1)
    consts = {a: v for a, (k, v) in fields.items() if k == "const"}
    cb_fields = {a for a, (k, _v) in fields.items() if k == "param"} | {
        p.split(".")[1] for m in all_funcs_of(hc) if m.name == "__init__" for p in node_stores_all(m) if p.count(".") == 1}
    notes = []
    for m in all_funcs_of(hc):
        if not m.node.args.args or m.name == "__init__" or m.parent is not None:
            continue
        me = m.node.args.args[0].arg
        for c in calls_in_func(m):
            if isinstance(c.func, ast.Attribute) and isinstance(c.func.value, ast.Name) and c.func.value.id == me \
                    and c.func.attr in cb_fields and hc.lookup(c.func.attr) is None and any(nf(a) == me for a in c.args):
                notes.append((m, me, c))
    if not notes:
        raise AnchorVanished("%s: no method hands the handle to the node's callback" % hc.name)
    for (m, me, c) in notes:
        cn = node_of(m, c)

        def differs(q, _me=me):
            for a, v0 in consts.items():
                p = "%s.%s" % (_me, a)
                if p in node_stores(q):
                    v = assign_value(q, p)
                    if isinstance(v, ast.Constant) and v.value != v0:
                        return True
            return False

        def restored(q, _me=me):
            return any(("%s.%s" % (_me, a)) in node_stores(q) for a in consts) and not differs(q)
        for (n, w) in find_path_avoiding(m.cfg(), lambda q, _c=cn: q is _c, gate_node=differs, kill=restored, skip_exc_edges=True):
            r.violation(cr, cr.loc(by_value[0]), "_cancel_request picks the request to drop with `%s`, but %s handles compare by "
                        "value (%s) and %s calls the node (%s) while the handle still looks like a fresh one: every handle "
                        "the other reads of this node have queued compares equal to it, so stopping one read drops the segment "
                        "requests of all the others and they never complete (path in %s: %s).  Compare with `is` / `is not`, "
                        "or keep identity comparison on the handle class" % (
                            src(cr, by_value[0]), hc.name, why, short(m), src(m, c), short(m), w.brief()), w)


def _reach_after(cfg, start):
    """Ids of the CFG nodes that can run after `start` (non-exceptional edges)."""
    seen, todo = set(), [start.id]
    while todo:
        x = todo.pop()
        for (d, lab) in cfg.succ[x]:
            if lab != "exc" and d not in seen:
                seen.add(d)
                todo.append(d)
    return seen


def node_stores_all(fn):
    out = set()
    for q in fn.cfg().nodes:
        out |= {p for p in node_stores(q) if not p.endswith("[]")}
    return out


# ------------------------------------------------------------------ re-entrant calls from the consumer (C04.15)
def run_reentrancy(ctx, r):
    """The consumer may call pause/resume/stopProducing from inside a call the read makes on it (write).  While the
    read's position is stale in such a call, no producer method reaches get_segment on the same stack (C04.15)."""
    idx = ctx.idx
    ci, funcs, F, gc, gn, reach = seg_fetcher(idx)
    fs = Sym(idx, F)
    by_qual = {g.qual: g for g in funcs}

    def self_attrs(e):
        return {attr_path(x) for x in ast.walk(e) if isinstance(x, ast.Attribute) and isinstance(x.value, ast.Name)
                and x.value.id == "self" and isinstance(x.ctx, ast.Load)}
    # -- the position of the read: what decides which segment _fetch_next asks for and whether the read is complete
    state = set()
    for a in list(gc.args) + [k.value for k in gc.keywords]:
        state |= self_attrs(fs.expand(gn, a))
    for q in F.cfg().nodes:
        if q.kind == "test":
            state |= self_attrs(fs.expand(q, q.ast))
    written = set()
    for g in funcs:
        if g.name != "__init__":
            written |= node_stores_all(g)
    state &= written
    if not state:
        raise AnchorVanished("%s: the segment asked for does not depend on any attribute the read updates" % short(F))

    def callee_closure(g):
        out, todo = {}, [g]
        while todo:
            h_ = todo.pop()
            if h_.qual in out:
                continue
            out[h_.qual] = h_
            for c in calls_in_func(h_):
                m = self_callee(h_, c)
                if m is not None and m.qual in by_qual:
                    todo.append(m)
        return list(out.values())

    def stores_in(g, attrs):
        return any(attrs & node_stores_all(h_) for h_ in callee_closure(g))

    def node_may_store(g, q, attrs):
        if q.kind in ("entry", "exit", "raise"):
            return False
        if attrs & set(node_stores(q)):
            return True
        return any(self_callee(g, c) is not None and self_callee(g, c).qual in by_qual and stores_in(self_callee(g, c), attrs)
                   for c in node_calls(q))

    # -- the calls the read makes on its consumer
    outs = []
    for g in funcs:
        for c in calls_in_func(g):
            if isinstance(c.func, ast.Attribute) and nf(c.func.value) == "self._consumer":
                outs.append((g, c, node_of(g, c)))
    if not any(call_tail(c) == "write" for (_g, c, _n) in outs):
        raise AnchorVanished("Segmentation no longer writes to its consumer")
    entries = [g for g in funcs if g.parent is None and not g.name.startswith("_") and g.name != "start"]
    rd = idx.func(NODE + ".read")
    start_name = the_call(rd, "start").func.attr
    entries = [g for g in entries if g.name != start_name]
    if not entries:
        raise AnchorVanished("Segmentation has no producer method the consumer can call")
    fnorms = {}

    def fact(g, q, lab):
        if g.qual not in fnorms:
            fnorms[g.qual] = FlowNorm(g)
        return fnorms[g.qual].edge_fact(q, lab)

    def closed(f, marks):
        """The edge fact f cannot hold while the attributes in marks have the constant values noted there."""
        if not f:
            return False
        if f[0] in ("truth", "false") and f[1] in marks:
            return bool(marks[f[1]]) != (f[0] == "truth")
        if f[0] in ("is", "==", "is not", "!=") and f[2] is not None and "None" in (f[1], f[2]):
            x = f[2] if f[1] == "None" else f[1]
            if x in marks:
                return (marks[x] is None) != (f[0] in ("is", "=="))
        return False

    def after_node(g, n, st):
        """What is still known about constant-valued attributes once node n of g has run."""
        if n.kind in ("entry", "exit", "raise"):
            return st
        known = dict(st)
        for x in list(known):
            if x in node_stores(n):
                v = assign_value(n, x)
                if isinstance(v, ast.Constant):
                    known[x] = v.value
                else:
                    del known[x]
            elif node_may_store(g, n, {x}):
                del known[x]
        for x in node_stores(n):
            v = assign_value(n, x) if x.startswith("self.") and x.count(".") == 1 else None
            if isinstance(v, ast.Constant):
                known[x] = v.value
        return frozenset(known.items())

    memo = {}

    def route(g, marks, stack):
        """(names of the methods on the way, Witness in g) of a way from the entry of g to get_segment that stays on
        the caller's stack (direct self.m() calls only) and is open when the attributes in marks (a frozenset of
        (attribute, constant)) have those values on entry; None when there is none."""
        key = (g.qual, marks)
        if key in memo:
            return memo[key]
        memo[key] = None
        cfg = g.cfg()

        def transfer(n, lab, nxt, st):
            if lab == "exc":
                return None
            if n.kind == "test" and closed(fact(g, n, lab), dict(st)):
                return None
            return after_node(g, n, st)
        visited, parent = explore(cfg, marks, transfer)
        r.count(len(visited))
        for (nid, st) in sorted(visited, key=lambda t: (t[0], sorted(map(repr, t[1])))):
            q = cfg.nodes[nid]
            if q.kind in ("entry", "exit", "raise"):
                continue
            if g is F and q is gn:
                memo[key] = (["get_segment"], witness(cfg, parent, (nid, st)))
                return memo[key]
            for c in node_calls(q):
                m = self_callee(g, c)
                if m is not None and m.qual in by_qual and m.qual not in stack:
                    got = route(m, st, stack + (m.qual,))
                    if got is not None:
                        memo[key] = ([m.name] + got[0], witness(cfg, parent, (nid, st)))
                        return memo[key]
        return None

    for (g, c, cn) in outs:
        cfg = g.cfg()
        r.site(g, c, "the consumer is called with the read's position up to date, or cannot re-enter the fetch on this stack")
        after = _reach_after(cfg, cn)
        late = [cfg.nodes[i] for i in sorted(after) if node_may_store(g, cfg.nodes[i], state)]
        if not late:
            continue
        # what a re-entrant call can rely on: attributes g has set to a constant by the time it calls the consumer
        marks = {}
        cands = {p for q in cfg.nodes for p in node_stores(q) if p.startswith("self.") and p.count(".") == 1
                 and isinstance(assign_value(q, p), ast.Constant)}
        for x in sorted(cands):
            def transfer(n, lab, nxt, st, _x=x):
                if lab == "exc":
                    return None
                if n.kind in ("entry", "exit", "raise") or n is cn:
                    return st
                if _x in node_stores(n):
                    v = assign_value(n, _x)
                    return ("c", repr(v.value)) if isinstance(v, ast.Constant) else ("?",)
                if node_may_store(g, n, {_x}):
                    return ("?",)
                return st
            visited, _parent = explore(cfg, ("?",), transfer)
            vals = {st for (nid, st) in visited if nid == cn.id}
            if len(vals) == 1 and next(iter(vals))[0] == "c":
                marks[x] = ast.literal_eval(next(iter(vals))[1])
        stale = sorted({p for q in late for p in (state & set(node_stores(q)))}) or sorted(state)
        for e in entries:
            got = route(e, frozenset(marks.items()), (e.qual,))
            if got is None:
                continue
            chain, w = [e.name] + got[0], got[1]
            r.violation(g, g.loc(c), "%s calls %s before it has brought %s up to date (`%s` comes after the call), and %s() reaches "
                        "get_segment on the caller's stack (%s): a consumer that calls %s() from inside %s() makes the read ask "
                        "for a segment from its old position - the segment it was just given - and the read fails or delivers "
                        "the wrong bytes.  Advance the position before calling the consumer, or let %s() only schedule the fetch "
                        "(eventually)" % (short(g), src(g, c.func), " / ".join(stale), src(g, late[0].ast), e.name,
                                          " -> ".join(chain), e.name, call_tail(c), e.name), w)
            break


# ------------------------------------------------------------------ a second route into the writer (C04.16)
def _method_refs(g, n, wanted):
    """[(method, 'now' | 'later', ast)] for the same-class methods of `wanted` ({qual: FuncInfo}) that node n of g
    calls (`self.m(..)`: now) or hands on as a value (to eventually / callLater / addCallback..: later; inside a lambda:
    later; to anything else, e.g. maybeDeferred: now)."""
    out = []

    def walk(e, later):
        if isinstance(e, ast.Lambda):
            walk(e.body, True)
            return
        if isinstance(e, (ast.FunctionDef, ast.AsyncFunctionDef, ast.ClassDef)):
            return
        if isinstance(e, ast.Call):
            m = self_callee(g, e)
            if m is not None and m.qual in wanted:
                out.append((m, "later" if later else "now", e))
            else:
                walk(e.func, later)
            sched = call_tail(e) in SCHEDULERS or call_tail(e) in REG_TAILS
            for a in list(e.args) + [k.value for k in e.keywords]:
                if isinstance(a, ast.Starred):
                    a = a.value
                mv = self_method_value(g, a)
                if mv is not None and mv.qual in wanted:
                    out.append((mv, "later" if (later or sched) else "now", a))
                else:
                    walk(a, later)
            return
        if isinstance(e, ast.Attribute) and isinstance(e.ctx, ast.Load):
            mv = self_method_value(g, e)
            if mv is not None and mv.qual in wanted:
                out.append((mv, "later" if later else "now", e))
                return
        for ch in ast.iter_child_nodes(e):
            walk(ch, later)
    for e in node_exprs(n):
        walk(e, False)
    return out


def run_second_route(ctx, r):
    """The writer advances the read's position; it is entered as the success callback of the request that fetched the
    segment.  Any other route that hands it a segment (a segment held back while paused, ..) must reach it before a fetch
    route of the same activation can ask the node for a segment (C04.16)."""
    idx = ctx.idx
    ci, funcs, F, gc, gn, reach = seg_fetcher(idx)
    by_qual = {g.qual: g for g in funcs}
    writers = [g for g in funcs if any(isinstance(c.func, ast.Attribute) and nf(c.func.value) == "self._consumer"
                                       for c in calls_in_func(g, "write"))]
    if len(writers) != 1:
        raise AnchorVanished("Segmentation: expected one method that writes to the consumer, found %d" % len(writers))
    W = writers[0]
    dname = segment_deferred(F, gn, gc)
    regs = registrations(F, dname)
    reg_nodes = set()
    for reg in regs:
        for t in (reg.target, reg.errtarget):
            if t is not None:
                reg_nodes |= {id(x) for x in ast.walk(t)}
    if not any(self_method_value(F, t) is W for reg in regs for t in (reg.target, reg.errtarget) if t is not None):
        r.site(F, gc, "the writer is not on the segment Deferred (C04.11 reports it)")
        return
    refs_cache = {}

    def refs(g, n):
        key = (g.qual, n.id)
        if key not in refs_cache:
            refs_cache[key] = [(m, when, a) for (m, when, a) in _method_refs(g, n, by_qual) if id(a) not in reg_nodes]
        return refs_cache[key]

    def closure(seed, only_now):
        out = dict(seed)
        grew = True
        while grew:
            grew = False
            for g in funcs:
                if g.qual in out:
                    continue
                for n in g.cfg().nodes:
                    if any(m.qual in out and (when == "now" or not only_now) for (m, when, _a) in refs(g, n)):
                        out[g.qual] = g
                        grew = True
                        break
        return out
    deliv = closure({W.qual: W}, False)               # methods that hand a segment to the writer, outside the Deferred chain
    deliv_sync = closure({W.qual: W}, True)           # .. on the caller's stack
    fetch = {q: g for q, g in reach.items() if q not in deliv}
    fetch_sync = {q: g for q, g in closure({F.qual: F}, True).items() if q in fetch}
    others = sorted(q for q in deliv if q != W.qual)
    r.site(F, gc, "the writer %s is entered through the segment Deferred; other routes into it: %s" % (
        short(W), ", ".join(by_qual[q].name for q in others) or "none"))
    if not others and not any(m is W for g in funcs for n in g.cfg().nodes for (m, _w, _a) in refs(g, n)):
        return
    fnorms = {}

    def fact(g, q, lab):
        if g.qual not in fnorms:
            fnorms[g.qual] = FlowNorm(g)
        return fnorms[g.qual].edge_fact(q, lab)

    def none_fact(f):
        """(attribute, 'none' | 'set') told by an edge fact about a self attribute, else None."""
        if not f:
            return None
        if f[0] in ("truth", "false") and re.match(r"^self\.\w+$", f[1] or ""):
            return (f[1], "set" if f[0] == "truth" else "none")
        if f[0] in ("is", "==", "is not", "!=") and f[2] is not None and "None" in (f[1], f[2]):
            x = f[2] if f[1] == "None" else f[1]
            if re.match(r"^self\.\w+$", x or ""):
                return (x, "none" if f[0] in ("is", "==") else "set")
        return None

    reported = set()
    for g in funcs:
        cfg = g.cfg()
        classified = {}
        for n in cfg.nodes:
            if n.kind in ("entry", "exit", "raise"):
                continue
            items = []
            if g is F and n is gn:
                items.append(("fetch", "now", gc, "get_segment"))
            for (m, when, a) in refs(g, n):
                if m.qual in deliv:
                    items.append(("deliv", when if m.qual in deliv_sync else "later", a, m.name))
                elif m.qual in fetch:
                    items.append(("fetch", when if m.qual in fetch_sync else "later", a, m.name))
            if items:
                classified[n.id] = items
        if not any(k == "deliv" for items in classified.values() for (k, _w, _a, _m) in items):
            continue
        for nid, items in sorted(classified.items()):
            for (k, when, a, mname) in items:
                if k == "deliv":
                    r.site(g, a, "second route into the writer (%s, %s)" % (mname, when))

        def transfer(n, lab, nxt, st):
            if lab == "exc":
                return None
            fnow, flater, dlater, facts, bad = st
            if bad is not None:
                return None
            if n.kind in ("entry", "exit", "raise"):
                return st
            known = dict(facts)
            for (k, when, a, mname) in classified.get(n.id, ()):
                if k == "deliv":
                    first = fnow or (flater if when == "later" else None)
                    if first:
                        return (fnow, flater, dlater, facts, (first, mname, when, id(a)))
                    if when == "later":
                        dlater = dlater or mname
                else:
                    if when == "now" and dlater:
                        return (fnow, flater, dlater, facts, (mname, dlater, "later", id(a)))
                    if when == "now":
                        fnow = fnow or mname
                    else:
                        flater = flater or mname
            for x in node_stores(n):
                if x.startswith("self.") and x.count(".") == 1:
                    v = assign_value(n, x)
                    known.pop(x, None)
                    if isinstance(v, ast.Constant):
                        known[x] = "none" if v.value is None else "set"
            nf_ = none_fact(fact(g, n, lab)) if n.kind == "test" else None
            if nf_ is not None:
                if known.get(nf_[0], nf_[1]) != nf_[1]:
                    return None
                known[nf_[0]] = nf_[1]
            return (fnow, flater, dlater, frozenset(known.items()), None)
        visited, parent = explore(cfg, (None, None, None, frozenset(), None), transfer)
        r.count(len(visited))
        for (nid, st) in sorted(visited, key=lambda t: (t[0], repr(t[1]))):
            bad = st[4]
            if bad is None:
                continue
            fetch_name, deliv_name, dwhen, aid = bad
            key = (g.qual, fetch_name, deliv_name)
            if key in reported:
                continue
            reported.add(key)
            w = witness(cfg, parent, (nid, st))
            at = next((a for items in classified.values() for (k, _w, a, m_) in items if id(a) == aid), None)
            r.violation(g, g.loc(at) if at is not None else g.loc(), "%s hands a segment to the writer outside the Deferred of "
                        "its request (%s -> %s), but on the same path the fetch route %s runs first: the position of the read "
                        "(which only %s advances) still points at the segment that is about to be delivered, so the node is "
                        "asked for that segment a second time; when the duplicate arrives the position has moved on and the "
                        "read fails with WrongSegmentError.  A segment held outside the segment Deferred must reach %s before "
                        "any fetch of the same activation (deliver first, then fetch) (path: %s)" % (
                            short(g), deliv_name, short(W), fetch_name, short(W), short(W), w.brief()), w)


def run(ctx: Context):
    with ctx.rule("C04.1", "R4", "per-read isolation: fresh Segmentation / DecryptingConsumer / Deferred / Cancel per call; "
                  "per-read classes store only to self.* and touch the node only through get_segment", expected=5) as r:
        run_isolation(ctx, r)
    with ctx.rule("C04.2", "R3", "cancel discipline: only the cancelling request is removed, the active fetcher is stopped "
                  "only when unwanted, requests are partitioned by segment, cancel/deliver are one-shot, stopProducing cancels whenever "
                  "a request is outstanding", expected=7) as r:
        run_cancel(ctx, r)
    with ctx.rule("C04.3", "R1/R6", "read length clipped to max(0, min(size, filesize-offset)); None means EOF; zero-length "
                  "reads finish before a Segmentation is built", expected=2) as r:
        run_clip(ctx, r)
    with ctx.rule("C04.4", "R6", "Segmentation requests offset // segment_size, segments are labelled segnum * segment_size, "
                  "and the bytes written are the overlap slice guarded by the first-byte check", expected=4) as r:
        run_trim(ctx, r)
    with ctx.rule("C04.5", "R6", "AES-CTR counter positioned from the read offset (same checks as C01.7, decrypt side)",
                  expected=3) as r:
        run_ctr(ctx, r)
    with ctx.rule("C04.6", "R6", "LiteralFileNode.read sends data[offset:] when size is None, else data[offset:offset+size]",
                  expected=1) as r:
        run_literal(ctx, r)
    with ctx.rule("C04.7", "R1/R3", "a read has at most one segment request outstanding: get_segment is reached only past "
                  "`record is None`, the request is recorded, retired on both outcomes before the read continues, and "
                  "forgotten by nobody else", expected=5) as r:
        run_outstanding(ctx, r)
    with ctx.rule("C04.8", "R1/E3", "whoever retires the node's active fetcher (cancel, delivery, failure) resets "
                  "_active_segment and then starts the next queued request, so the other reads go on", expected=3) as r:
        run_restart(ctx, r)
    with ctx.rule("C04.9", "R6", "every read() returns a Deferred that fires with the caller's consumer: succeed(consumer) for "
                  "the empty read, else the Deferred Segmentation completes with its consumer, handed up unchanged", expected=5) as r:
        run_result(ctx, r)
    with ctx.rule("C04.10", "R1/E3", "every queued segment request is started (get_segment) and, once taken out of the queue, "
                  "handed to _deliver, which fires its Deferred while the request is active", expected=5) as r:
        run_service(ctx, r)
    with ctx.rule("C04.11", "R1/E7", "the segment Deferred of a read has the writer as success callback, then a retry errback "
                  "whenever the segment size is a guess; the writer continues the read; resumeProducing reopens the gate that "
                  "pauseProducing closed; start() asks for the first segment", expected=5) as r:
        run_chain(ctx, r)
    with ctx.rule("C04.12", "R1/R6", "a request for a segment past the end of the file (a wrong guess) is failed by the fetcher, "
                  "exactly when segnum >= the authoritative count, with an error that the retry errback of the read lets "
                  "through, as it does the writer's wrong-segment error; get_num_segments is authoritative once the count is known",
                  expected=5) as r:
        run_past_end(ctx, r)
    with ctx.rule("C04.13", "R1/E3/E7", "code of DownloadNode that runs on a later reactor turn (Deferred callbacks, eventually()) "
                  "stores to or dereferences _active_segment only on paths that compared the slot with a value read from it "
                  "before the gap (or, for a store, saw it empty): a completion that was overtaken by a cancel leaves the "
                  "other reads' fetcher alone", expected=1) as r:
        run_ownership(ctx, r)
    with ctx.rule("C04.14", "R3/R4", "_cancel_request tells the cancelling Cancel handle from the handles of the other reads: it "
                  "compares by identity (`is`, or a handle class without value comparison), or a handle that compares by value "
                  "has made itself differ from a fresh handle before it calls the node", expected=1) as r:
        run_handle_identity(ctx, r)
    with ctx.rule("C04.15", "R1/E3", "re-entrancy: whenever Segmentation calls its consumer (write) with the read's position "
                  "(_offset/_size) not yet advanced, no producer method the consumer may call from inside that call "
                  "(resumeProducing, ..) reaches get_segment on the same stack", expected=1) as r:
        run_reentrancy(ctx, r)
    with ctx.rule("C04.16", "R1/E3/E7", "a segment reaches the writer (the method that checks it against, and advances, the read's "
                  "position) as the success callback of its own request; on any other route into the writer (a segment held "
                  "back while paused) no fetch route of the same activation runs ahead of the hand-over", expected=1) as r:
        run_second_route(ctx, r)
