"""C04 Random-access and concurrent immutable reads.

Interleaving outcomes are schedule-level (undecided).  Decided: per-read
isolation, the cancel discipline of the shared segment-request queue, the
clip expression, the trimming arithmetic of Segmentation, the AES-CTR
positioning (shared with C01) and the literal-file slices."""
from sa.h import *
from sa.rules.C01 import (Sym, bind_call_args, dominated_by, gated_by_truth, nf, node_of, run_ctr, the_call)

EXPLANATION = (
    "Decided: (1) every DownloadNode.read builds a fresh Segmentation from its own (offset, clipped size, consumer) and "
    "every ImmutableFileNode.read a fresh DecryptingConsumer; neither object is kept on the node; Segmentation and "
    "DecryptingConsumer have no class-level mutable state, store only to self.*, and touch the download node only "
    "through get_segment (who-may-write on DownloadNode state from segmentation.py is empty); each get_segment makes its "
    "own Cancel handle and Deferred; (2) _cancel_request removes only the tuple of the cancelling handle and stops the "
    "active fetcher only when no remaining request wants its segment; _extract_requests partitions by segment number; "
    "Cancel.cancel and _deliver are one-shot; stopProducing cancels only its own handle; (3) the size is clipped to "
    "max(0, min(size, filesize - offset)), None means to EOF, and a zero-length read completes before a Segmentation "
    "is built; (4) Segmentation asks for segment offset // segment_size, the node labels segments with "
    "segnum * segment_size, and the bytes written are segment[offset-start : offset-start+overlap] guarded by the "
    "first-byte check, with offset/size advanced by the written length; (5) the AES-CTR counter is positioned from the "
    "read offset (C01.7); (6) LiteralFileNode.read slices [offset:] / [offset:offset+size]; (7) a read has at most one "
    "segment request outstanding: every route from a method the consumer may call at any time (resumeProducing) to "
    "get_segment passes `record is None` for a record that _fetch_next sets (a truthiness test of the segment number "
    "is not such a gate: segment 0 is falsy), the record is reset on both outcomes of the segment Deferred before a "
    "callback continues the read, and nobody else resets it without cancelling the request; (8) whoever retires the "
    "node's active fetcher - _cancel_request, also through same-class helpers, and the delivery/failure handlers - "
    "resets _active_segment and then calls _start_new_segment(), so requests queued by other reads are served; "
    "(2b) stopProducing cancels its handle on every path on which the handle was not seen to be unset; (3b) an assertion of "
    "Segmentation.__init__ about offset/size/file size is no stronger than offset + size <= file size (reads up to EOF pass); "
    "(9) every read() - DownloadNode, CiphertextFileNode, ImmutableFileNode, LiteralFileNode - returns on every path a "
    "Deferred (never None) that fires with the caller's consumer: succeed(consumer) for the empty read, else the Deferred "
    "of Segmentation.start(), which _fetch_next fires with self._consumer and whose callbacks hand the value on; "
    "ImmutableFileNode reads (fresh DecryptingConsumer, offset, size) and unwraps to the consumer; (10) get_segment calls "
    "(or schedules) the method that installs a fetcher on every path after queuing; every loop over "
    "_extract_requests(..) hands each (Deferred, Cancel) it took out of the queue to _deliver (a request seen to be "
    "inactive may be skipped); _deliver fires d.callback(result) on every path on which the handle was not seen inactive; "
    "(11) the method that writes to the consumer is a success callback on the Deferred of get_segment; after it comes an "
    "errback that re-enters the fetch route, registered on every path on which the node's segment size was not seen to be "
    "known, with no failure-swallowing errback in between; after the write the writer (or a later success callback) "
    "re-enters the fetch route on every path; start() enters it; resumeProducing sets again every flag that "
    "pauseProducing clears and that gates the route (unless it saw the pause mark unset).  "
    "Undecided: outcomes of interleavings, Twisted producer/consumer flow control beyond the pause/resume flag (the "
    "_alive gate, _hungry/_alive after completion or stopProducing, register/unregisterProducer), a "
    "_start_new_segment inlined into its callers, what happens to a read whose fetch fails (the _error errback, the "
    "errback of stopProducing, the failure branch of process_blocks._deliver beyond handing the failure on), the "
    "integrity checks of _check_ciphertext_hash (other properties), download-status bookkeeping.")
TECHNIQUE = ("static analysis: who-may-write/call sweeps, CFG gate rules on the cancel path (inter-procedural typestate with "
             "function summaries), in-class route gating of get_segment, normal forms of the clip and trim, Deferred callback-chain "
             "order and result flow, must-follow rules for start/deliver")

NODE = "immutable.downloader.node:DownloadNode"
SEG = "immutable.downloader.segmentation:Segmentation"
DECR = "immutable.filenode:DecryptingConsumer"


def all_funcs_of(ci):
    out = []

    def rec(f):
        out.append(f)
        for g in f.nested.values():
            rec(g)
    for m in ci.methods.values():
        rec(m)
    return out


ACTIVE = "self._active_segment"


def _is_none(v):
    return isinstance(v, ast.Constant) and v.value is None


def self_callee(fn, call):
    """The same-class method called by `self.m(..)` inside fn (also from a nested function), else None."""
    f = call.func
    if fn.cls is not None and isinstance(f, ast.Attribute) and isinstance(f.value, ast.Name) and f.value.id == "self":
        return fn.cls.lookup(f.attr)
    return None


def self_method_value(fn, e):
    """The same-class method named by the bare value `self.m` (a method passed on, e.g. to eventually())."""
    if fn.cls is not None and isinstance(e, ast.Attribute) and isinstance(e.value, ast.Name) and e.value.id == "self":
        return fn.cls.lookup(e.attr)
    return None


class ActiveFetcher:
    """Inter-procedural typestate of DownloadNode._active_segment over one method and the same-class methods it calls
    (function summaries: state at entry -> set of states at the normal exit).

    state = (stopped, phase).  stopped: the active SegmentFetcher has been retired (stopped, or it finished by itself).
    phase 0: _active_segment may still be bound to it; 1: _active_segment was reset to None; 2: a method that installs
    the next fetcher (_start_new_segment) ran after the reset."""

    def __init__(self, idx, ci):
        self.idx = idx
        self.ci = ci
        self._syms = {}
        self._memo = {}
        self.states = 0
        self.starters = {m.qual for m in all_funcs_of(ci) if m.name != "__init__" and m.cfg().find(self.installs)}
        if not self.starters:
            raise AnchorVanished("no DownloadNode method installs a SegmentFetcher in _active_segment")

    @staticmethod
    def installs(n):
        return ACTIVE in node_stores(n) and not _is_none(assign_value(n, ACTIVE))

    def sym(self, fn):
        if fn.qual not in self._syms:
            self._syms[fn.qual] = Sym(self.idx, fn)
        return self._syms[fn.qual]

    def stop_calls(self, fn, n):
        """(call, receiver normal form) of the x.stop() calls at node n that are not calls of a same-class method."""
        out = []
        for c in node_calls(n):
            if call_tail(c) == "stop" and isinstance(c.func, ast.Attribute) and self_callee(fn, c) is None:
                out.append((c, nf(self.sym(fn).expand(n, c.func.value))))
        return out

    def step(self, fn, n, st, stack):
        cur = {st}

        def started(states):
            return {(s, 2 if p == 1 else p) for (s, p) in states}
        for c in node_calls(n):
            callee = self_callee(fn, c)
            if callee is not None and callee.qual in self.starters:
                cur = started(cur)
            elif callee is not None and callee.qual not in stack:
                nxt = set()
                for s_ in cur:
                    nxt |= self.outputs(callee, s_, stack)
                cur = nxt
            for a in list(c.args) + [k.value for k in c.keywords]:
                m = self_method_value(fn, a)
                if m is not None and m.qual in self.starters:
                    cur = started(cur)        # scheduled: eventually(self._start_new_segment)
        for (c, rv) in self.stop_calls(fn, n):
            if rv == ACTIVE:
                cur = {(True, p) for (_s, p) in cur}
        if ACTIVE in node_stores(n):
            ph = 1 if _is_none(assign_value(n, ACTIVE)) else 0
            cur = {(s, ph) for (s, _p) in cur}
        return cur

    def run(self, fn, st0, stack=()):
        """(visited product states, parent map) of fn started in st0; helpers are entered through their summaries."""
        cfg = fn.cfg()
        stack = tuple(stack) + (fn.qual,)
        s0 = (cfg.entry.id, st0)
        seen = {s0}
        parent = {s0: None}
        todo = [s0]
        cache = {}
        while todo:
            cur = todo.pop(0)
            nid, st = cur
            n = cfg.nodes[nid]
            for (d, lab) in cfg.succ[nid]:
                if n.kind in ("entry", "exit", "raise") or lab == "exc":
                    outs = {st}
                else:
                    if cur not in cache:
                        cache[cur] = self.step(fn, n, st, stack)
                    outs = cache[cur]
                for ns in outs:
                    nxt = (d, ns)
                    if nxt not in seen:
                        seen.add(nxt)
                        parent[nxt] = (cur, lab)
                        todo.append(nxt)
        self.states += len(seen)
        return seen, parent

    def outputs(self, fn, st, stack=()):
        key = (fn.qual, st)
        if key not in self._memo:
            seen, _p = self.run(fn, st, stack)
            ex = fn.cfg().exit.id
            self._memo[key] = {s for (nid, s) in seen if nid == ex}
        return self._memo[key]

    def may_stop(self, fn, n):
        """Executing node n of fn (including the same-class methods it calls) can stop the active fetcher."""
        if n.kind in ("entry", "exit", "raise"):
            return False
        return any(s for (s, _p) in self.step(fn, n, (False, 0), (fn.qual,)))

    def reached_methods(self, fn):
        """fn and the same-class methods it calls, transitively (the methods that install the next fetcher excluded)."""
        out, todo = {}, [fn]
        while todo:
            g = todo.pop()
            if g.qual in out:
                continue
            out[g.qual] = g
            for c in calls_in_func(g):
                h_ = self_callee(g, c)
                if h_ is not None and h_.qual not in self.starters:
                    todo.append(h_)
        return list(out.values())


def fresh_local(r, fn, ctor, what):
    """The constructor call of the per-read object in fn (exactly one) and its CFG node.  Whether the object that
    is *used* is the fresh one is decided by the caller through the reaching definition of the receiver."""
    call = the_call(fn, ctor)
    n = node_of(fn, call)
    for g in func_own_nodes(fn):
        if isinstance(g, (ast.Global, ast.Nonlocal)):
            r.violation(fn, fn.loc(g), "%s uses global state" % short(fn))
    return call, n


def recv_is(expanded, call):
    """The expanded receiver is (a copy of) the constructor call `call`."""
    return isinstance(expanded, ast.Call) and ast.dump(expanded.func) == ast.dump(call.func) and len(expanded.args) == len(call.args)


def run_isolation(ctx, r):
    idx = ctx.idx
    cg = get_callgraph(idx)
    rd = idx.func(NODE + ".read")
    rp = first_positional_params(rd)
    s = Sym(idx, rd)
    sc, sn = fresh_local(r, rd, "Segmentation", "Segmentation")
    r.site(rd, sc, "fresh Segmentation per read")
    # start() is called on that object
    st = the_call(rd, "start")
    recv = s.expand(node_of(rd, st), st.func.value)
    r.require(recv is not None and recv_is(recv, sc), rd, rd.loc(st),
              "the read is started on %s, not on a Segmentation built for this call: reads would share offset/size/consumer" % nf(recv))
    sinit = idx.func(SEG + ".__init__")
    b = bind_call_args(sinit, sc)
    sp = first_positional_params(sinit)
    r.require(nf(b.get(sp[0])) == "self" and nf(b.get(sp[1])) == rp[1] and nf(b.get(sp[3])) == rp[0]
              and isinstance(b.get(sp[2]), ast.Name) and b[sp[2]].id == rp[2], rd, rd.loc(sc),
              "Segmentation is built with %s, not (node, offset, size, consumer) of this read" % src(rd, sc))
    others = [cs for cs in cg.calls_named("Segmentation") if cs.fn.qual != rd.qual]
    for cs in others:
        r.violation(cs.fn, cs.loc, "%s builds a Segmentation outside DownloadNode.read" % short(cs.fn))
    # __init__ keeps its own offset/size/consumer
    si = Sym(idx, sinit, expand_attrs=False)
    for attr, pname in (("self._offset", sp[1]), ("self._size", sp[2]), ("self._consumer", sp[3]), ("self._node", sp[0])):
        stv = si.attr_stores().get(attr)
        r.require(stv is not None and nf(stv[1]) == pname, sinit, sinit.loc(stv[0].ast if stv else None),
                  "Segmentation.%s is not initialised from its own %s argument" % (attr.split(".")[1], pname))

    # fresh DecryptingConsumer
    ird = idx.func("immutable.filenode:ImmutableFileNode.read")
    dc, dn = fresh_local(r, ird, "DecryptingConsumer", "DecryptingConsumer")
    r.site(ird, dc, "fresh DecryptingConsumer per read")
    for cs in cg.calls_named("DecryptingConsumer"):
        if cs.fn.qual != ird.qual:
            r.violation(cs.fn, cs.loc, "%s builds a DecryptingConsumer outside ImmutableFileNode.read" % short(cs.fn))

    # per-read classes: no class-level mutable state; stores only to self.*; node touched only via get_segment
    for clsq, node_names in ((SEG, {"self._node"}), (DECR, set())):
        ci = idx.cls(clsq)
        r.site(ci.module.relpath + " class " + ci.name, None, "stores only to self.*")
        for name, vals in ci.attrs.items():
            for v in vals:
                if isinstance(v, (ast.List, ast.Dict, ast.Set, ast.ListComp, ast.DictComp, ast.SetComp, ast.Call)):
                    r.violation(ci.qual, "%s:%s" % (ci.module.relpath, getattr(v, "lineno", 0)),
                                "class attribute %s.%s = %s is shared by all reads" % (ci.name, name, ast.unparse(v)[:60]))
        for f in all_funcs_of(ci):
            fs = Sym(idx, f)
            for g in func_own_nodes(f):
                if isinstance(g, (ast.Global, ast.Nonlocal)):
                    r.violation(f, f.loc(g), "%s uses global/nonlocal state" % short(f))
            for n in f.cfg().nodes:
                for p in node_stores(n):
                    sub = p.endswith("[]")
                    base = p[:-2] if sub else p
                    if "." not in base and not sub:
                        continue    # plain local
                    # the object written into: owner of the attribute, or the container of the subscript
                    owner = base if sub else ".".join(base.split(".")[:-1])
                    tgt = nf(fs.expand(n, parse_expr(owner)))
                    if tgt == "self" or (sub and (tgt.startswith("self.") and tgt.count(".") == 1 and tgt not in node_names)) \
                            or (sub and "." not in tgt and not tgt.startswith("self") and tgt not in first_positional_params(f)):
                        continue
                    r.violation(f, f.loc(n.ast), "%s stores to %s (object %s): state outside this read is modified" % (short(f), p, tgt))
                r.count(1)
                for c in node_calls(n, into_lambda=True):
                    if isinstance(c.func, ast.Attribute):
                        rv = nf(fs.expand(n, c.func.value))
                        if rv in node_names or rv in ("node",):
                            r.require(c.func.attr in ("get_segment",), f, f.loc(c), "%s calls %s.%s: a read may touch the shared "
                                      "download node only through get_segment" % (short(f), rv, c.func.attr))
    # who-may-write on DownloadNode attributes from segmentation.py / filenode consumers = empty (covered above);
    # each get_segment makes its own Deferred and Cancel
    gs = idx.func(NODE + ".get_segment")
    gss = Sym(idx, gs)
    ap = the_call(gs, "append", lambda c: attr_path(c.func.value) == "self._segment_requests")
    r.site(gs, ap, "own Deferred and Cancel per request")
    tup = ap.args[0] if ap.args else None
    ok = isinstance(tup, ast.Tuple) and len(tup.elts) >= 3
    kinds = [nf(gss.expand(node_of(gs, ap), e)) for e in tup.elts] if ok else []
    gp = first_positional_params(gs)
    r.require(ok and kinds[0] == gp[0] and kinds[1] == "defer.Deferred()" and kinds[2] == "Cancel(self._cancel_request)",
              gs, gs.loc(ap), "the queued request is %s, not (segnum, fresh Deferred, fresh Cancel(self._cancel_request), ..)" % kinds[:3])
    rets = gs.cfg().find(is_return)
    for n in rets:
        v = n.ast.value
        okr = isinstance(v, ast.Tuple) and len(v.elts) == 2 and ok and all(isinstance(x, ast.Name) for x in v.elts) and \
            [x.id for x in v.elts] == [e.id if isinstance(e, ast.Name) else None for e in tup.elts[1:3]]
        r.require(okr, gs, gs.loc(n.ast), "get_segment returns %s, not the (Deferred, Cancel) it queued" % src(gs, v))
    for f in all_funcs_of(idx.cls(NODE)):
        if f.qual.split(":")[1] not in ("DownloadNode.get_segment",):
            for c in calls_in_func(f, "append"):
                if attr_path(c.func.value) == "self._segment_requests":
                    r.violation(f, f.loc(c), "%s queues a segment request outside get_segment" % short(f))


def run_cancel(ctx, r):
    idx = ctx.idx
    gs = idx.func(NODE + ".get_segment")
    ap = the_call(gs, "append", lambda c: attr_path(c.func.value) == "self._segment_requests")
    tup = ap.args[0]
    gss = Sym(idx, gs)
    kinds = [nf(gss.expand(node_of(gs, ap), e)) for e in tup.elts]
    ci_pos = [i for i, k in enumerate(kinds) if k.startswith("Cancel(")]
    seg_pos = [i for i, k in enumerate(kinds) if k == first_positional_params(gs)[0]]
    if len(ci_pos) != 1 or len(seg_pos) != 1:
        raise AnchorVanished("get_segment: request tuple shape changed: %s" % kinds)
    CI, SI = ci_pos[0], seg_pos[0]
    width = len(tup.elts)

    def comp_filter(fn, comp, what):
        """(element index tested, op, other side nf, elt is whole tuple?) of a one-generator, one-condition comprehension
        over self._segment_requests."""
        if not (isinstance(comp, ast.ListComp) and len(comp.generators) == 1):
            return None
        g = comp.generators[0]
        if attr_path(g.iter) != "self._segment_requests":
            return None
        names = {}
        if isinstance(g.target, ast.Tuple):
            if len(g.target.elts) != width:
                return None
            for i, e in enumerate(g.target.elts):
                if isinstance(e, ast.Name):
                    names[e.id] = i
            whole = None
        elif isinstance(g.target, ast.Name):
            whole = g.target.id
        else:
            return None

        def index_of(e):
            if isinstance(e, ast.Name) and e.id in names:
                return names[e.id]
            if isinstance(e, ast.Subscript) and isinstance(e.value, ast.Name) and e.value.id == whole \
                    and isinstance(e.slice, ast.Constant):
                return e.slice.value
            return None
        cond = None
        if len(g.ifs) == 1:
            t = g.ifs[0]
            pol = True
            while isinstance(t, ast.UnaryOp) and isinstance(t.op, ast.Not):
                t, pol = t.operand, not pol
            if isinstance(t, ast.Compare) and len(t.ops) == 1:
                op = {ast.Eq: "==", ast.NotEq: "!=", ast.Is: "==", ast.IsNot: "!="}.get(type(t.ops[0]))
                if op and not pol:
                    op = "!=" if op == "==" else "=="
                for a, b_ in ((t.left, t.comparators[0]), (t.comparators[0], t.left)):
                    if index_of(a) is not None and op:
                        cond = (index_of(a), op, nf(b_))
        elif len(g.ifs) == 0:
            cond = (None, None, None)
        return cond, index_of(comp.elt) if not (isinstance(comp.elt, ast.Name) and comp.elt.id == whole) else "whole", comp

    # ---- _cancel_request
    cr = idx.func(NODE + "._cancel_request")
    cp = first_positional_params(cr)
    crs = Sym(idx, cr)
    cfg = cr.cfg()
    st_nodes = [n for n in cfg.nodes if "self._segment_requests" in node_stores(n)]
    if len(st_nodes) != 1:
        raise AnchorVanished("_cancel_request: expected one store to self._segment_requests")
    fnode = st_nodes[0]
    r.site(cr, fnode.ast, "removes only the cancelling request")
    cf = comp_filter(cr, assign_value(fnode, "self._segment_requests"), "filter")
    r.require(cf is not None and cf[0] == (CI, "!=", cp[0]) and cf[1] == "whole", cr, cr.loc(fnode.ast),
              "cancel keeps %s: it must keep exactly the requests whose Cancel handle (tuple index %d) is not the "
              "cancelling one" % (src(cr, fnode.ast.value), CI))
    # the statements of _cancel_request that can stop the active fetcher, directly or through a same-class helper
    eff = ActiveFetcher(idx, idx.cls(NODE))
    stops = [n for n in cfg.nodes if eff.may_stop(cr, n)]
    if not stops:
        raise AnchorVanished("_cancel_request no longer stops the active fetcher")
    stop_ids = {n.id for n in stops}
    fnorm = FlowNorm(cr)
    r.site(cr, stops[0].ast, "stop only when the active segment is unwanted")
    segvars = {}
    for n in cfg.nodes:
        if n.kind == "stmt" and isinstance(n.ast, ast.Assign) and len(n.ast.targets) == 1 and isinstance(n.ast.targets[0], ast.Name):
            c2 = comp_filter(cr, n.ast.value, "segnums")
            if c2 is not None and c2[0] == (None, None, None) and c2[1] == SI:
                segvars[n.ast.targets[0].id] = n

    def unwanted(n, lab):
        f = fnorm.edge_fact(n, lab)
        return bool(f) and f[0] == "not in" and f[1] == "self._active_segment.segnum" and f[2] in segvars
    for (n, w) in find_path_avoiding(cfg, lambda q: q.id in stop_ids, gate_edge=unwanted,
                                     kill=lambda q: "self._segment_requests" in node_stores(q) and q is not fnode):
        r.violation(cr, cr.loc(n.ast), "cancelling one read stops the active fetcher although another request may still want "
                    "its segment (path: %s)" % w.brief(), w)
    # nothing but the active fetcher is stopped, in _cancel_request or in the same-class methods it calls
    for g in eff.reached_methods(cr):
        for n in g.cfg().nodes:
            for (c, rv) in eff.stop_calls(g, n):
                r.require(rv == ACTIVE, g, g.loc(c), "cancelling one read stops %s%s" % (
                    rv, "" if g is cr else " (in %s, called from _cancel_request)" % short(g)))
    for f in all_funcs_of(idx.cls(NODE)):
        nm = f.qual.split(":")[1]
        for n in f.cfg().nodes:
            if "self._segment_requests" in node_stores(n) and nm not in (
                    "DownloadNode.__init__", "DownloadNode._cancel_request", "DownloadNode._extract_requests"):
                r.violation(f, f.loc(n.ast), "%s rewrites the shared request queue" % nm)

    # ---- _extract_requests partitions by segment number
    er = idx.func(NODE + "._extract_requests")
    ep = first_positional_params(er)
    keep = [n for n in er.cfg().nodes if "self._segment_requests" in node_stores(n)]
    rets = er.cfg().find(is_return)
    if len(keep) != 1 or len(rets) != 1:
        raise AnchorVanished("_extract_requests shape changed")
    r.site(er, keep[0].ast, "partition by segment number")
    kf = comp_filter(er, assign_value(keep[0], "self._segment_requests"), "keep")
    r.require(kf is not None and kf[0] == (SI, "!=", ep[0]) and kf[1] == "whole", er, er.loc(keep[0].ast),
              "requests kept after delivery: %s (must be exactly those for other segments)" % src(er, keep[0].ast.value))
    ers = Sym(idx, er)
    rv = rets[0].ast.value
    if isinstance(rv, ast.Name):
        d_ = ers.rd.get(rets[0].id, {}).get(rv.id, frozenset())
        rv = ers.fnorm._def_value(er.cfg().nodes[next(iter(d_))], rv.id) if len(d_) == 1 else rv
        r.require(len(d_) == 1 and not dominated_by(er.cfg(), keep[0], er.cfg().nodes[next(iter(d_))]), er, er.loc(rets[0].ast),
                  "the retired requests are computed after the queue was already filtered")
    rf = comp_filter(er, rv, "retire")
    r.require(rf is not None and rf[0] == (SI, "==", ep[0]), er, er.loc(rets[0].ast),
              "requests retired for segment %s: %s" % (ep[0], src(er, rv)))
    if rf is not None and isinstance(rf[2].elt, ast.Tuple):
        g = rf[2].generators[0]
        pos = {e.id: i for i, e in enumerate(g.target.elts) if isinstance(e, ast.Name)} if isinstance(g.target, ast.Tuple) else {}
        got = [pos.get(e.id) if isinstance(e, ast.Name) else None for e in rf[2].elt.elts]
        r.require(got[:2] == [1, CI], er, er.loc(rets[0].ast), "retired entries are not (Deferred, Cancel, ..) of the request: %s" % got)

    # ---- Cancel.cancel / _deliver are one-shot
    cc = idx.func("immutable.downloader.node:Cancel.cancel")
    r.site(cc, None, "one-shot cancel")
    fnc = FlowNorm(cc)

    def cleared(q):
        v = assign_value(q, "self.active")
        return isinstance(v, ast.Constant) and v.value is False

    def was_inactive(q, lab):
        f = fnc.edge_fact(q, lab)
        return bool(f) and f[0] == "false" and f[1] == "self.active"
    for (n, w) in find_path_avoiding(cc.cfg(), lambda q: q.kind == "exit", gate_node=cleared, gate_edge=was_inactive):
        r.violation(cc, cc.loc(), "after cancel() the handle can still be active: a segment that is already on its way "
                    "would be delivered to the cancelled read", w)
    fcalls = [c for c in calls_in_func(cc) if call_name(c) == "self._f"]
    r.require(bool(fcalls), cc, cc.loc(), "cancel() no longer tells the node")
    for c in fcalls:
        r.require(len(c.args) == 1 and nf(c.args[0]) == "self", cc, cc.loc(c), "cancel passes %s, not itself" % src(cc, c))
    dl = idx.func(NODE + "._deliver")
    dp = first_positional_params(dl)
    r.site(dl, None, "deliver only to uncancelled requests")
    for (n, w) in gated_by_truth(dl, has_call("callback"), dp[1] + ".active"):
        r.violation(dl, dl.loc(n.ast), "a segment is delivered to a request that was cancelled", w)
    for n in dl.cfg().find(has_call("callback")):
        c = calls_at(n, "callback")[0]
        r.require(nf(c.func.value) == dp[0] and len(c.args) == 1 and nf(c.args[0]) == dp[2], dl, dl.loc(c),
                  "_deliver fires %s" % src(dl, c))
    # ---- Segmentation keeps and cancels only its own handle
    fn_ = idx.func(SEG + "._fetch_next")
    fs = Sym(idx, fn_)
    gcall = the_call(fn_, "get_segment")
    stc = [n for n in fn_.cfg().nodes if "self._cancel_segment_request" in node_stores(n)]
    r.site(fn_, gcall, "own cancel handle")
    okh = len(stc) == 1 and nf(fs.expand(stc[0], assign_value(stc[0], "self._cancel_segment_request"))) == \
        nf(fs.expand(node_of(fn_, gcall), gcall)) + "[1]"
    r.require(okh, fn_, fn_.loc(gcall), "the handle kept for cancelling is not the one returned by this get_segment call")
    sp_ = idx.func(SEG + ".stopProducing")
    for f in all_funcs_of(idx.cls(SEG)):
        for c in calls_in_func(f, "cancel", into_lambda=True):
            r.require(f is sp_ and nf(c.func.value) == "self._cancel_segment_request", f, f.loc(c),
                      "%s cancels %s" % (short(f), nf(c.func.value)))
    r.require(bool(calls_in_func(sp_, "cancel")), sp_, sp_.loc(), "stopProducing no longer cancels the outstanding segment request")
    HANDLE = "self._cancel_segment_request"
    fsp = FlowNorm(sp_)

    def cancels_handle(q):
        return any(isinstance(c.func, ast.Attribute) and nf(c.func.value) == HANDLE for c in calls_at(q, "cancel"))

    def no_handle(q, lab):
        f = fsp.edge_fact(q, lab)
        return bool(f) and ((f[0] == "false" and f[1] == HANDLE) or (f[0] in ("is", "==") and {f[1], f[2]} == {"None", HANDLE}))
    r.site(sp_, None, "the outstanding request is cancelled whenever there is one")
    for (n, w) in find_path_avoiding(sp_.cfg(), lambda q: q.kind == "exit", gate_node=cancels_handle, gate_edge=no_handle,
                                     skip_exc_edges=True):
        r.violation(sp_, sp_.loc(), "stopProducing can finish without cancelling the segment request it has outstanding (%s is "
                    "set on this path): the node goes on fetching for, and delivers to, a read that was stopped (path: %s)"
                    % (HANDLE, w.brief()), w)


def seg_fetcher(idx):
    """(Segmentation class, its functions, the one method F that calls get_segment, that call, its CFG node,
    {qual: method} of the methods from which the get_segment call is reachable inside the class)."""
    ci = idx.cls(SEG)
    funcs = all_funcs_of(ci)
    fetchers = [f for f in funcs if calls_in_func(f, "get_segment", into_lambda=True)]
    if len(fetchers) != 1:
        raise AnchorVanished("Segmentation: expected one method that calls get_segment, found %d" % len(fetchers))
    F = fetchers[0]
    gc = the_call(F, "get_segment")
    gn = node_of(F, gc)
    reach = {F.qual: F}
    grew = True
    while grew:
        grew = False
        for g in funcs:
            if g.qual in reach:
                continue
            for x in func_own_nodes(g, into_lambda=True):
                m_ = self_method_value(g, x) if isinstance(x, ast.Attribute) else None
                if m_ is not None and m_.qual in reach:
                    reach[g.qual] = g
                    grew = True
                    break
    return ci, funcs, F, gc, gn, reach


def run_outstanding(ctx, r):
    """At most one segment request of a read is outstanding at any time (C04.7)."""
    idx = ctx.idx
    ci, funcs, F, gc, gn, reach = seg_fetcher(idx)
    fs = Sym(idx, F)
    fcfg = F.cfg()
    handle = nf(fs.expand(gn, gc)) + "[1]"
    r.site(F, gc, "one outstanding segment request per read")

    # -- the record(s) of the outstanding request: self attributes that _fetch_next sets to a non-constant value.
    #    'handle' is the Cancel object returned by get_segment (always truthy); anything else ('value', the segment
    #    number) has the legitimate falsy value 0, so only a comparison with None tells 'nothing outstanding'.
    kinds = {}
    for n in fcfg.nodes:
        for p in node_stores(n):
            if not p.startswith("self.") or p.endswith("[]") or p.count(".") != 1:
                continue
            v = assign_value(n, p)
            if v is None:
                continue
            ev = fs.expand(n, v)
            if isinstance(ev, ast.Constant):
                continue
            kinds[p] = "handle" if nf(ev) == handle else "value"
    if not kinds:
        raise AnchorVanished("%s keeps no record of the outstanding segment request" % short(F))
    cancel_cls = idx.cls("immutable.downloader.node:Cancel")
    handle_truthy = cancel_cls.lookup("__bool__") is None and cancel_cls.lookup("__len__") is None

    def is_reset(n, m):
        return m in node_stores(n) and _is_none(assign_value(n, m))

    def is_set(n, m):
        return m in node_stores(n) and not _is_none(assign_value(n, m))

    def resets_any(n):
        return any(is_reset(n, m) for m in kinds)
    used = set()
    weak = {}
    fnorms = {}

    def gate_of(fn):
        if fn.qual not in fnorms:
            fnorms[fn.qual] = FlowNorm(fn)
        fnorm = fnorms[fn.qual]

        def g(n, lab):
            f = fnorm.edge_fact(n, lab)
            if not f:
                return False
            for m, k in kinds.items():
                if f[0] in ("is", "==") and {f[1], f[2]} == {"None", m}:
                    used.add(m)
                    return True
                if f[0] == "false" and f[1] == m:
                    if k == "handle" and handle_truthy:
                        used.add(m)
                        return True
                    weak.setdefault(fn.qual, (fn, n, m))
            return False
        return g

    # -- the Deferred of the request and the callbacks registered on it: they run when the request has been retired
    dname = None
    if isinstance(gn.ast, ast.Assign) and len(gn.ast.targets) == 1 and isinstance(gn.ast.targets[0], (ast.Tuple, ast.List)) \
            and gn.ast.value is gc and gn.ast.targets[0].elts and isinstance(gn.ast.targets[0].elts[0], ast.Name):
        dname = gn.ast.targets[0].elts[0].id
    if dname is None:
        raise AnchorVanished("%s: cannot identify the Deferred returned by get_segment" % short(F))
    regs = registrations(F, dname)
    if not regs:
        raise AnchorVanished("%s registers no callback on the segment Deferred" % short(F))
    reg_nodes = set()
    for reg in regs:
        for t in (reg.target, reg.errtarget):
            if t is not None:
                reg_nodes |= {id(x) for x in ast.walk(t)}

    def refs_to(target):
        """[(g, cfg nodes of g)] where the method `target` is called or passed on as a value; the callbacks on the
        segment Deferred are left out (they are decided by the retire rule below)."""
        out = []
        for g in funcs:
            ns = []
            for n in g.cfg().nodes:
                hit = False
                for e in node_exprs(n):
                    for x in own_nodes(e, into_lambda=True):
                        if id(x) in reg_nodes:
                            continue
                        if target.parent is None:
                            hit = hit or (self_method_value(g, x) is target and isinstance(x.ctx, ast.Load))
                        else:
                            hit = hit or (isinstance(x, ast.Name) and x.id == target.name and isinstance(x.ctx, ast.Load)
                                          and (g is target.parent or g.parent is target.parent))
                if hit:
                    ns.append(n)
            if ns:
                out.append((g, ns))
        return out

    # -- (a) every route from a method the consumer may call at any time to get_segment passes `record is None`.
    #    start() is exempt: it runs once on the fresh object (C04.1), whose records __init__ sets to None.
    rd = idx.func(NODE + ".read")
    start_fn = ci.lookup(the_call(rd, "start").func.attr)
    if start_fn is None:
        raise AnchorVanished("DownloadNode.read starts the Segmentation with an unknown method")
    bad_routes = []

    def routes(fn, targets, chain, seen):
        ws = find_path_avoiding(fn.cfg(), lambda q: q.id in targets, gate_node=resets_any, gate_edge=gate_of(fn))
        r.count(len(fn.cfg().nodes))
        if not ws or fn is start_fn:
            return
        if not fn.name.startswith("_"):
            bad_routes.append((fn, chain, ws[0][1]))
        for g, ns in refs_to(fn):
            if g.qual not in seen:
                routes(g, {n.id for n in ns}, [g] + chain, seen | {g.qual})
    routes(F, {gn.id}, [F], {F.qual})
    entries = [g for g in funcs if not g.name.startswith("_") and g is not start_fn and g.qual in reach]
    for g in entries:
        r.site(g, None, "reaches get_segment only when no request is outstanding")
    reported = set()
    for (entry, chain, w) in bad_routes:
        how = " -> ".join(f.name for f in chain) + " -> get_segment"
        culprit = next((weak[f.qual] for f in chain if f.qual in weak), None)
        if culprit is not None:
            cf, cn, cm = culprit
            key, where, loc = cf.qual, cf, cf.loc(cn.ast)
            msg = ("%s tests the record of the outstanding segment request (%s) by truthiness, but it holds a segment "
                   "number and segment 0 is falsy: while segment 0 is being fetched %s() issues a second request for the "
                   "same read (%s), whose delivery no longer matches the advanced offset" % (short(cf), cm, entry.name, how))
        else:
            key, where, loc = entry.qual, entry, entry.loc()
            msg = ("%s() can ask the node for a segment (%s) without having seen that no request of this read is outstanding "
                   "(%s is None): a pause/resume while a segment is being fetched issues a duplicate request and the read "
                   "fails or delivers the wrong bytes" % (entry.name, how, " / ".join(sorted(kinds))))
        if key not in reported:
            reported.add(key)
            r.violation(where, loc, msg, w)
    init = ci.lookup("__init__")
    for m in sorted(used):
        r.require(init is not None and not find_path_avoiding(init.cfg(), lambda q: q.kind == "exit",
                                                              gate_node=lambda q, _m=m: is_reset(q, _m)),
                  init or F, (init or F).loc(), "a fresh Segmentation does not start with %s = None" % m)

    # -- (b) _fetch_next records the request it makes
    r.site(F, gc, "the request is recorded")
    for m in sorted(used):
        def transfer(n, lab, nxt, st, _m=m):
            if lab == "exc" or n.kind in ("entry", "exit", "raise"):
                return st
            called, isset = st
            if n is gn:
                called = True
            if is_reset(n, _m):
                isset = False
            elif is_set(n, _m):
                isset = True
            return (called, isset)
        visited, parent = explore(fcfg, (False, False), transfer)
        r.count(len(visited))
        key = (fcfg.exit.id, (True, False))
        if key in visited:
            w = witness(fcfg, parent, key)
            r.violation(F, F.loc(gc), "%s asks the node for a segment but can return with %s unset: the next resumeProducing() "
                        "or retry issues a second request while this one is outstanding (path: %s)" % (short(F), m, w.brief()), w)

    # -- (c) the request is retired (record reset to None) on both outcomes before a callback continues the read
    def must_reset(g, m):
        return not find_path_avoiding(g.cfg(), lambda q: q.kind == "exit", gate_node=lambda q: is_reset(q, m))

    def resets_before_continuing(g, m):
        ns = {n.id for n in g.cfg().nodes for e in node_exprs(n) for x in own_nodes(e, into_lambda=True)
              if isinstance(x, ast.Attribute) and self_method_value(g, x) is not None and self_method_value(g, x).qual in reach}
        return not find_path_avoiding(g.cfg(), lambda q: q.id in ns, gate_node=lambda q: is_reset(q, m))
    flat = []
    for reg in regs:
        if reg.kind == "pair":
            flat.append(({"cb"}, reg.target, reg))
            if reg.errtarget is not None:
                flat.append(({"eb"}, reg.errtarget, reg))
        else:
            flat.append(({"cb": {"cb"}, "eb": {"eb"}, "both": {"cb", "eb"}}[reg.kind], reg.target, reg))
    cleared = {m: set() for m in used}
    retire_fns = set()
    continuing = 0
    for (ch, t, reg) in flat:
        g = self_method_value(F, t)
        if g is None:
            continue
        retire_fns.add(g.qual)
        if g.qual in reach:
            continuing += 1
            for m in sorted(used):
                missing = sorted(c for c in ch if c not in cleared[m])
                if missing and not resets_before_continuing(g, m):
                    r.violation(F, F.loc(reg.call), "%s continues the read on the %s path of the segment Deferred while %s still "
                                "marks the finished request as outstanding: the guard of the next fetch never passes and the read "
                                "stalls" % (short(g), "/".join("success" if c == "cb" else "failure" for c in missing), m))
        for m in used:
            if must_reset(g, m):
                cleared[m] |= ch
    if not continuing:
        raise AnchorVanished("%s: no callback on the segment Deferred continues the read" % short(F))
    r.site(F, regs[0].call, "retired before the read continues")

    # -- (d) the record is forgotten only when the request was retired (callbacks above) or cancelled first
    r.site(ci.module.relpath + " class " + ci.name, None, "who may forget the outstanding request")

    def cancels(q):
        return any(call_tail(c) == "cancel" for c in node_calls(q))
    for m in sorted(used):
        for g in funcs:
            if g.qual in retire_fns or g is init:
                continue
            for n in g.cfg().nodes:
                if is_reset(n, m) and find_path_avoiding(g.cfg(), lambda q, _n=n: q is _n, gate_node=cancels):
                    r.violation(g, g.loc(n.ast), "%s forgets the outstanding segment request (%s = None) although it was neither "
                                "retired nor cancelled: the next resumeProducing() issues a duplicate request for the same read"
                                % (short(g), m))


def run_restart(ctx, r):
    """Whoever retires the active fetcher of the shared node starts the next queued request (C04.8)."""
    idx = ctx.idx
    ci = idx.cls(NODE)
    eff = ActiveFetcher(idx, ci)
    cr = idx.func(NODE + "._cancel_request")
    todo = [(cr, False, "cancelling a read")]
    for f in all_funcs_of(ci):
        if f is not cr and calls_in_func(f, "_extract_requests") and f.name != "_extract_requests":
            todo.append((f, True, "delivering a segment (or its failure)"))
    for (fn, stopped0, what) in todo:
        cfg = fn.cfg()
        seen, parent = eff.run(fn, (stopped0, 0))
        r.count(len(seen))
        if not any(st[0] for (_n, st) in seen):
            raise AnchorVanished("%s no longer stops the active fetcher" % short(fn))
        r.site(fn, None, "restart after retiring the active fetcher")
        k0, k1 = (cfg.exit.id, (True, 0)), (cfg.exit.id, (True, 1))
        if k0 in seen:
            w = witness(cfg, parent, k0)
            r.violation(fn, fn.loc(), "%s: %s can finish with _active_segment still bound to the retired SegmentFetcher: "
                        "_start_new_segment() is then a no-op and the segment requests of the other reads on this node are "
                        "never served (path: %s)" % (short(fn), what, w.brief()), w)
        if k1 in seen:
            w = witness(cfg, parent, k1)
            r.violation(fn, fn.loc(), "%s: %s retires the active fetcher but can finish without _start_new_segment(): the "
                        "requests other reads have queued for other segments are never started, so those reads never "
                        "complete (path: %s)" % (short(fn), what, w.brief()), w)


# ------------------------------------------------------------------ Deferred results and callback chains
REGK = {"addCallback": "cb", "addErrback": "eb", "addBoth": "both", "addCallbacks": "pair"}


def callback_func(fn, t):
    """What a callback expression of fn names: the lambda itself, a nested function of fn (or of an enclosing
    function), or a same-class method; None when it is something else."""
    if isinstance(t, ast.Lambda):
        return t
    if isinstance(t, ast.Name):
        f = fn
        while f is not None:
            if t.id in f.nested:
                return f.nested[t.id]
            f = f.parent
        return None
    return self_method_value(fn, t)


def callback_returns(fn, t):
    """(parameter names, [normal form of the value returned on each normal way out]) of a callback; 'None' stands
    for falling off the end.  (None, []) when the callback cannot be resolved."""
    g = callback_func(fn, t)
    if g is None:
        return None, []
    if isinstance(g, ast.Lambda):
        return [a.arg for a in g.args.args], [nf(g.body)]
    cfg = g.cfg()
    out = []
    for (pid, lab) in cfg.pred[cfg.exit.id]:
        pn = cfg.nodes[pid]
        if is_return(pn) and pn.ast.value is not None:
            out.append(nf(pn.ast.value))
        else:
            out.append("None")
    return first_positional_params(g), out


def falls_off_end(fn):
    """fn can finish without a return statement (and so returns None)."""
    cfg = fn.cfg()
    return any(lab != "exc" and not is_return(cfg.nodes[pid]) and cfg.nodes[pid].kind != "entry"
               for (pid, lab) in cfg.pred[cfg.exit.id]) or not cfg.find(is_return)


def passes_through(fn, t):
    ps, rets = callback_returns(fn, t)
    return bool(ps) and bool(rets) and all(x == ps[0] for x in rets)


def unchain(e):
    """x.addCallback(a).addErrback(b) -> (x, [call_a, call_b])."""
    chain = []
    while isinstance(e, ast.Call) and isinstance(e.func, ast.Attribute) and e.func.attr in REGK:
        chain.append(e)
        e = e.func.value
    chain.reverse()
    return e, chain


def flat_regs(regs):
    """[(position, {'cb','eb'}, callable ast, registration call)] - addCallbacks contributes two entries."""
    out = []
    for i, (kind, tgt, err, call) in enumerate(regs):
        if kind == "pair":
            out.append((i, {"cb"}, tgt, call))
            if err is not None:
                out.append((i, {"eb"}, err, call))
        else:
            out.append((i, {"cb": {"cb"}, "eb": {"eb"}, "both": {"cb", "eb"}}[kind], tgt, call))
    return out


def returned_deferred(sym, rn):
    """(origin, success value) of the Deferred returned at the return node rn of sym.fn.  origin: the expanded
    expression the Deferred comes from, callbacks stripped.  success value: normal form of what the Deferred finally
    fires with - 'ORIGIN' when every success callback registered on it in this function hands its argument on, the
    normal form of the returned expression when the last value-changing callback returns one thing, else '?'."""
    fn = sym.fn
    base, chain = unchain(rn.ast.value)
    regs = []
    if isinstance(base, ast.Name):
        regs = [(x.kind, x.target, x.errtarget, x.call) for x in registrations(fn, base.id)]
        origin, chain0 = unchain(sym.expand(rn, base))
        # a chain assigned to the name (d = f().addCallback(..)) is already part of registrations()
    else:
        for c in chain:
            if c.args:
                kind = REGK[c.func.attr]
                regs.append((kind, c.args[0], c.args[1] if kind == "pair" and len(c.args) > 1 else None, c))
        origin = sym.expand(rn, base)
    value = "ORIGIN"
    for (_i, ch, t, _c) in flat_regs(regs):
        if "cb" not in ch or passes_through(fn, t):
            continue
        _ps, rets = callback_returns(fn, t)
        value = rets[0] if rets and all(x == rets[0] for x in rets) else "?"
    return origin, value


def segment_deferred(F, gn, gc):
    """Name of the local that holds the Deferred returned by the get_segment call of F."""
    if isinstance(gn.ast, ast.Assign) and len(gn.ast.targets) == 1 and isinstance(gn.ast.targets[0], (ast.Tuple, ast.List)) \
            and gn.ast.value is gc and gn.ast.targets[0].elts and isinstance(gn.ast.targets[0].elts[0], ast.Name):
        return gn.ast.targets[0].elts[0].id
    raise AnchorVanished("%s: cannot identify the Deferred returned by get_segment" % short(F))


def reach_refs(g, n, reach):
    """(called, passed): node n of g calls a same-class method from which get_segment is reachable / hands such a
    method on as a value (eventually(self.m), addCallback(self.m))."""
    called = passed = False
    funcs_called = set()
    for c in node_calls(n, into_lambda=True):
        m = self_callee(g, c)
        if m is not None and m.qual in reach:
            called = True
            funcs_called.add(id(c.func))
    for e in node_exprs(n):
        for x in own_nodes(e, into_lambda=True):
            if isinstance(x, ast.Attribute) and id(x) not in funcs_called and isinstance(x.ctx, ast.Load):
                m = self_method_value(g, x)
                if m is not None and m.qual in reach:
                    passed = True
    return called, passed


def run_result(ctx, r):
    """Every read() hands back a Deferred that fires with the caller's consumer (C04.9)."""
    idx = ctx.idx
    # -- DownloadNode.read: succeed(consumer) for the empty read, else the Deferred of the fresh Segmentation
    rd = idx.func(NODE + ".read")
    rp = first_positional_params(rd)
    s = Sym(idx, rd)
    sc = the_call(rd, "Segmentation")
    stc = the_call(rd, "start")
    r.site(rd, None, "read returns a Deferred that fires with the consumer")
    rets = rd.cfg().find(is_return)
    r.require(not falls_off_end(rd), rd, rd.loc(), "DownloadNode.read can finish without returning the Deferred of the read")
    for n in rets:
        if n.ast.value is None or _is_none(n.ast.value):
            r.violation(rd, rd.loc(n.ast), "DownloadNode.read returns None instead of a Deferred: the caller of this read "
                        "cannot wait for (or use) its result")
            continue
        origin, value = returned_deferred(s, n)
        if isinstance(origin, ast.Call) and call_tail(origin) == "succeed":
            got = nf(origin.args[0]) if (value == "ORIGIN" and len(origin.args) == 1) else value
            r.require(got == rp[0], rd, rd.loc(n.ast), "an empty read completes with %s, not with the consumer" % got)
        elif isinstance(origin, ast.Call) and isinstance(origin.func, ast.Attribute) and origin.func.attr == stc.func.attr \
                and recv_is(origin.func.value, sc):
            r.require(value in ("ORIGIN", rp[0]), rd, rd.loc(n.ast), "the read's Deferred is made to fire with %s instead of "
                      "the consumer handed on by Segmentation" % value)
        else:
            r.violation(rd, rd.loc(n.ast), "DownloadNode.read returns %s: neither succeed(consumer) nor the Deferred of the "
                        "Segmentation started for this read" % nf(origin))
    # -- Segmentation.start returns the Deferred that _fetch_next fires with the consumer
    ci, funcs, F, gc, gn, reach = seg_fetcher(idx)
    start_fn = ci.lookup(stc.func.attr)
    if start_fn is None:
        raise AnchorVanished("DownloadNode.read starts the Segmentation with an unknown method")
    done = [c for c in calls_in_func(F, "callback") if isinstance(c.func, ast.Attribute)]
    if not done:
        raise AnchorVanished("%s never completes the read" % short(F))
    r.site(start_fn, None, "the Deferred of the read fires with the consumer")
    dattrs = {nf(c.func.value) for c in done}
    for c in done:
        r.require(len(c.args) == 1 and nf(c.args[0]) == "self._consumer", F, F.loc(c),
                  "the finished read fires its Deferred with %s, not with its consumer" % src(F, c))
    ss = Sym(idx, start_fn)
    srets = start_fn.cfg().find(is_return)
    r.require(not falls_off_end(start_fn), start_fn, start_fn.loc(), "Segmentation.%s can finish without returning the Deferred "
              "of the read" % start_fn.name)
    for n in srets:
        if n.ast.value is None:
            r.violation(start_fn, start_fn.loc(n.ast), "Segmentation.%s returns None, not the Deferred of the read" % start_fn.name)
            continue
        base, _ch = unchain(n.ast.value)
        r.require(nf(base) in dattrs, start_fn, start_fn.loc(n.ast), "Segmentation.%s returns %s, but the read is completed "
                  "through %s" % (start_fn.name, nf(base), " / ".join(sorted(dattrs))))
    for da in sorted(dattrs):
        for reg in registrations(start_fn, da):
            for (_i, ch, t, call) in flat_regs([(reg.kind, reg.target, reg.errtarget, reg.call)]):
                if "cb" in ch:
                    r.require(passes_through(start_fn, t), start_fn, start_fn.loc(call), "%s replaces the result of the read "
                              "(the consumer)" % src(start_fn, t))

    # -- the wrappers
    def wrapper(fn, inner_tail, want_args, what):
        """fn returns the Deferred of <something>.<inner_tail>(..) called with want_args(expanded call) and finally
        firing with fn's consumer."""
        ps = first_positional_params(fn)
        sy = Sym(idx, fn)
        rs = fn.cfg().find(is_return)
        r.site(fn, None, what)
        r.require(not falls_off_end(fn), fn, fn.loc(), "%s can finish without returning the Deferred of the read" % short(fn))
        for n in rs:
            if n.ast.value is None or _is_none(n.ast.value):
                r.violation(fn, fn.loc(n.ast), "%s returns None instead of a Deferred" % short(fn))
                continue
            origin, value = returned_deferred(sy, n)
            if not (isinstance(origin, ast.Call) and call_tail(origin) == inner_tail):
                r.violation(fn, fn.loc(n.ast), "%s returns %s, not the Deferred of %s(..)" % (short(fn), nf(origin), inner_tail))
                continue
            want_args(fn, ps, n, origin, value)

    def cipher_args(fn, ps, n, origin, value):
        inner = idx.func("immutable.filenode:CiphertextFileNode.read")
        b = bind_call_args(inner, origin)
        ip = first_positional_params(inner)
        dc = the_call(fn, "DecryptingConsumer")
        r.require(b.get(ip[0]) is not None and recv_is(b[ip[0]], dc), fn, fn.loc(n.ast),
                  "the ciphertext is not read into the DecryptingConsumer built for this call")
        r.require(b.get(ip[1]) is not None and nf(b[ip[1]]) == ps[1] and b.get(ip[2]) is not None and nf(b[ip[2]]) == ps[2],
                  fn, fn.loc(n.ast), "the ciphertext range read is (%s, %s), not the (%s, %s) of this call" % (
                      nf(b[ip[1]]) if ip[1] in b else "default", nf(b[ip[2]]) if ip[2] in b else "default", ps[1], ps[2]))
        r.require(value == ps[0], fn, fn.loc(n.ast), "%s fires with %s, not with the caller's consumer" % (
            short(fn), "the DecryptingConsumer" if value == "ORIGIN" else value))

    def node_args(fn, ps, n, origin, value):
        r.require(nf(origin.func.value) == "self._node" and [nf(a) for a in origin.args] == ps[:3] and not origin.keywords,
                  fn, fn.loc(n.ast), "%s reads %s, not (consumer, offset, size) of this call" % (short(fn), nf(origin)))
        r.require(value == "ORIGIN", fn, fn.loc(n.ast), "%s replaces the result of the read by %s" % (short(fn), value))

    def literal_args(fn, ps, n, origin, value):
        r.require(value == ps[0], fn, fn.loc(n.ast), "%s fires with %s, not with the caller's consumer" % (
            short(fn), "the last byte sent" if value == "ORIGIN" else value))
    wrapper(idx.func("immutable.filenode:ImmutableFileNode.read"), "read", cipher_args, "fires with the caller's consumer")
    wrapper(idx.func("immutable.filenode:CiphertextFileNode.read"), "read", node_args, "hands the read to the download node")
    wrapper(idx.func("immutable.literal:LiteralFileNode.read"), "beginFileTransfer", literal_args, "fires with the caller's consumer")


def run_service(ctx, r):
    """Every queued segment request is started and, once taken out of the queue, delivered (C04.10)."""
    idx = ctx.idx
    ci = idx.cls(NODE)
    funcs = all_funcs_of(ci)
    eff = ActiveFetcher(idx, ci)
    may_start = set(eff.starters)
    grew = True
    while grew:
        grew = False
        for g in funcs:
            if g.qual not in may_start and any((self_callee(g, c) is not None and self_callee(g, c).qual in may_start)
                                               for c in calls_in_func(g)):
                may_start.add(g.qual)
                grew = True

    def starts_next(fn):
        def p(q):
            for c in node_calls(q):
                m = self_callee(fn, c)
                if m is not None and m.qual in may_start:
                    return True
                for a in list(c.args) + [k.value for k in c.keywords]:
                    m = self_method_value(fn, a)
                    if m is not None and m.qual in may_start:
                        return True
            return False
        return p
    # -- (a) get_segment starts a fetcher when none is active
    gs = idx.func(NODE + ".get_segment")
    ap = the_call(gs, "append", lambda c: attr_path(c.func.value) == "self._segment_requests")
    apn = node_of(gs, ap)
    r.site(gs, ap, "a queued request is started")
    for (n, w) in find_path_from_to_avoiding(gs.cfg(), lambda q: q is apn, starts_next(gs)):
        r.violation(gs, gs.loc(ap), "get_segment queues the request but can return without %s: when no segment is being fetched "
                    "nothing starts this one, and the read never receives its bytes (path: %s)" % (
                        " / ".join(sorted(q.split(".")[-1] + "()" for q in eff.starters)), w.brief()), w)
    # -- (b) the requests _extract_requests takes out of the queue are handed to _deliver
    er = idx.func(NODE + "._extract_requests")
    dl = idx.func(NODE + "._deliver")
    dp = first_positional_params(dl)
    users = 0
    for f in funcs:
        calls = [c for c in calls_in_func(f, er.name) if self_callee(f, c) is er]
        if not calls or f is er:
            continue
        fsym = Sym(idx, f)
        cfg = f.cfg()
        loops = []
        for q in cfg.nodes:
            if q.kind == "iter":
                it = fsym.expand(q, q.ast.iter)
                if isinstance(it, ast.Call) and call_tail(it) == er.name:
                    loops.append(q)
        if len(loops) < len(calls):
            r.violation(f, f.loc(calls[0]), "%s takes requests out of the queue without going through them: their reads are "
                        "never completed" % short(f))
        for ln in loops:
            users += 1
            r.site(f, ln.ast, "retired requests are delivered")
            tg = ln.ast.target
            if isinstance(tg, (ast.Tuple, ast.List)) and len(tg.elts) >= 2 and all(isinstance(e, ast.Name) for e in tg.elts[:2]):
                want = [tg.elts[0].id, tg.elts[1].id]
            elif isinstance(tg, ast.Name):
                want = [norm_src("%s[0]" % tg.id), norm_src("%s[1]" % tg.id)]
            else:
                raise AnchorVanished("%s: cannot read the loop over the retired requests" % short(f))

            def delivers(q, _f=f, _want=want):
                for c in node_calls(q):
                    args = None
                    if self_callee(_f, c) is dl:
                        args = list(c.args)
                    else:
                        for i, a in enumerate(c.args):
                            if self_method_value(_f, a) is dl:
                                args = list(c.args[i + 1:])
                                break
                    if args is not None and len(args) >= len(dp) and [nf(a) for a in args[:2]] == _want:
                        return True
                return False

            fnf = FlowNorm(f)

            def transfer(n, lab, nxt, st, _ln=ln, _want=want, _fnf=fnf):
                if lab == "exc":
                    return None
                if n is _ln:
                    return 0 if lab == "iter" else None
                if n.kind in ("exit", "raise") or delivers(n):
                    return None
                if n.kind == "test":
                    f_ = _fnf.edge_fact(n, lab)
                    if f_ and f_[0] == "false" and f_[1] == _want[1] + ".active":
                        return None     # a cancelled request: _deliver would do nothing with it either
                return 0
            visited, parent = explore(cfg, 0, transfer, start=ln)
            r.count(len(visited))
            bad = None
            for (nid, st) in sorted(visited):
                q = cfg.nodes[nid]
                if q is ln:
                    continue
                if q.kind == "exit" or any(d == ln.id and transfer(q, lab, ln, 0) is not None for (d, lab) in cfg.succ[nid]):
                    bad = (nid, st)
                    break
            if bad is not None:
                w = witness(cfg, parent, bad)
                r.violation(f, f.loc(ln.ast), "%s removes the requests for a segment from the queue but does not hand every one of "
                            "them to %s(%s, %s, ..): the read that made the request never gets its segment (or its failure) and "
                            "never completes (path: %s)" % (short(f), dl.name, want[0], want[1], w.brief()), w)
    if not users:
        raise AnchorVanished("nobody goes through the requests returned by _extract_requests")
    # -- (c) _deliver fires the Deferred of every request that is still active
    r.site(dl, None, "an active request is fired")
    fnd = FlowNorm(dl)

    def fires(q):
        return any(nf(c.func.value) == dp[0] and len(c.args) == 1 and nf(c.args[0]) == dp[2]
                   for c in calls_at(q, "callback") if isinstance(c.func, ast.Attribute))

    def inactive(q, lab):
        f_ = fnd.edge_fact(q, lab)
        return bool(f_) and f_[0] == "false" and f_[1] == dp[1] + ".active"
    for (n, w) in find_path_avoiding(dl.cfg(), lambda q: q.kind == "exit", gate_node=fires, gate_edge=inactive, skip_exc_edges=True):
        r.violation(dl, dl.loc(), "%s can return without %s.callback(%s) although the request is still active: the segment is "
                    "dropped and the read waits for ever (path: %s)" % (short(dl), dp[0], dp[2], w.brief()), w)


def run_chain(ctx, r):
    """The callbacks on the segment Deferred write the bytes, retry a wrong guess and continue the read; a resumed
    read is let through its gates again (C04.11)."""
    idx = ctx.idx
    ci, funcs, F, gc, gn, reach = seg_fetcher(idx)
    fcfg = F.cfg()
    fnorm = FlowNorm(F)
    dname = segment_deferred(F, gn, gc)
    regs = flat_regs([(x.kind, x.target, x.errtarget, x.call) for x in registrations(F, dname)])
    writers = [g for g in funcs if any(isinstance(c.func, ast.Attribute) and nf(c.func.value) == "self._consumer"
                                       for c in calls_in_func(g, "write"))]
    if len(writers) != 1:
        raise AnchorVanished("Segmentation: expected one method that writes to the consumer, found %d" % len(writers))
    W = writers[0]
    wc = the_call(W, "write")
    wn = node_of(W, wc)
    # -- (a) the writer is a success callback of the segment Deferred
    r.site(F, gc, "the delivered segment reaches the writer")
    iw = [i for (i, ch, t, _c) in regs if "cb" in ch and self_method_value(F, t) is W]
    if not iw:
        r.violation(F, F.loc(gc), "%s is not registered as a success callback on the Deferred of get_segment: the delivered "
                    "segment is never written to the consumer and the read never completes" % short(W))
        return
    iw = iw[0]
    # -- (b) a wrong guess of the segment size is retried
    r.site(F, gc, "a wrong segment guess is retried")
    SEGSZ = "self._node.segment_size"
    retries = [(i, t, c) for (i, ch, t, c) in regs if "eb" in ch and i > iw and self_method_value(F, t) is not None
               and self_method_value(F, t).qual in reach]
    if not retries:
        r.violation(F, F.loc(gc), "no errback on the segment Deferred fetches again after %s: a read that starts past segment 0 "
                    "of a file whose segment size differs from the guess fails with WrongSegmentError / BadSegmentNumberError "
                    "instead of returning its slice" % short(W))
    else:
        ir = retries[0][0]
        for (i, ch, t, c) in regs:
            if iw < i < ir and "eb" in ch and not passes_through(F, t):
                r.violation(F, F.loc(c), "the errback %s runs before the retry and swallows the wrong-segment failure" % src(F, t))
        retry_ids = {node_of(F, c).id for (_i, _t, c) in retries}

        def known(q, lab):
            f_ = fnorm.edge_fact(q, lab)
            if not f_:
                return False
            return (f_[0] in ("is not", "!=") and {f_[1], f_[2]} == {"None", SEGSZ}) or (f_[0] == "truth" and f_[1] == SEGSZ)

        def transfer(n, lab, nxt, st):
            if lab == "exc":
                return None
            if n.kind in ("entry", "exit", "raise"):
                return st
            called, ok = st
            if n is gn:
                called = True
            if n.id in retry_ids or known(n, lab):
                ok = True
            return (called, ok)
        visited, parent = explore(fcfg, (False, False), transfer)
        r.count(len(visited))
        key = (fcfg.exit.id, (True, False))
        if key in visited:
            w = witness(fcfg, parent, key)
            r.violation(F, F.loc(retries[0][2]), "the retry errback is not registered when the segment size is only a guess "
                        "(%s is None): the one case in which the wrong segment can be fetched is the one that is not retried "
                        "(path: %s)" % (SEGSZ, w.brief()), w)
    # -- (c) after writing, the read goes on (next segment or completion)
    r.site(W, wc, "the read continues after a write")
    later = any(i > iw and "cb" in ch and ((self_method_value(F, t) is not None and self_method_value(F, t).qual in reach)
                                           or (isinstance(t, ast.Lambda) and any(
                                               isinstance(x, ast.Attribute) and self_method_value(F, x) is not None
                                               and self_method_value(F, x).qual in reach for x in ast.walk(t.body))))
                for (i, ch, t, _c) in regs)
    if not later:
        for (n, w) in find_path_from_to_avoiding(W.cfg(), lambda q: q is wn, lambda q: any(reach_refs(W, q, reach))):
            r.violation(W, W.loc(wc), "after writing a segment's bytes %s can return without asking for the next segment or "
                        "completing the read: a read never fires its Deferred (path: %s)" % (short(W), w.brief()), w)
    # -- (e) start() enters the fetch route (nobody else does for a fresh read: the consumer only resumes after a pause)
    rd = idx.func(NODE + ".read")
    start_fn = ci.lookup(the_call(rd, "start").func.attr)
    if start_fn is None:
        raise AnchorVanished("DownloadNode.read starts the Segmentation with an unknown method")
    r.site(start_fn, None, "start() asks for the first segment")
    for (n, w) in find_path_avoiding(start_fn.cfg(), lambda q: q.kind == "exit", gate_node=lambda q: any(reach_refs(start_fn, q, reach)),
                                     skip_exc_edges=True):
        r.violation(start_fn, start_fn.loc(), "%s can return without asking for the first segment: the read never delivers a byte "
                    "(path: %s)" % (short(start_fn), w.brief()), w)
    # -- (d) resumeProducing restores every flag that pauseProducing cleared and that gates the way to get_segment
    pp, rs = ci.lookup("pauseProducing"), ci.lookup("resumeProducing")
    if pp is None or rs is None:
        raise AnchorVanished("Segmentation no longer implements pauseProducing/resumeProducing")
    r.site(rs, None, "resume reopens what pause closed")

    def const_store(q, x, truth):
        v = assign_value(q, x) if x in node_stores(q) else None
        return isinstance(v, ast.Constant) and bool(v.value) is truth
    cleared = sorted({x for q in pp.cfg().nodes for x in node_stores(q)
                      if x.startswith("self.") and x.count(".") == 1 and const_store(q, x, False)})
    for x in cleared:
        blocking = None
        for g in reach.values():
            gnorm = FlowNorm(g)
            refs = {q.id for q in g.cfg().nodes if any(reach_refs(g, q, reach))} | ({gn.id} if g is F else set())
            if not refs:
                continue

            def open_(q, lab, _g=gnorm, _x=x):
                f_ = _g.edge_fact(q, lab)
                return bool(f_) and f_[0] == "truth" and f_[1] == _x
            tested = any(open_(q, lab) for q in g.cfg().nodes if q.kind == "test" for (_d, lab) in g.cfg().succ[q.id])
            if tested and not find_path_avoiding(g.cfg(), lambda q, _r=refs: q.id in _r, gate_edge=open_):
                blocking = g
                break
        if blocking is None:
            continue
        rcfg = rs.cfg()
        rnorm = FlowNorm(rs)
        direct = {q.id for q in rcfg.nodes if reach_refs(rs, q, reach)[0]}
        # what pauseProducing leaves behind as a mark of 'paused' (a time stamp): seeing it unset means there was no pause
        marks = {y for q in pp.cfg().nodes for y in node_stores(q) if y.startswith("self.") and y.count(".") == 1
                 and assign_value(q, y) is not None and not isinstance(assign_value(q, y), ast.Constant)}

        def not_paused(q, lab, _n=rnorm, _m=marks):
            f_ = _n.edge_fact(q, lab)
            return bool(f_) and ((f_[0] == "false" and f_[1] in _m) or (f_[0] in ("is", "==") and "None" in (f_[1], f_[2])
                                                                      and ({f_[1], f_[2]} - {"None"}) <= _m))
        for (n, w) in find_path_avoiding(rcfg, lambda q: q.kind == "exit" or q.id in direct,
                                         gate_node=lambda q, _x=x: const_store(q, _x, True), gate_edge=not_paused,
                                         skip_exc_edges=True):
            r.violation(rs, rs.loc(), "pauseProducing clears %s and %s goes on only when it is set, but resumeProducing can finish "
                        "without setting it again: a read that was paused once never delivers the rest of its slice (path: %s)"
                        % (x, short(blocking), w.brief()), w)
            break


def run_clip(ctx, r):
    idx = ctx.idx
    rd = idx.func(NODE + ".read")
    rp = first_positional_params(rd)
    s = Sym(idx, rd)
    cfg = rd.cfg()
    fnorm = FlowNorm(rd)
    sc = the_call(rd, "Segmentation")
    sn = node_of(rd, sc)
    sinit = idx.func(SEG + ".__init__")
    b = bind_call_args(sinit, sc)
    size_arg = b[first_positional_params(sinit)[2]]
    got = nf(s.expand(sn, size_arg))
    want = norm_src("max(0, min(%s, self._verifycap.size - %s))" % (rp[2], rp[1]))
    r.site(rd, sc, "clip %s" % got)
    r.require(got == want, rd, rd.loc(sc), "the read length handed to Segmentation is %s, not %s" % (got, want))
    # None means 'to EOF'
    none_ok = False
    for n in cfg.nodes:
        if n.kind != "test":
            continue
        for (d, lab) in cfg.succ[n.id]:
            f = fnorm.edge_fact(n, lab)
            if f and f[0] == "is" and {f[1], f[2]} == {"None", rp[2]}:
                dn = cfg.nodes[d]
                v = assign_value(dn, rp[2])
                none_ok = v is not None and nf(v) == "self._verifycap.size"
                r.require(none_ok, rd, rd.loc(dn.ast), "size=None is replaced by %s, not by the file size" % (nf(v) if v is not None else src(rd, dn.ast)))
                none_ok = True
    r.require(none_ok, rd, rd.loc(), "read() no longer maps size=None to the file size")
    # zero-length reads complete before a Segmentation is built
    r.site(rd, sc, "size == 0 short-circuit")

    sname = size_arg.id if isinstance(size_arg, ast.Name) else None

    def nonzero(n, lab):
        f = fnorm.edge_fact(n, lab)
        if f and f[0] == "truth":
            other = f[1]
        elif f and f[0] == "!=" and "0" in (f[1], f[2]):
            other = f[2] if f[1] == "0" else f[1]
        else:
            return False
        if other == got:
            return True
        # the clipped value itself: same reaching definition as at the Segmentation call
        return sname is not None and other == sname and s.rd.get(n.id, {}).get(sname) == s.rd.get(sn.id, {}).get(sname)
    for (n, w) in find_path_avoiding(cfg, lambda q: q is sn, gate_edge=nonzero):
        r.violation(rd, rd.loc(n.ast), "a Segmentation can be built for a zero-length (or past-EOF) read (path: %s)" % w.brief(), w)
    for n in cfg.find(is_return):
        if n.ast.value is None:
            continue        # C04.9 reports a read that returns nothing
        v = s.expand(n, n.ast.value)
        if isinstance(v, ast.Call) and call_tail(v) == "succeed":
            r.require(len(v.args) == 1 and nf(v.args[0]) == rp[0], rd, rd.loc(n.ast), "an empty read returns %s, not the consumer" % nf(v))
    # the clipped range (offset + size <= file size, with equality for every read up to EOF) must be accepted by
    # whatever Segmentation.__init__ asserts about it
    sp = first_positional_params(sinit)
    nrm = Normaliser(Env(None, depth=0))
    fin = FlowNorm(sinit)
    FSZ = sp[0] + "._verifycap.size"
    slack = Poly.atom(FSZ) - Poly.atom(sp[1]) - Poly.atom(sp[2])         # >= 0 for every clipped range, == 0 up to EOF
    for n in sinit.cfg().nodes:
        if n.kind != "test" or not getattr(n, "assume", False):
            continue
        for (d_, lab) in sinit.cfg().succ[n.id]:
            if not (isinstance(lab, tuple) and lab[0] == "T"):
                continue
            f = fin.edge_fact(n, lab)
            if not f or f[2] is None or f[0] not in ("<", "<=", "==", "!="):
                continue
            try:
                diff = nrm.poly(parse_expr(f[2])) - nrm.poly(parse_expr(f[1]))      # fact: 0 <op> diff
            except Exception:
                continue
            atoms = set(diff.atoms())
            if FSZ not in atoms or not (atoms & {sp[1], sp[2]}):
                continue
            ok = (f[0] == "<=" and diff == slack) or (f[0] == "<" and diff == slack + Poly.const(1))
            r.require(ok, sinit, sinit.loc(n.ast), "Segmentation.__init__ asserts %s, which rejects clipped ranges (%s + %s <= file "
                      "size, equal for every read that ends at EOF): such reads fail with AssertionError" % (
                          src(sinit, n.ast), sp[1], sp[2]))


def run_trim(ctx, r):
    idx = ctx.idx
    nrm = Normaliser(Env(None, depth=0))
    g = idx.func(SEG + "._got_segment")
    gp = first_positional_params(g)
    s = Sym(idx, g)
    cfg = g.cfg()
    fnorm = FlowNorm(g)
    wc = the_call(g, "write")
    wn = node_of(g, wc)
    r.site(g, wc, "trim")
    data = s.expand(wn, wc.args[0])
    SEGSTART, SEGDATA = "%s[0]" % gp[0], "%s[1]" % gp[0]
    ok = isinstance(data, ast.Subscript) and isinstance(data.slice, ast.Slice) and nf(data.value) == SEGDATA \
        and data.slice.lower is not None and data.slice.upper is not None and data.slice.step is None
    r.require(ok, g, g.loc(wc), "the consumer is given %s, not a slice of the delivered segment" % nf(data))
    ov = None
    if ok:
        lo, hi = nrm.poly(data.slice.lower), nrm.poly(data.slice.upper)
        r.require(lo == Poly.atom("self._offset") - Poly.atom(SEGSTART), g, g.loc(wc),
                  "the slice starts at %s, not at (wanted offset - segment start)" % lo)
        ln = hi - lo
        # the length is the overlap length o[1] with o = overlap(segstart, len(segment), offset, size)
        cands = [a for a in ln.atoms()]
        okl = len(ln.t) == 1 and len(cands) == 1 and list(ln.t.values())[0] == 1
        if okl and cands[0] != "self._size":      # [a:a+size] is clipped at the segment end by slicing itself
            m = re.match(r"^(\w+\.)*overlap\((.*)\)\[1\]$", cands[0])
            okl = m is not None
            if okl:
                args = [a.strip() for a in m.group(2).split(", ")]
                okl = args == [SEGSTART, "len(%s)" % SEGDATA, "self._offset", "self._size"]
        r.require(okl, g, g.loc(wc), "the slice length is %s, not the length of overlap(segment start, len(segment), offset, size)" % ln)
    ovs = [c for c in calls_in_func(g, "overlap")]
    if len(ovs) == 1:
        on = node_of(g, ovs[0])
        ov = nf(s.expand(on, ovs[0]))
        r.require([nf(s.expand(on, a)) for a in ovs[0].args] == [SEGSTART, "len(%s)" % SEGDATA, "self._offset", "self._size"],
                  g, g.loc(ovs[0]), "overlap is computed for %s" % ov)
    if ov is None:
        raise AnchorVanished("_got_segment: the overlap(..) computation was not found")
    # first-byte guard
    if ov is not None:
        def has_overlap(n, lab):
            f = fnorm.edge_fact(n, lab)
            return bool(f) and f[0] == "truth" and f[1] == ov

        def first_byte(n, lab):
            f = fnorm.edge_fact(n, lab)
            return bool(f) and f[0] == "==" and {f[1], f[2]} == {ov + "[0]", "self._offset"}
        for gate, what in ((has_overlap, "the segment does not overlap the wanted range"),
                           (first_byte, "the overlap does not start at the wanted offset")):
            for (n, w) in find_path_avoiding(cfg, lambda q: q is wn, gate_edge=gate):
                r.violation(g, g.loc(n.ast), "bytes are written although %s (path: %s)" % (what, w.brief()), w)
    # progress bookkeeping
    upd = {}
    for n in cfg.nodes:
        if n.kind == "stmt" and isinstance(n.ast, ast.AugAssign):
            p = attr_path(n.ast.target)
            if p in ("self._offset", "self._size"):
                upd[p] = (type(n.ast.op).__name__, nf(s.expand(n, n.ast.value)), n)
    r.site(g, None, "offset/size advance")
    want_len = "len(%s)" % nf(data)
    r.require(upd.get("self._offset", ("", ""))[:2] == ("Add", want_len) and upd.get("self._size", ("", ""))[:2] == ("Sub", want_len),
              g, g.loc(wc), "after a write offset/size are updated by %s (expected += / -= the written length)" % {
                  k: v[:2] for k, v in upd.items()})
    # requested segment number and segment label
    fn_ = idx.func(SEG + "._fetch_next")
    fs = Sym(idx, fn_)
    gc = the_call(fn_, "get_segment")
    gn = node_of(fn_, gc)
    r.site(fn_, gc, "segment number from offset")
    a0 = gc.args[0]
    defs = fs.rd.get(gn.id, {}).get(a0.id, frozenset()) if isinstance(a0, ast.Name) else frozenset()
    fnorm2 = FlowNorm(fn_)
    vals = []
    for d in defs:
        dn = fn_.cfg().nodes[d]
        v = fs.expand(dn, fs.fnorm._def_value(dn, a0.id))
        if isinstance(v, ast.Constant) and v.value == 0:
            def off0(n, lab):
                f = fnorm2.edge_fact(n, lab)
                return bool(f) and f[0] == "==" and {f[1], f[2]} == {"0", "self._offset"}
            r.require(not find_path_avoiding(fn_.cfg(), lambda q, _d=dn: q is _d, gate_edge=off0), fn_, fn_.loc(dn.ast),
                      "segment 0 is requested although the offset may be non-zero")
        else:
            vals.append((v, dn))
    okv = len(vals) == 1 and isinstance(vals[0][0], ast.BinOp) and isinstance(vals[0][0].op, ast.FloorDiv) \
        and nf(vals[0][0].left) == "self._offset" and \
        nf(vals[0][0].right) == "__fixup__(self._node.segment_size, self._node.guessed_segment_size)"
    r.require(okv, fn_, fn_.loc(gc), "the requested segment is %s, not offset // (segment_size or guessed_segment_size)" % (
        [nf(v) for v, _d in vals] or "?"))
    # the active-segnum / got_segment bookkeeping uses the same number
    ck = idx.func(NODE + "._check_ciphertext_hash")
    ckp = first_positional_params(ck)
    cks = Sym(idx, ck)
    r.site(ck, None, "segment label segnum * segment_size")
    for n in ck.cfg().find(is_return):
        v = n.ast.value
        okc = isinstance(v, ast.Tuple) and len(v.elts) == 3 and \
            nrm.poly(cks.expand(n, v.elts[0])) == Poly.atom(ckp[1]) * Poly.atom("self.segment_size")
        r.require(okc, ck, ck.loc(n.ast), "a segment is labelled with start %s, not segnum * segment_size" % (
            nf(cks.expand(n, v.elts[0])) if isinstance(v, ast.Tuple) and v.elts else src(ck, v)))
    # completion: size == 0 fires the Deferred with the consumer
    done = [n for n in fn_.cfg().find(has_call("callback"))]
    fnorm3 = fnorm2
    for n in done:
        def size0(q, lab):
            f = fnorm3.edge_fact(q, lab)
            return bool(f) and f[0] == "==" and {f[1], f[2]} == {"0", "self._size"}
        r.require(not find_path_avoiding(fn_.cfg(), lambda q, _n=n: q is _n, gate_edge=size0), fn_, fn_.loc(n.ast),
                  "the read is reported complete although bytes remain")
    r.require(bool(done), fn_, fn_.loc(), "_fetch_next never completes the read")


def run_literal(ctx, r):
    idx = ctx.idx
    rd = idx.func("immutable.literal:LiteralFileNode.read")
    rp = first_positional_params(rd)
    s = Sym(idx, rd)
    cfg = rd.cfg()
    fnorm = FlowNorm(rd)
    bt = the_call(rd, "beginFileTransfer")
    bn = node_of(rd, bt)
    r.site(rd, bt, "literal slice")
    a0 = bt.args[0] if bt.args else None
    ok = isinstance(a0, ast.Call) and call_tail(a0) == "BytesIO" and len(a0.args) == 1 and isinstance(a0.args[0], ast.Name) \
        and len(bt.args) >= 2 and nf(bt.args[1]) == rp[0]
    r.require(ok, rd, rd.loc(bt), "FileSender is given %s" % src(rd, bt))
    if not ok:
        return
    var = a0.args[0].id
    defs = s.rd.get(bn.id, {}).get(var, frozenset())
    seen = {}
    for d in defs:
        if d == C.PARAM_DEF:
            continue
        dn = cfg.nodes[d]
        v = s.fnorm._def_value(dn, var)
        seen[nf(v)] = dn
    w_all = norm_src("self.u.data[%s:]" % rp[1])
    w_rng = norm_src("self.u.data[%s:%s+%s]" % (rp[1], rp[1], rp[2]))
    r.require(set(seen) == {w_all, w_rng}, rd, rd.loc(bt), "the literal data sent is one of %s (expected %s / %s)" % (
        sorted(seen), w_all, w_rng))

    def none_fact(op):
        def g(n, lab):
            f = fnorm.edge_fact(n, lab)
            return bool(f) and f[0] == op and {f[1], f[2]} == {"None", rp[2]}
        return g
    if w_all in seen:
        for (n, w) in find_path_avoiding(cfg, lambda q: q is seen[w_all], gate_edge=none_fact("is")):
            r.violation(rd, rd.loc(n.ast), "the whole tail of the literal is sent although a size was given", w)
    if w_rng in seen:
        for (n, w) in find_path_avoiding(cfg, lambda q: q is seen[w_rng], gate_edge=none_fact("is not")):
            r.violation(rd, rd.loc(n.ast), "offset+size is computed although size may be None", w)


def run(ctx: Context):
    with ctx.rule("C04.1", "R4", "per-read isolation: fresh Segmentation / DecryptingConsumer / Deferred / Cancel per call; "
                  "per-read classes store only to self.* and touch the node only through get_segment", expected=5) as r:
        run_isolation(ctx, r)
    with ctx.rule("C04.2", "R3", "cancel discipline: only the cancelling request is removed, the active fetcher is stopped "
                  "only when unwanted, requests are partitioned by segment, cancel/deliver are one-shot, stopProducing cancels whenever "
                  "a request is outstanding", expected=7) as r:
        run_cancel(ctx, r)
    with ctx.rule("C04.3", "R1/R6", "read length clipped to max(0, min(size, filesize-offset)); None means EOF; zero-length "
                  "reads finish before a Segmentation is built", expected=2) as r:
        run_clip(ctx, r)
    with ctx.rule("C04.4", "R6", "Segmentation requests offset // segment_size, segments are labelled segnum * segment_size, "
                  "and the bytes written are the overlap slice guarded by the first-byte check", expected=4) as r:
        run_trim(ctx, r)
    with ctx.rule("C04.5", "R6", "AES-CTR counter positioned from the read offset (same checks as C01.7, decrypt side)",
                  expected=3) as r:
        run_ctr(ctx, r)
    with ctx.rule("C04.6", "R6", "LiteralFileNode.read sends data[offset:] when size is None, else data[offset:offset+size]",
                  expected=1) as r:
        run_literal(ctx, r)
    with ctx.rule("C04.7", "R1/R3", "a read has at most one segment request outstanding: get_segment is reached only past "
                  "`record is None`, the request is recorded, retired on both outcomes before the read continues, and "
                  "forgotten by nobody else", expected=5) as r:
        run_outstanding(ctx, r)
    with ctx.rule("C04.8", "R1/E3", "whoever retires the node's active fetcher (cancel, delivery, failure) resets "
                  "_active_segment and then starts the next queued request, so the other reads go on", expected=3) as r:
        run_restart(ctx, r)
    with ctx.rule("C04.9", "R6", "every read() returns a Deferred that fires with the caller's consumer: succeed(consumer) for "
                  "the empty read, else the Deferred Segmentation completes with its consumer, handed up unchanged", expected=5) as r:
        run_result(ctx, r)
    with ctx.rule("C04.10", "R1/E3", "every queued segment request is started (get_segment) and, once taken out of the queue, "
                  "handed to _deliver, which fires its Deferred while the request is active", expected=5) as r:
        run_service(ctx, r)
    with ctx.rule("C04.11", "R1/E7", "the segment Deferred of a read has the writer as success callback, then a retry errback "
                  "whenever the segment size is a guess; the writer continues the read; resumeProducing reopens the gate that "
                  "pauseProducing closed; start() asks for the first segment", expected=5) as r:
        run_chain(ctx, r)
