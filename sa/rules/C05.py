"""C05 Convergent capabilities and literal files.

Decided: what the convergent key is a function of (provenance of every input of
the hasher, all data chunks, nothing else), where the storage index and the
read-cap key come from, which branch picks a random key, and the literal-file
routing (threshold, comparison, data embedded, no server contact), the position of the
file handle when the data reads start, the independence of the hashes behind
the cap from the share placement, the way the configured defaults reach the
attributes the key derivation reads, the provenance of every key the uploadables
deliver or remember (only the digest of this upload, no memo shared between
uploadables) and the way the file size is measured (on the handle itself, not from
file-system metadata of an unflushed handle) (DESIGN.md section 5, C05)."""
from sa.h import *

EXPLANATION = (
    "Decided (structural): (1) the convergent key is digest() of convergence_hasher(k, n, segsize, secret) with k, n, "
    "segsize = elements 0, 2, 3 of the tuple delivered by get_all_encoding_parameters() and secret = self.convergence; "
    "the hashutil tag depends on all four; the read loop leaves only on an empty read, every non-empty chunk reaches "
    "update() before the next read or the digest, the file is rewound afterwards and no read for the key follows a seek to another position than 0; an explicitly set "
    "encoding_param_k / encoding_param_n / max_segment_size wins over its default and the default is used when it is "
    "unset (decided for or / and / conditional expressions, other shapes only by dependency); (2) get_encryption_key takes "
    "the convergent branch iff self.convergence is not None, the random branch stores os.urandom(16); subclasses "
    "pass their convergence argument through; the storage index is storage_index_hash(key) of the key alone, the "
    "encryptor uses the same key, and the read cap is built from that key and the fields of the verify cap in "
    "parameter order; (3) Uploader.upload routes size <= URI_LIT_SIZE_THRESHOLD (folds to 55, written nowhere "
    "else) to LiteralUploader and only strictly larger sizes to the CHK uploaders, size being the result of "
    "uploadable.get_size(); (4) LiteralUploader embeds b''.join of everything read_this_many_bytes(uploadable, size) "
    "accumulates, in order, into LiteralFileURI (read_this_many_bytes answers without reading only under size == 0, "
    "then with the empty / accumulated list, and otherwise returns the Deferred of uploadable.read(size)) and reaches no storage-broker / remote call; LiteralFileURI and "
    "LiteralFileNode only use the embedded data; (5) EncryptAnUploadable hashes and encrypts every chunk it reads, "
    "first-in first-out, with the one encryptor, independent of the chunking; (6) the CHK read cap is stored with "
    "results.set_uri(cap.to_string()) on every path, the results and the Deferreds carrying them are returned, and "
    "the read-cap step is registered on the Deferred every path of the CHK branch returns; (7) FileHandle.get_size(), "
    "the first call of every upload, ends with the file handle rewound to offset 0 on every path that measures the file "
    "(the last seek / read on self._filehandle before the exit is seek(0), unless __init__ rewinds and get_size does not "
    "move the handle), no method of FileHandle / FileName / Data returns after moving the handle elsewhere, and "
    "read(length) is self._filehandle.read(length) without any seek, so the literal data and the ciphertext start at "
    "offset 0 wherever the caller left the handle; (8) in immutable.encode.Encoder every round of the share loop of "
    "_send_segment appends block_hash(block) to self.block_hashes[..] (directly or through a method that does so on "
    "every path), every round of send_all_block_hash_trees sets self.share_root_hashes[..] from a HashTree, the UEB "
    "entries share_root_hash / crypttext_root_hash / crypttext_hash are stored on every path of their functions from "
    "HashTree(self.share_root_hashes) / HashTree(self._crypttext_hashes) / self._crypttext_hasher.digest(), and none "
    "of the loop iterables, stored values, accumulator sizes or codec.encode arguments depends on self.landlords / "
    "self.servermap: the cap does not depend on which shares this upload pushes; "
    "(9) the attribute get_all_encoding_parameters falls back on for an unset k / n / max segment size is stored by "
    "set_default_encoding_parameters (of every uploadable of the FileHandle family) from default_params['k' / 'n' / "
    "'max_segment_size'], with attribute names computed in loops over constant sequences / setattr / __dict__ evaluated, "
    "on a path that is taken for the keys of client.DEFAULT_ENCODING_PARAMETERS, and Uploader.upload hands over what "
    "get_encoding_parameters() returned (attribute names that cannot be evaluated statically give an analysis error); "
    "(10) every key method of the FileHandle family (get_encryption_key, _get_encryption_key_convergent, "
    "_get_encryption_key_random, also when a subclass overrides them) returns on every path succeed(self._key), a call of "
    "a key method of the family, or a Deferred started by one of these (or the hashing chain itself) on which every later "
    "callback returns its argument unchanged; every store of self._key (assignment, setattr, __dict__) in the family is "
    "None, os.urandom(16) or the digest in the hashing callback of (1), and no code of the immutable package plants ._key "
    "on an uploadable from outside - so no key comes from a cache / table shared between uploadables, whatever it is keyed "
    "on (a memo not keyed by the contents and the effective k, n, segsize and secret is not a function of them); the "
    "sibling memo self._all_encoding_parameters is stored only on self, in _got_size, from the 4-tuple just computed, is "
    "None at class level, and get_all_encoding_parameters returns that memo or the Deferred of the computation; "
    "(11) the size FileHandle.get_size() delivers and every value stored in self._size in the family is, following locals "
    "to all their reaching definitions (exception handlers included): <handle>.tell() with the handle at its end on every "
    "path (after seek(0, SEEK_END) or a read of everything), the result of seek(0, SEEK_END), len() of a read of everything "
    "from offset 0 or of getvalue() / getbuffer(), the remembered self._size, or file-system metadata (os.fstat / os.stat / "
    "os.path.getsize / .st_size) only after <handle>.flush() on every path with no write since - or of the file a subclass "
    "opened read-only itself (FileName), resp. len(data) of the BytesIO(data) it wraps (Data); any other way of computing "
    "the size gives an analysis error. "
    "Undecided: SHA-256d / AES-CTR behave as functions of their inputs (library), netstring injectivity (unit-tested); "
    "the value of the segment size (min with the file size, rounding to a multiple of k) beyond its dependency on "
    "max_segment_size; that the handle is at offset 0 when the key hashing starts if the first seek(0) is removed "
    "(get_size() leaves it there); that the random / convergent key is cached between the two get_encryption_key() "
    "calls and the encryptor is created once (round-trip, not convergence); argument validation in "
    "_convergence_hasher_tag; LiteralFileNode.read offset/size slicing; that flush() of an arbitrary file-like object really "
    "writes its buffer through (true for io buffered files); EncryptAnUploadable's own per-instance memos of size and "
    "parameters (they copy what the uploadable delivered).")
TECHNIQUE = "static analysis: depends-on and positional provenance, CFG x typestate for the read loop, edge facts, constant folding"

UP = "immutable.upload:"
FH = UP + "FileHandle"
RAW = Normaliser(Env(None, depth=0))
REMOTE_TAILS = {"callRemote", "get_storage_broker", "get_servers_for_psi", "allocate_buckets", "get_buckets",
                "get_shareholders", "get_storage_server", "connectTo"}
# calls that leave a file object at another position than before
MOVING_TAILS = {"read", "readline", "readlines", "readinto", "write", "writelines", "truncate"}
# per-upload placement state of the Encoder: which shares have a bucket writer
PLACEMENT = ("self.landlords", "self.servermap")

# the methods through which an uploadable of the FileHandle family hands out its encryption key
KEY_METHODS = ("get_encryption_key", "_get_encryption_key_convergent", "_get_encryption_key_random")
UPLOADABLE_METHODS = {"get_encryption_key", "get_size", "read", "close", "set_default_encoding_parameters",
                      "get_all_encoding_parameters", "set_upload_status"}
# calls that answer from file-system metadata, not from the (possibly buffered) file object
METADATA_TAILS = {"fstat", "stat", "lstat", "getsize"}
_REG = ("addCallback", "addErrback", "addBoth", "addCallbacks")


def _is_rewind(c):
    """c is <handle>.seek(0) / seek(0, 0) / seek(0, os.SEEK_SET)."""
    return bool(c.args) and isinstance(c.args[0], ast.Constant) and c.args[0].value == 0 and not c.keywords and (
        len(c.args) == 1 or (isinstance(c.args[1], ast.Constant) and c.args[1].value == 0)
        or attr_path(c.args[1]) in ("os.SEEK_SET", "io.SEEK_SET"))


def _is_seek_end(c):
    """c is <handle>.seek(0, 2) / seek(0, os.SEEK_END)."""
    if not (c.args and isinstance(c.args[0], ast.Constant) and c.args[0].value == 0):
        return False
    w = c.args[1] if len(c.args) == 2 else (kwarg(c, "whence") if len(c.args) == 1 else None)
    if w is None or len(c.args) + len(c.keywords) != 2:
        return False
    return (isinstance(w, ast.Constant) and w.value == 2) or attr_path(w) in ("os.SEEK_END", "io.SEEK_END")


def _reads_all(c):
    """c is <handle>.read() / read(-1) / read(None) / readall() / readlines(): leaves the handle at the end."""
    if c.keywords or len(c.args) > 1:
        return False
    if not c.args:
        return True
    a = c.args[0]
    if isinstance(a, ast.UnaryOp) and isinstance(a.op, ast.USub) and isinstance(a.operand, ast.Constant):
        return a.operand.value == 1
    return isinstance(a, ast.Constant) and (a.value is None or a.value == -1)


def _is_random_key(idx, folder, f, v):
    """v is os.urandom(16) or hashutil.random_key() (which returns os.urandom(16))."""
    def urandom16(ff, e):
        if not (isinstance(e, ast.Call) and call_name(e) == "os.urandom" and len(e.args) == 1 and not e.keywords):
            return False
        try:
            return folder.fold(e.args[0], ff.module, ff.cls) == 16
        except NotConstant:
            return False
    if urandom16(f, v):
        return True
    if isinstance(v, ast.Call) and call_tail(v) == "random_key" and not v.args and not v.keywords:
        hk = idx.func("util.hashutil:random_key")
        hr = hk.cfg().find(is_return)
        return bool(hr) and all(urandom16(hk, x.ast.value) for x in hr)
    return False


def _self_attr_values(f, attr):
    """[(cfg node, value expression or None)] for every store of self.<attr> the function performs itself:
    assignments, setattr(self, '<attr>', v), self.__setattr__, self.__dict__['<attr>'] = v."""
    path = "self." + attr
    out = []
    fcfg = f.cfg()
    for n in fcfg.nodes:
        if n.kind not in ("stmt", "test", "iter", "with"):
            continue
        if path in node_stores(n):
            out.append((n, stored_value(n, path)))
        for c in node_calls(n):
            nm = val = None
            if isinstance(c.func, ast.Name) and c.func.id == "setattr" and len(c.args) == 3 and attr_path(c.args[0]) == "self":
                nm, val = c.args[1], c.args[2]
            elif isinstance(c.func, ast.Attribute) and c.func.attr == "__setattr__":
                if len(c.args) == 2 and attr_path(c.func.value) == "self":
                    nm, val = c.args
                elif len(c.args) == 3 and attr_path(c.args[0]) == "self":
                    nm, val = c.args[1], c.args[2]
            if isinstance(nm, ast.Constant) and nm.value == attr:
                out.append((n, val))
        a = n.ast
        if n.kind == "stmt" and isinstance(a, ast.Assign):
            for t in a.targets:
                if isinstance(t, ast.Subscript) and attr_path(t.value) == "self.__dict__" \
                        and isinstance(t.slice, ast.Constant) and t.slice.value == attr:
                    out.append((n, a.value))
    return out


def _own_file_metadata(f, fnm, dn, v, path_expr, on_handle):
    """Every file-system metadata call in v asks about the file the class itself opened read-only:
    os.fstat(<handle>.fileno()) or, in __init__, stat / getsize of the very path expression passed to open()."""
    calls = [x for x in ast.walk(v) if isinstance(x, ast.Call) and call_tail(x) in METADATA_TAILS]
    if not calls:
        return False
    for c in calls:
        if len(c.args) != 1 or c.keywords:
            return False
        a = fnm.resolve(dn, c.args[0])
        if isinstance(a, ast.Call) and call_tail(a) == "fileno" and on_handle(dn, a):
            continue
        if f.name == "__init__" and fnm.norm(dn, a) == fnm.norm(dn, path_expr):
            continue
        return False
    return True


def infeasible(n, lab):
    return n.kind == "test" and isinstance(lab, tuple) and isinstance(n.ast, ast.Constant) \
        and bool(n.ast.value) != (lab[0] == "T")


def reaches_exit_avoiding(cfg, gate):
    def tr(n, lab, nxt, st):
        if lab == "exc" or infeasible(n, lab) or (n.kind not in ("entry", "exit", "raise") and gate(n)):
            return None
        return 0
    visited, parent = explore(cfg, 0, tr)
    return [witness(cfg, parent, (nid, st)) for (nid, st) in sorted(visited) if cfg.nodes[nid].kind == "exit"]


def node_of(cfg, call):
    for n in cfg.nodes:
        if any(c is call for c in node_calls(n, into_lambda=False)):
            return n
    return None


def sole_def(fnorm, n, name):
    """Value expression of the only definition of local `name` reaching node n (also for calls the
    normaliser refuses to substitute, e.g. x.pop(0) / f.read(..)), else None."""
    ds = fnorm.rd.get(n.id, {}).get(name)
    if not ds or len(ds) != 1:
        return None
    (d,) = tuple(ds)
    if d < 0:
        return None
    return fnorm._def_value(fnorm.cfg.nodes[d], name)


def deps_through(inner, outer, e):
    """depends_on of an expression of a nested function, continued through the enclosing function's locals."""
    defs = {}
    for f in (outer, inner):
        for k, v in def_exprs(f).items():
            defs.setdefault(k, []).extend(v)
    return depends_on(inner, e, defs=defs)


def lambda_calls(t):
    """Calls in the body of a lambda (or [] for anything else)."""
    if isinstance(t, ast.Lambda):
        return [c for c in ast.walk(t.body) if isinstance(c, ast.Call)]
    return []


def empty_read_edge(n, lab, var):
    """The edge (n, lab) is taken exactly when the local `var` is empty."""
    if n.kind != "test" or not isinstance(lab, tuple):
        return False
    f = RAW.cmp(n.ast, lab[0] == "T")
    if not f:
        return False
    op, l, r = f
    if op == "false" and l == var:
        return True
    if op == "==" and {l, r} in ({"len(%s)" % var, "0"}, {var, "b''"}):
        return True
    return False


def run(ctx: Context):
    idx = ctx.idx
    cg = get_callgraph(idx)
    folder = get_folder(idx)

    # -- 1. what the convergent key is a function of ------------------------
    with ctx.rule("C05.1", "R7/R2", "convergent key = digest of convergence_hasher(params[0], params[2], params[3], "
                  "self.convergence) updated with every chunk until the empty read; hashutil tag depends on all four",
                  expected=5) as r:
        # (a) hashutil
        tg = idx.func("util.hashutil:_convergence_hasher_tag")
        tps = first_positional_params(tg)
        if len(tps) != 4:
            raise AnchorVanished("_convergence_hasher_tag(k, n, segsize, convergence) signature")
        rets = tg.cfg().find(is_return)
        if not rets:
            raise AnchorVanished("_convergence_hasher_tag has no return")
        r.site(tg, None, "tag")
        for n in rets:
            dep = depends_on(tg, n.ast.value) if n.ast.value is not None else set()
            for p in tps:
                r.require(p in dep, tg, tg.loc(n.ast), "the convergence tag does not depend on %s: uploads that "
                          "differ only in %s get the same key and storage index" % (p, p))
        ch = idx.func("util.hashutil:convergence_hasher")
        cps = first_positional_params(ch)
        r.site(ch, None, "hasher")
        cnorm = FlowNorm(ch)
        crets = ch.cfg().find(is_return)
        if not crets or len(cps) != 4:
            raise AnchorVanished("convergence_hasher(k, n, segsize, convergence)")
        for n in crets:
            v = cnorm.resolve(n, n.ast.value)
            ok = isinstance(v, ast.Call) and call_tail(v) == "tagged_hasher" and len(v.args) >= 1
            if r.require(ok, ch, ch.loc(n.ast), "convergence_hasher returns %s, not tagged_hasher(tag, KEYLEN)" % src(ch, v)):
                t = cnorm.resolve(n, v.args[0])
                ok = isinstance(t, ast.Call) and call_tail(t) == "_convergence_hasher_tag" and not t.keywords \
                    and [a.id if isinstance(a, ast.Name) else None for a in t.args] == cps
                r.require(ok, ch, ch.loc(n.ast), "the hasher tag is %s, expected _convergence_hasher_tag(%s)" % (
                    src(ch, t), ", ".join(cps)))
                trunc = arg(v, 1, "truncate_to")
                try:
                    tv = folder.fold(trunc, ch.module) if trunc is not None else None
                except NotConstant:
                    tv = None
                r.require(tv == 16, ch, ch.loc(n.ast), "convergent key is truncated to %r bytes, expected 16" % (tv,))
        # (b) the caller: positions of the parameters
        kc = idx.func(FH + "._get_encryption_key_convergent")
        holders = [f for f in [kc] + list(kc.nested.values()) if calls_in_func(f, "convergence_hasher")]
        if len(holders) != 1:
            raise AnchorVanished("call of convergence_hasher in FileHandle._get_encryption_key_convergent")
        g = holders[0]
        gcfg = g.cfg()
        gnorm = FlowNorm(g)
        hcall = calls_in_func(g, "convergence_hasher")[0]
        hnode = node_of(gcfg, hcall)
        r.site(g, hcall, "hasher construction")
        gp = first_positional_params(g)
        if g is kc or not gp:
            raise AnchorVanished("callback receiving the encoding-parameter tuple")
        P = gp[0]
        want = ["%s[0]" % P, "%s[2]" % P, "%s[3]" % P, "self.convergence"]
        names = ["k (required shares)", "n (total shares)", "segment size", "convergence secret"]
        callee_ps = cps
        for i, (w, nm) in enumerate(zip(want, names)):
            a = arg(hcall, i, callee_ps[i])
            got = gnorm.norm(hnode, a) if a is not None else None
            r.require(got == w, g, g.loc(hcall), "convergence_hasher gets %s as %s, expected %s (tuple order is "
                      "k, happy, n, segsize)" % (got, nm, w))
        # the callback is fed by get_all_encoding_parameters()
        regs = registrations(kc)
        mine = [x for x in regs if isinstance(x.target, ast.Name) and x.target.id == g.name and x.kind == "cb"]
        if not mine:
            raise AnchorVanished("%s is not registered as a callback" % g.name)
        chain = [x for x in regs if x.recv == mine[0].recv]
        i = chain.index(mine[0])
        prev = chain[i - 1] if i > 0 else None
        ok = prev is not None and prev.kind == "cb" and any(
            call_name(c) == "self.get_all_encoding_parameters" for c in lambda_calls(prev.target))
        r.require(ok, kc, kc.loc(mine[0].call), "%s is not fed by self.get_all_encoding_parameters() (previous "
                  "callback: %r)" % (g.name, prev))
        # (c) the producer of the tuple
        bu = idx.func(UP + "BaseUploadable.get_all_encoding_parameters")
        inner = bu.nested.get("_got_size")
        if inner is None:
            raise AnchorVanished("BaseUploadable.get_all_encoding_parameters._got_size")
        tuples = [x.value for x in func_own_nodes(inner) if isinstance(x, ast.Assign)
                  and isinstance(x.value, ast.Tuple) and len(x.value.elts) == 4]
        if not tuples:
            raise AnchorVanished("no 4-tuple of encoding parameters built in _got_size")
        for t in tuples:
            r.site(inner, t, "parameter tuple")
            for pos, key, others in ((0, "encoding_param_k", ("encoding_param_n", "encoding_param_happy")),
                                     (2, "encoding_param_n", ("encoding_param_k", "encoding_param_happy"))):
                dep = deps_through(inner, bu, t.elts[pos])
                ok = any(d.endswith(key) for d in dep) and not any(d.endswith(o) for d in dep for o in others)
                r.require(ok, inner, inner.loc(t), "element %d of the encoding-parameter tuple (%s) is not the %s "
                          "setting" % (pos, src(inner, t.elts[pos]), key))
            dep = deps_through(inner, bu, t.elts[3])
            r.require(any(d.endswith("max_segment_size") for d in dep), inner, inner.loc(t),
                      "element 3 of the encoding-parameter tuple (%s) is not derived from the segment size" % src(inner, t.elts[3]))
        # (c') an explicitly set k / n / max segment size wins over the default, the default is used otherwise.
        # Decided by evaluating the defining expression (or / and / conditional expressions over attribute
        # leaves) with the setting truthy and with the setting None; other shapes are left to (c).
        odefs = def_exprs(bu)
        used_inside = {x.id for x in ast.walk(inner.node) if isinstance(x, ast.Name) and isinstance(x.ctx, ast.Load)}
        for setting in ("encoding_param_k", "encoding_param_n", "max_segment_size"):
            opath = "self." + setting
            for var, exprs in sorted(odefs.items()):
                if var not in used_inside or len(exprs) != 1 or opath not in {attr_path(x) for x in ast.walk(exprs[0]) if isinstance(x, ast.Attribute)}:
                    continue
                when_set = _choose(exprs[0], opath, True, odefs)
                when_unset = _choose(exprs[0], opath, False, odefs)
                if when_set is None or when_unset is None:
                    continue
                r.require(when_set[0] == opath, bu, bu.loc(exprs[0]), "%s = %s: an explicitly set %s is ignored (the value "
                          "is %s), so changing that setting does not change the key / storage index" % (
                              var, src(bu, exprs[0]), setting, when_set[0]))
                r.require(when_unset[0] not in (opath, "None"), bu, bu.loc(exprs[0]), "%s = %s: with %s unset the value is "
                          "%s, not the default" % (var, src(bu, exprs[0]), setting, when_unset[0]))
        # (d) the read loop
        hv = None
        if isinstance(hnode.ast, ast.Assign) and len(hnode.ast.targets) == 1 and isinstance(hnode.ast.targets[0], ast.Name):
            hv = hnode.ast.targets[0].id
        if hv is None:
            raise AnchorVanished("the convergence hasher is not bound to a local")

        def on_handle(n, c):
            return isinstance(c.func, ast.Attribute) and gnorm.norm(n, c.func.value) == "self._filehandle"

        def read_var(n):
            a = n.ast
            if n.kind == "stmt" and isinstance(a, ast.Assign) and len(a.targets) == 1 and isinstance(a.targets[0], ast.Name) \
                    and isinstance(a.value, ast.Call) and call_tail(a.value) == "read" and on_handle(n, a.value):
                return a.targets[0].id
            return None

        def is_digest(n):
            return any(isinstance(c.func, ast.Attribute) and c.func.attr == "digest" and isinstance(c.func.value, ast.Name)
                       and c.func.value.id == hv for c in node_calls(n))

        def updates(n, var):
            return any(isinstance(c.func, ast.Attribute) and c.func.attr == "update" and isinstance(c.func.value, ast.Name)
                       and c.func.value.id == hv and len(c.args) == 1 and isinstance(c.args[0], ast.Name)
                       and c.args[0].id == var for c in node_calls(n))

        is_rewind = _is_rewind

        def seeks(n):
            """'rewind' / 'moved' for the last seek on the file handle in statement n, else None."""
            out = None
            for c in calls_at(n, "seek"):
                if on_handle(n, c):
                    out = "rewind" if is_rewind(c) else "moved"
            return out

        def rewinds(n):
            return seeks(n) == "rewind"
        reads = [n for n in gcfg.nodes if read_var(n)]
        digs = [n for n in gcfg.nodes if is_digest(n)]
        if not reads:
            raise AnchorVanished("no 'x = self._filehandle.read(..)' in %s" % short(g))
        if not digs:
            raise AnchorVanished("no %s.digest() in %s" % (hv, short(g)))
        for n in reads:
            r.site(g, n.ast, "chunk read")
        # state: (name of an unhashed chunk or None, saw the empty read, file rewound, hasher reassigned)
        problems = {}

        def tr(n, lab, nxt, st):
            if lab == "exc" or infeasible(n, lab):
                return None
            pend, eof, rew, moved = st
            if n.kind == "stmt":
                rv = read_var(n)
                if rv:
                    pend, eof, rew = rv, False, False
                elif pend and updates(n, pend):
                    pend = None
                elif pend and pend in node_stores(n):
                    pend = "<overwritten %s>" % pend
                sk = seeks(n)
                if sk == "rewind":
                    rew, moved = True, False
                elif sk == "moved":
                    rew, moved = False, True
            elif n.kind == "test" and pend and empty_read_edge(n, lab, pend):
                pend, eof = None, True
            return (pend, eof, rew, moved)
        visited, parent = explore(gcfg, (None, False, True, False), tr)
        r.count(len(visited))
        for (nid, st) in sorted(visited, key=lambda x: (x[0], str(x[1]))):
            n = gcfg.nodes[nid]
            pend, eof, rew, moved = st
            if moved and read_var(n):
                problems.setdefault(("moved", nid), (n, "the file is read for the key after a seek to a position other "
                                                     "than its start: part of the plaintext is not hashed into the key",
                                                     witness(gcfg, parent, (nid, st))))
            if pend and (read_var(n) or is_digest(n)):
                problems.setdefault(("dropped", nid), (n, "a chunk read from the file (%s) can reach %s without "
                                                       "%s.update(..)" % (pend, "the next read" if read_var(n) else "the digest", hv),
                                                       witness(gcfg, parent, (nid, st))))
            if is_digest(n) and not eof:
                problems.setdefault(("eof", nid), (n, "the key is finalised on a path that did not read the file up "
                                                   "to the empty read", witness(gcfg, parent, (nid, st))))
            if n.kind == "exit" and not rew:
                problems.setdefault(("rewind", nid), (n, "the file is not rewound (seek(0)) after hashing: the upload "
                                                      "would then read no data", witness(gcfg, parent, (nid, st))))
        for (n, msg, w) in problems.values():
            r.violation(g, g.loc(n.ast), "%s (path: %s)" % (msg, w.brief()), w)
        # the key stored / returned is the digest
        ks = gcfg.find(stores("self._key"))
        r.require(bool(ks), g, g.loc(), "%s no longer stores self._key" % short(g))
        for n in ks:
            v = assign_value(n, "self._key")
            v = gnorm.resolve(n, v) if isinstance(v, ast.Name) else v
            ok = isinstance(v, ast.Call) and isinstance(v.func, ast.Attribute) and v.func.attr == "digest" \
                and isinstance(v.func.value, ast.Name) and v.func.value.id == hv and not v.args
            r.require(ok, g, g.loc(n.ast), "self._key is %s, not %s.digest()" % (src(g, v), hv))
        for n in gcfg.find(is_return):
            v = n.ast.value
            ok = v is not None and (attr_path(v) == "self._key" or (isinstance(gnorm.resolve(n, v), ast.Call) and is_digest(n)))
            r.require(ok, g, g.loc(n.ast), "%s returns %s, not the key" % (short(g), src(g, v)))

    # -- 2. key choice, storage index, read cap ------------------------------
    with ctx.rule("C05.2", "R1/R7", "convergent branch iff self.convergence is not None; random key = os.urandom(16); "
                  "storage index = storage_index_hash(key); encryptor and read cap use the same key", expected=7) as r:
        fn = idx.func(FH + ".get_encryption_key")
        cfg = fn.cfg()
        fnorm = FlowNorm(fn)

        def conv_fact(want_op):
            def g(n, lab):
                f = fnorm.edge_fact(n, lab)
                return bool(f) and f[0] == want_op and {f[1], f[2]} == {"None", "self.convergence"}
            return g
        for tail, op, what in (("_get_encryption_key_convergent", "is not", "a convergence secret is set"),
                               ("_get_encryption_key_random", "is", "no convergence secret is set")):
            t = has_call(tail)
            if not cfg.find(t):
                raise AnchorVanished("get_encryption_key no longer calls %s" % tail)
            r.site(fn, cfg.find(t)[0].ast, tail)
            for (n, w) in find_path_avoiding(cfg, t, gate_edge=conv_fact(op)):
                r.violation(fn, fn.loc(n.ast), "%s is used on a path where it is not established that %s "
                            "(path: %s)" % (tail, what, w.brief()), w)
        for n in cfg.find(is_return):
            ok = isinstance(n.ast.value, ast.Call) and call_tail(n.ast.value) in (
                "_get_encryption_key_convergent", "_get_encryption_key_random")
            r.require(ok, fn, fn.loc(n.ast), "get_encryption_key returns %s" % src(fn, n.ast.value))
        for w in reaches_exit_avoiding(cfg, is_return):
            r.violation(fn, fn.loc(), "get_encryption_key can return None", w)
        # random key
        rk = idx.func(FH + "._get_encryption_key_random")
        r.site(rk, None, "random key")
        st = rk.cfg().find(stores("self._key"))
        if not st:
            raise AnchorVanished("_get_encryption_key_random no longer stores self._key")
        def urandom16(f, v):
            if not (isinstance(v, ast.Call) and call_name(v) == "os.urandom" and len(v.args) == 1 and not v.keywords):
                return False
            try:
                return folder.fold(v.args[0], f.module, f.cls) == 16
            except NotConstant:
                return False
        for n in st:
            v = assign_value(n, "self._key")
            ok = urandom16(rk, v)
            if not ok and isinstance(v, ast.Call) and call_tail(v) == "random_key" and not v.args:
                # hashutil.random_key() is the same source
                hk = idx.func("util.hashutil:random_key")
                hr = hk.cfg().find(is_return)
                ok = bool(hr) and all(urandom16(hk, x.ast.value) for x in hr)
            r.require(ok, rk, rk.loc(n.ast), "random key is %s, expected os.urandom(16)" % src(rk, v))
        # convergence stored / passed through
        init = idx.func(FH + ".__init__")
        ip = first_positional_params(init)
        if "convergence" not in ip:
            raise AnchorVanished("FileHandle.__init__(filehandle, convergence)")
        st = init.cfg().find(stores("self.convergence"))
        r.require(bool(st), init, init.loc(), "FileHandle.__init__ no longer stores self.convergence")
        for n in st:
            v = assign_value(n, "self.convergence")
            r.require(isinstance(v, ast.Name) and v.id == "convergence", init, init.loc(n.ast),
                      "self.convergence is set to %s" % src(init, v))
        for (f, nd) in cg.attr_stores("convergence"):
            if f.cls is not None and (f.cls.name == "FileHandle" or f.cls.is_subclass_of("FileHandle")) and f.qual != init.qual:
                r.violation(f, f.loc(nd), "%s re-binds self.convergence" % short(f))
        nsub = 0
        for sub in idx.subclasses(idx.cls(FH)):
            si = sub.methods.get("__init__")
            if si is None:
                continue
            nsub += 1
            cs = [c for c in calls_in_func(si, "__init__") if call_name(c).endswith("FileHandle.__init__")
                  or (isinstance(c.func, ast.Attribute) and isinstance(c.func.value, ast.Call)
                      and call_tail(c.func.value) == "super")]
            if not r.require(bool(cs), si, si.loc(), "%s does not call FileHandle.__init__" % short(si)):
                continue
            for c in cs:
                off = 1 if call_name(c).endswith("FileHandle.__init__") else 0
                a = kwarg(c, "convergence") or (c.args[ip.index("convergence") + off]
                                                if len(c.args) > ip.index("convergence") + off else None)
                ok = isinstance(a, ast.Name) and a.id == "convergence" and "convergence" in si.params
                r.require(ok, si, si.loc(c), "%s passes convergence=%s to FileHandle.__init__, not its own "
                          "convergence argument" % (short(si), src(si, a)))
        r.site(init, None, "convergence stored; %d subclasses pass it through" % nsub)
        # storage index
        cu = idx.func("uri:CHKFileURI.__init__")
        r.site(cu, None, "CHKFileURI storage index")
        cn = FlowNorm(cu)
        st = cu.cfg().find(stores("self.storage_index"))
        if not st:
            raise AnchorVanished("CHKFileURI.__init__ no longer stores self.storage_index")
        kparam = first_positional_params(cu)[0]
        keyst = cu.cfg().find(stores("self.key"))
        for n in keyst:
            v = assign_value(n, "self.key")
            r.require(isinstance(v, ast.Name) and v.id == kparam, cu, cu.loc(n.ast), "self.key is %s" % src(cu, v))
        for n in st:
            v = assign_value(n, "self.storage_index")
            got = cn.norm(n, v) if v is not None else ""
            ok = re.match(r"^(\w+\.)*storage_index_hash\((self\.key|%s)\)$" % re.escape(kparam), got) is not None
            r.require(ok, cu, cu.loc(n.ast), "CHK storage index is %s, expected storage_index_hash(key)" % got)
        ge = idx.func(UP + "EncryptAnUploadable._get_encryptor")
        inner = [f for f in ge.nested.values() if calls_in_func(f, "storage_index_hash")]
        if len(inner) != 1:
            raise AnchorVanished("callback computing the storage index in EncryptAnUploadable._get_encryptor")
        g = inner[0]
        r.site(g, None, "uploader storage index")
        gk = first_positional_params(g)[0]
        gn = FlowNorm(g)
        for n in g.cfg().find(stores("self._storage_index")):
            got = gn.norm(n, assign_value(n, "self._storage_index"))
            r.require(re.match(r"^(\w+\.)*storage_index_hash\(%s\)$" % re.escape(gk), got) is not None, g, g.loc(n.ast),
                      "upload storage index is %s, expected storage_index_hash(%s)" % (got, gk))
        if not g.cfg().find(stores("self._storage_index")):
            raise AnchorVanished("self._storage_index store")
        encs = calls_in_func(g, "create_encryptor")
        r.require(bool(encs), g, g.loc(), "no create_encryptor call next to the storage index computation")
        for c in encs:
            a = arg(c, 0, "key")
            r.require(isinstance(a, ast.Name) and a.id == gk, g, g.loc(c), "the encryptor key is %s, the storage index "
                      "is derived from %s" % (src(g, a), gk))
        regs = registrations(ge)
        fed = [x for x in regs if isinstance(x.target, ast.Name) and x.target.id == g.name and x.kind == "cb"]
        dsrc = [a.value for a in func_own_nodes(ge) if isinstance(a, ast.Assign) and fed
                and attr_path(a.targets[0]) == fed[0].recv]
        ok = bool(fed) and any(isinstance(v, ast.Call) and call_name(v) == "self.original.get_encryption_key" for v in dsrc)
        r.require(ok, ge, ge.loc(), "%s is not fed by self.original.get_encryption_key()" % g.name)
        # read cap
        up = idx.func(UP + "Uploader.upload")
        holder = [f for f in _descendants(up) if calls_in_func(f, "CHKFileURI")]
        if len(holder) != 1:
            raise AnchorVanished("construction of the read cap (CHKFileURI) in Uploader.upload")
        h = holder[0]
        r.site(h, None, "read cap")
        hn = FlowNorm(h)
        hk = first_positional_params(h)[0]
        cparams = first_positional_params(cu)
        for c in calls_in_func(h, "CHKFileURI"):
            node = node_of(h.cfg(), c)
            a0 = arg(c, 0, cparams[0])
            r.require(isinstance(a0, ast.Name) and a0.id == hk, h, h.loc(c), "read-cap key is %s, not the key "
                      "delivered by get_encryption_key()" % src(h, a0))
            for i, pn in enumerate(cparams[1:], 1):
                a = arg(c, i, pn)
                got = hn.norm(node, a) if a is not None else None
                ok = got is not None and re.match(
                    r"^(\w+\.)*from_string\(\w+\.get_verifycapstr\(\)\)\.%s$" % re.escape(pn), got) is not None
                r.require(ok, h, h.loc(c), "CHKFileURI(%s=%s): expected field %s of the verify cap" % (pn, got, pn))
        par = h.parent
        pregs = registrations(par) if par is not None else []
        fed = [x for x in pregs if isinstance(x.target, ast.Name) and x.target.id == h.name and x.kind == "cb"]
        dsrc = [a.value for a in func_own_nodes(par) if isinstance(a, ast.Assign) and fed
                and attr_path(a.targets[0]) == fed[0].recv] if par is not None else []
        ok = bool(fed) and any(isinstance(v, ast.Call) and call_tail(v) == "get_encryption_key"
                               and attr_path(v.func.value) == "uploadable" for v in dsrc) \
            and [x for x in pregs if x.recv == fed[0].recv][0] is fed[0]
        r.require(ok, h, h.loc(), "%s is not the first callback of uploadable.get_encryption_key()" % h.name)

    # -- 3. literal routing --------------------------------------------------
    with ctx.rule("C05.3", "R1/E5", "Uploader.upload: LiteralUploader iff size <= URI_LIT_SIZE_THRESHOLD (= 55), "
                  "CHK/helper upload only for strictly larger sizes; size is uploadable.get_size()", expected=3) as r:
        ucls = idx.cls(UP + "Uploader")
        try:
            thr = folder.class_attr(ucls, "URI_LIT_SIZE_THRESHOLD")
        except NotConstant:
            thr = None
        r.site("Uploader.URI_LIT_SIZE_THRESHOLD = %r" % (thr,))
        r.require(thr == 55, ucls.qual, "src/allmydata/immutable/upload.py", "URI_LIT_SIZE_THRESHOLD folds to %r, "
                  "expected 55 (compat-frozen: it decides which files get LIT caps)" % (thr,))
        r.require(len(ucls.attrs.get("URI_LIT_SIZE_THRESHOLD", [])) == 1, ucls.qual, "src/allmydata/immutable/upload.py",
                  "URI_LIT_SIZE_THRESHOLD is assigned more than once in class Uploader")
        for (f, nd) in cg.attr_stores("URI_LIT_SIZE_THRESHOLD"):
            r.violation(f, f.loc(nd), "%s overwrites URI_LIT_SIZE_THRESHOLD" % short(f))
        for sub in idx.subclasses(ucls):
            if "URI_LIT_SIZE_THRESHOLD" in sub.attrs:
                r.violation(sub.qual, "src/allmydata", "subclass %s overrides URI_LIT_SIZE_THRESHOLD" % sub.qual)
        up = idx.func(UP + "Uploader.upload")
        holder = [f for f in _descendants(up) if calls_in_func(f, "LiteralUploader")]
        if len(holder) != 1:
            raise AnchorVanished("construction of LiteralUploader in Uploader.upload")
        g = holder[0]
        cfg = g.cfg()
        gn = FlowNorm(g)
        sp = first_positional_params(g)
        if not sp:
            raise AnchorVanished("size callback of Uploader.upload")
        size = sp[0]
        thr_re = re.compile(r"^(self|Uploader|\w+)\.URI_LIT_SIZE_THRESHOLD$")

        def lit_edge(n, lab):
            f = gn.edge_fact(n, lab)
            if not f:
                return False
            op, l, rr = f
            if op == "<=" and l == size and thr_re.match(rr or ""):
                return True
            return thr == 55 and ((op == "<=" and l == size and rr == "55") or (op == "<" and l == size and rr == "56"))

        def chk_edge(n, lab):
            f = gn.edge_fact(n, lab)
            if not f:
                return False
            op, l, rr = f
            if op == "<" and rr == size and thr_re.match(l or ""):
                return True
            return thr == 55 and ((op == "<" and l == "55" and rr == size) or (op == "<=" and l == "56" and rr == size))
        kill = stores(size)
        lit = has_call("LiteralUploader")
        r.site(g, cfg.find(lit)[0].ast, "literal branch")
        for (n, w) in find_path_avoiding(cfg, lit, gate_edge=lit_edge, kill=kill):
            r.violation(g, g.loc(n.ast), "LiteralUploader is chosen on a path without %s <= URI_LIT_SIZE_THRESHOLD "
                        "(path: %s)" % (size, w.brief()), w)
        big = has_call(("EncryptAnUploadable", "CHKUploader", "AssistedUploader"))
        if not cfg.find(big):
            raise AnchorVanished("CHK upload branch in %s" % short(g))
        r.site(g, cfg.find(big)[0].ast, "CHK branch")
        for (n, w) in find_path_avoiding(cfg, big, gate_edge=chk_edge, kill=kill):
            r.violation(g, g.loc(n.ast), "a CHK upload is started on a path without URI_LIT_SIZE_THRESHOLD < %s: "
                        "files of at most 55 bytes must get a literal cap (path: %s)" % (size, w.brief()), w)
        # the literal uploader's result is what the callback returns on that branch
        for n in cfg.find(lit):
            v = n.ast.targets[0].id if isinstance(n.ast, ast.Assign) and isinstance(n.ast.targets[0], ast.Name) else None
            started = lambda m, _v=v: any(isinstance(c.func, ast.Attribute) and c.func.attr == "start" and (
                (isinstance(c.func.value, ast.Name) and c.func.value.id == _v) or
                (isinstance(c.func.value, ast.Call) and call_tail(c.func.value) == "LiteralUploader"))
                for c in node_calls(m)) and is_return(m)
            w = [x for x in _from_node_to_exit_avoiding(cfg, n, started)]
            for ww in w:
                r.violation(g, g.loc(n.ast), "the literal branch does not return LiteralUploader().start(..) "
                            "(path: %s)" % ww.brief(), ww)
        # size comes from uploadable.get_size()
        regs = registrations(up)
        fed = [x for x in regs if isinstance(x.target, ast.Name) and x.target.id == g.name and x.kind == "cb"]
        dsrc = [a.value for a in func_own_nodes(up) if isinstance(a, ast.Assign) and fed
                and attr_path(a.targets[0]) == fed[0].recv]
        ok = bool(fed) and any(isinstance(v, ast.Call) and call_name(v) == "uploadable.get_size" for v in dsrc) \
            and [x for x in regs if x.recv == fed[0].recv][0] is fed[0]
        r.require(ok, up, up.loc(), "%s is not the first callback of uploadable.get_size()" % g.name)

    # -- 4. the literal uploader ---------------------------------------------
    with ctx.rule("C05.4", "R7/R4", "LiteralUploader embeds b''.join(read_this_many_bytes(uploadable, size)) in "
                  "LiteralFileURI; accumulation keeps every piece in order; no server contact; LiteralFileURI / "
                  "LiteralFileNode use only the embedded data", expected=5) as r:
        st = idx.func(UP + "LiteralUploader.start")
        r.site(st, None, "LiteralUploader.start")
        regs = registrations(st)
        mk = [x for x in regs if x.kind == "cb" and any(call_tail(c) == "LiteralFileURI" for c in lambda_calls(x.target))]
        if not mk:
            raise AnchorVanished("callback building LiteralFileURI in LiteralUploader.start")
        x = mk[0]
        lam = x.target
        lp = lam.args.args[0].arg if lam.args.args else None
        c = [c for c in lambda_calls(lam) if call_tail(c) == "LiteralFileURI"][0]
        a0 = arg(c, 0, "data")
        ok = isinstance(a0, ast.Call) and isinstance(a0.func, ast.Attribute) and a0.func.attr == "join" \
            and isinstance(a0.func.value, ast.Constant) and a0.func.value.value == b"" \
            and len(a0.args) == 1 and isinstance(a0.args[0], ast.Name) and a0.args[0].id == lp
        r.require(ok, st, st.loc(c), "the literal cap embeds %s, expected b''.join(<all data read>)" % src(st, a0))
        chain = [y for y in regs if y.recv == x.recv]
        i = chain.index(x)
        prev = chain[i - 1] if i > 0 else None
        pf = st.nested.get(prev.target.id) if prev is not None and isinstance(prev.target, ast.Name) else None
        if pf is None or prev.kind != "cb":
            r.violation(st, st.loc(x.call), "the data embedded in the literal cap does not come from a size callback")
        else:
            pp = first_positional_params(pf)[0]
            for n in pf.cfg().find(is_return):
                v = n.ast.value
                ok = isinstance(v, ast.Call) and call_tail(v) == "read_this_many_bytes" and len(v.args) == 2 \
                    and attr_path(v.args[0]) == "uploadable" and isinstance(v.args[1], ast.Name) and v.args[1].id == pp
                r.require(ok, pf, pf.loc(n.ast), "literal data is %s, expected read_this_many_bytes(uploadable, %s)" % (
                    src(pf, v), pp))
            for w in reaches_exit_avoiding(pf.cfg(), is_return):
                r.violation(pf, pf.loc(), "%s can return None instead of the data" % short(pf), w)
            dsrc = [a.value for a in func_own_nodes(st) if isinstance(a, ast.Assign) and attr_path(a.targets[0]) == x.recv]
            r.require(chain[0] is prev and any(isinstance(v, ast.Call) and call_name(v) == "uploadable.get_size" for v in dsrc),
                      st, st.loc(), "the size used for the literal read is not uploadable.get_size()")
        # result delivered: to_string of that URI goes into the results
        names_after = [y.target_name() for y in chain[i + 1:]]
        r.require(any(nm.endswith("_build_results") for nm in names_after) and any(
            call_tail(cc) == "to_string" for y in chain[i + 1:] for cc in lambda_calls(y.target)), st, st.loc(),
            "the LiteralFileURI is not turned into the result cap (to_string, _build_results)")
        # read_this_many_bytes keeps every piece, in order
        rt = idx.func(UP + "read_this_many_bytes")
        r.site(rt, None, "read_this_many_bytes")
        rps = first_positional_params(rt)
        if len(rps) < 3:
            raise AnchorVanished("read_this_many_bytes(uploadable, size, prepend_data)")
        upar, spar, ppar = rps[0], rps[1], rps[2]
        cbs = [f for f in rt.nested.values()]
        regs = registrations(rt)
        got = [f for f in cbs if any(isinstance(y.target, ast.Name) and y.target.id == f.name for y in regs)]
        if len(got) != 1:
            raise AnchorVanished("data callback of read_this_many_bytes")
        gf = got[0]
        dpar = first_positional_params(gf)[0]
        gfn = FlowNorm(gf)
        acc = "%s + %s" % (ppar, dpar)

        def concat(n, e):
            """e is <accumulated> + <new data>, in this order (list concatenation is not commutative,
            the arithmetic normal form cannot be used)."""
            e = gfn.resolve(n, e)
            if not (isinstance(e, ast.BinOp) and isinstance(e.op, ast.Add)):
                return False
            l, rr = gfn.resolve(n, e.left), gfn.resolve(n, e.right)
            return isinstance(l, ast.Name) and l.id == ppar and isinstance(rr, ast.Name) and rr.id == dpar
        rem = re.compile(r"^\(%s \+ -1\*sum\(\[len\((\w+)\) for \1 in %s\]\)\)$" % (re.escape(spar), re.escape(dpar)))
        rets = gf.cfg().find(is_return)
        r.require(bool(rets), gf, gf.loc(), "read_this_many_bytes callback returns nothing")
        for n in rets:
            v = gfn.resolve(n, n.ast.value)
            if isinstance(v, ast.Call) and call_tail(v) == "read_this_many_bytes":
                a = [arg(v, 0, upar), arg(v, 1, spar), arg(v, 2, ppar)]
                ok = a[0] is not None and attr_path(a[0]) == upar and a[2] is not None and concat(n, a[2])
                r.require(ok, gf, gf.loc(n.ast), "the recursive read passes %s as accumulated data, expected %s" % (
                    src(gf, a[2]), acc))
                remn = gfn.norm(n, a[1]) if a[1] is not None else ""
                r.require(rem.match(remn) is not None, gf, gf.loc(n.ast), "the recursive read asks for %s bytes, "
                          "expected %s minus the bytes just received" % (remn, spar))
            else:
                r.require(concat(n, n.ast.value), gf, gf.loc(n.ast), "read_this_many_bytes delivers %s, "
                          "expected %s (every piece, in order)" % (src(gf, n.ast.value), acc))
        # the recursion stops only when nothing remains

        def nothing_left(n, lab):
            f = gfn.edge_fact(n, lab)
            return bool(f) and ((f[0] == "false" and rem.match(f[1] or "") is not None) or
                                (f[0] == "==" and "0" in (f[1], f[2]) and any(rem.match(s or "") for s in (f[1], f[2]))))
        finals = lambda n: is_return(n) and not contains_call(n.ast, "read_this_many_bytes")
        for (n, w) in find_path_avoiding(gf.cfg(), finals, gate_edge=nothing_left):
            r.violation(gf, gf.loc(n.ast), "read_this_many_bytes can deliver before %s bytes were read "
                        "(path: %s)" % (spar, w.brief()), w)
        # the outer function: every result is the Deferred of uploadable.read(size) with that callback, except
        # when nothing was asked for (size == 0), where an empty / the accumulated list is delivered
        greg = [y for y in regs if isinstance(y.target, ast.Name) and y.target.id == gf.name][0]
        rcfg = rt.cfg()
        rfn = FlowNorm(rt)
        r.require(greg.kind == "cb" and [y for y in regs if y.recv == greg.recv][0] is greg, rt, rt.loc(greg.call),
                  "%s is not the first callback of the read" % gf.name)
        dsrc = [a.value for a in func_own_nodes(rt) if isinstance(a, ast.Assign) and attr_path(a.targets[0]) == greg.recv]
        ok = bool(dsrc) and all(isinstance(v, ast.Call) and call_name(v) == "%s.read" % upar and len(v.args) == 1
                                and not v.keywords and isinstance(v.args[0], ast.Name) and v.args[0].id == spar for v in dsrc)
        r.require(ok, rt, rt.loc(), "the data handed to %s is not %s.read(%s)" % (gf.name, upar, spar))
        for kn in rcfg.find(stores(spar)):
            r.violation(rt, rt.loc(kn.ast), "read_this_many_bytes re-binds %s" % spar)

        def none_wanted(n, lab):
            f = rfn.edge_fact(n, lab)
            if not f:
                return False
            op, l, rr = f
            return (op == "false" and l == spar) or (op == "==" and {l, rr} == {spar, "0"}) or \
                (op == "<=" and (l, rr) == (spar, "0")) or (op == "<" and (l, rr) == (spar, "1"))

        def early(n):
            return is_return(n) and not (n.ast.value is not None and attr_path(n.ast.value) == greg.recv)
        for (n, w) in find_path_avoiding(rcfg, early, gate_edge=none_wanted):
            r.violation(rt, rt.loc(n.ast), "read_this_many_bytes returns %s without reading although %s may be non-zero: "
                        "the literal cap would not embed the data (path: %s)" % (src(rt, n.ast.value), spar, w.brief()), w)
        for n in rcfg.find(early):
            v = rfn.resolve(n, n.ast.value) if n.ast.value is not None else None
            # all callers are Deferred callbacks, so the bare list is as good as succeed(list)
            a = v.args[0] if isinstance(v, ast.Call) and call_tail(v) == "succeed" and len(v.args) == 1 else v
            a = rfn.resolve(n, a) if a is not None else None
            if isinstance(a, ast.Name) and a.id != ppar:        # a list literal bound to a local is not substituted
                a = sole_def(rfn, n, a.id) or a
            ok = a is not None and ((isinstance(a, ast.List) and not a.elts) or (isinstance(a, ast.Name) and a.id == ppar)
                                    or (isinstance(a, ast.Call) and call_name(a) == "list" and not a.args))
            r.require(ok, rt, rt.loc(n.ast), "for %s == 0 read_this_many_bytes returns %s, expected the "
                      "empty / accumulated list (succeed([]))" % (spar, src(rt, n.ast.value)))
        for w in reaches_exit_avoiding(rcfg, is_return):
            r.violation(rt, rt.loc(), "read_this_many_bytes can return None instead of the Deferred", w)
        # no server contact from the literal uploader
        lu = idx.cls(UP + "LiteralUploader")
        reach = cg.reachable(list(lu.methods.values()) + [rt, gf])
        r.site("LiteralUploader reachable functions: %d" % len(reach))
        r.count(len(reach))
        for q in sorted(reach):
            if not q.startswith("allmydata.immutable.upload:") or q not in idx.funcs:
                continue
            f = idx.funcs[q]
            for c in calls_in_func(f, None, into_lambda=True):
                if call_tail(c) in REMOTE_TAILS:
                    r.violation(f, f.loc(c), "the literal upload path contacts servers: %s in %s" % (src(f, c), short(f)))
        for m in lu.methods.values():
            for c in calls_in_func(m, None, into_lambda=True):
                if call_tail(c) in REMOTE_TAILS or call_tail(c) in ("CHKUploader", "AssistedUploader", "EncryptAnUploadable"):
                    r.violation(m, m.loc(c), "LiteralUploader uses %s" % src(m, c))
        # LiteralFileURI
        li = idx.func("uri:LiteralFileURI.__init__")
        lt = idx.func("uri:LiteralFileURI.to_string")
        r.site(li, None, "LiteralFileURI")
        dp = first_positional_params(li)[0]
        sts = li.cfg().find(stores("self.data"))
        r.require(bool(sts), li, li.loc(), "LiteralFileURI.__init__ no longer stores self.data")
        for n in sts:
            v = assign_value(n, "self.data")
            r.require(isinstance(v, ast.Name) and v.id == dp, li, li.loc(n.ast), "LiteralFileURI.data is %s" % src(li, v))
        ltn = FlowNorm(lt)
        for n in lt.cfg().find(is_return):
            v = ltn.resolve(n, n.ast.value)
            ok = isinstance(v, ast.BinOp) and isinstance(v.op, ast.Mod) and isinstance(v.left, ast.Constant) \
                and v.left.value == b"URI:LIT:%s" and re.match(r"^(\w+\.)*b2a\(self\.data\)$", ltn.norm(n, v.right) if not
                                                                 isinstance(v.right, ast.Tuple) else ltn.norm(n, v.right.elts[0]))
            r.require(bool(ok), lt, lt.loc(n.ast), "LiteralFileURI.to_string is %s, expected b'URI:LIT:%%s' %% "
                      "base32.b2a(self.data)" % src(lt, v))
        # LiteralFileNode
        lm = idx.module("allmydata.immutable.literal")
        node = idx.cls("immutable.literal:LiteralFileNode")
        r.site("immutable.literal imports: %d" % len(lm.imports))
        for name, target in lm.imports.items():
            t = target if isinstance(target, str) else str(target)
            if re.search(r"allmydata\.(storage_client|immutable\.(upload|downloader|encode|layout)|storage)\b", t):
                r.violation(lm.name, "src/allmydata/immutable/literal.py", "literal.py imports %s: literal files need no servers" % t)
        for m in node.methods.values():
            for c in calls_in_func(m, None, into_lambda=True):
                if call_tail(c) in REMOTE_TAILS:
                    r.violation(m, m.loc(c), "LiteralFileNode.%s contacts servers: %s" % (m.name, src(m, c)))
        rd = idx.func("immutable.literal:LiteralFileNode.read")
        rdefs = def_exprs(rd)
        served = calls_in_func(rd, "BytesIO")
        r.require(bool(served), rd, rd.loc(), "LiteralFileNode.read no longer serves a BytesIO of the embedded data")
        for c in served:
            a = c.args[0] if c.args else None
            vals = rdefs.get(a.id, []) if isinstance(a, ast.Name) else ([a] if a is not None else [])
            r.require(bool(vals) and all(any(l == "self.u.data" or l.startswith("self.u.data.") for l in leaves(v))
                                         for v in vals), rd, rd.loc(c),
                      "LiteralFileNode.read serves %s, which is not always a slice of the embedded data" % src(rd, c))
        dl = idx.func("immutable.literal:LiteralFileNode.download_best_version")
        for n in dl.cfg().find(is_return):
            got = N(dl).norm(n.ast.value)
            r.require(re.match(r"^(\w+\.)*succeed\(self\.u\.data\)$", got) is not None, dl, dl.loc(n.ast),
                      "download_best_version returns %s" % got)

    # -- 5. chunk independence of hashing and encryption ---------------------
    with ctx.rule("C05.5", "R2/R7", "EncryptAnUploadable: every chunk read is hashed and encrypted first-in first-out "
                  "with the one encryptor and appended in order; what was read is what is processed", expected=2) as r:
        fn = idx.func(UP + "EncryptAnUploadable._hash_and_encrypt_plaintext")
        cfg = fn.cfg()
        fnorm = FlowNorm(fn)
        ps = first_positional_params(fn)
        dpar, hpar = ps[0], ps[1]
        r.site(fn, None, "_hash_and_encrypt_plaintext")
        encs = [n for n in cfg.nodes if n.kind == "stmt" and calls_at(n, "encrypt_data")]
        if not encs:
            raise AnchorVanished("no encrypt_data call in _hash_and_encrypt_plaintext")
        appended = None
        for n in encs:
            c = calls_at(n, "encrypt_data")[0]
            a0, a1 = arg(c, 0), arg(c, 1)
            r.require(a0 is not None and attr_path(a0) == "self._encryptor", fn, fn.loc(c),
                      "chunks are encrypted with %s, not the upload's single encryptor" % src(fn, a0))
            chunk = sole_def(fnorm, n, a1.id) if isinstance(a1, ast.Name) else a1
            ok = isinstance(chunk, ast.Call) and isinstance(chunk.func, ast.Attribute) and chunk.func.attr == "pop" \
                and attr_path(chunk.func.value) == dpar and len(chunk.args) == 1 \
                and isinstance(chunk.args[0], ast.Constant) and chunk.args[0].value == 0
            okfor = False
            if not ok and isinstance(a1, ast.Name):
                okfor = any(isinstance(x, ast.For) and isinstance(x.target, ast.Name) and x.target.id == a1.id
                            and attr_path(x.iter) == dpar for x in func_own_nodes(fn))
            r.require(ok or okfor, fn, fn.loc(c), "the chunk encrypted is %s, expected the chunks of %s in order "
                      "(%s.pop(0))" % (src(fn, chunk), dpar, dpar))
            cname = a1.id if isinstance(a1, ast.Name) else None
            # same chunk hashed
            hashed = [m for m in cfg.nodes if any(call_name(cc) == "self._plaintext_hasher.update" and cc.args
                                                  and isinstance(cc.args[0], ast.Name) and cc.args[0].id == cname
                                                  for cc in node_calls(m))]
            r.require(bool(hashed), fn, fn.loc(c), "the plaintext hasher is not updated with the chunk that is encrypted")
            # ciphertext appended unless hash_only
            tgt = n.ast.targets[0].id if isinstance(n.ast, ast.Assign) and isinstance(n.ast.targets[0], ast.Name) else None

            def appends(m, _t=tgt):
                for cc in calls_at(m, "append"):
                    if cc.args and ((isinstance(cc.args[0], ast.Name) and cc.args[0].id == _t) or
                                    (isinstance(cc.args[0], ast.Call) and call_tail(cc.args[0]) == "encrypt_data")):
                        return attr_path(cc.func.value)
                return None
            apps = [m for m in cfg.nodes if appends(m)]
            if not r.require(bool(apps), fn, fn.loc(c), "ciphertext is never appended to the result"):
                continue
            appended = appends(apps[0])

            def hash_only_edge(m, lab):
                f = fnorm.edge_fact(m, lab)
                return bool(f) and f[0] == "truth" and f[1] == hpar
            # from the encryption, the next loop round / exit is reached only through the append or under hash_only
            def tr(m, lab, nxt, st, _n=n):
                if lab == "exc" or infeasible(m, lab):
                    return None
                if st == 0:
                    return 1 if m is _n else None
                if appends(m) or hash_only_edge(m, lab):
                    return None
                return 1
            visited, parent = explore(cfg, 0, tr, start=n)
            for (nid, s) in sorted(visited):
                m = cfg.nodes[nid]
                if s == 1 and (m is n or m.kind == "exit" or is_return(m)):
                    r.violation(fn, fn.loc(c), "an encrypted chunk can be dropped when hash_only is false "
                                "(path: %s)" % witness(cfg, parent, (nid, s)).brief(), witness(cfg, parent, (nid, s)))
                    break
        # the loop consumes all of data: return only after `data` is empty

        def drained(m, lab):
            f = RAW.cmp(m.ast, lab[0] == "T") if m.kind == "test" and isinstance(lab, tuple) else None
            return bool(f) and f[0] == "false" and f[1] == dpar
        has_for = any(isinstance(x, ast.For) and attr_path(x.iter) == dpar for x in func_own_nodes(fn))
        for n in cfg.find(is_return):
            if appended is not None:
                r.require(attr_path(n.ast.value) == appended, fn, fn.loc(n.ast), "returns %s, not the accumulated "
                          "ciphertext %s" % (src(fn, n.ast.value), appended))
        if not has_for:
            for (n, w) in find_path_avoiding(cfg, is_return, gate_edge=drained):
                r.violation(fn, fn.loc(n.ast), "returns before every chunk of %s was processed (path: %s)" % (
                    dpar, w.brief()), w)
        # _read_encrypted hands exactly what it read to _hash_and_encrypt_plaintext
        re_ = idx.func(UP + "EncryptAnUploadable._read_encrypted")
        r.site(re_, None, "_read_encrypted")
        inner = [f for f in re_.nested.values() if calls_in_func(f, "_hash_and_encrypt_plaintext")]
        if len(inner) != 1:
            raise AnchorVanished("callback calling _hash_and_encrypt_plaintext in _read_encrypted")
        g = inner[0]
        gp = first_positional_params(g)[0]
        for c in calls_in_func(g, "_hash_and_encrypt_plaintext"):
            a0, a1 = arg(c, 0, dpar), arg(c, 1, hpar)
            r.require(isinstance(a0, ast.Name) and a0.id == gp, g, g.loc(c), "processes %s, not the data just read" % src(g, a0))
            r.require(isinstance(a1, ast.Name) and a1.id in re_.params and a1.id == hpar, g, g.loc(c),
                      "hash_only is %s" % src(g, a1))
        ext = calls_in_func(g, "extend")
        r.require(bool(ext), g, g.loc(), "the ciphertext is not added to the accumulator")
        gn = FlowNorm(g)
        for c in ext:
            node = node_of(g.cfg(), c)
            a = arg(c, 1, "ciphertext")
            got = gn.norm(node, a) if a is not None else ""
            r.require(re.match(r"^self\._hash_and_encrypt_plaintext\(%s, %s\)$" % (re.escape(gp), re.escape(hpar)), got)
                      is not None, g, g.loc(c), "the accumulator receives %s" % got)
        regs = registrations(re_)
        fed = [x for x in regs if isinstance(x.target, ast.Name) and x.target.id == g.name and x.kind == "cb"]
        dsrc = [a.value for a in func_own_nodes(re_) if isinstance(a, ast.Assign) and fed
                and attr_path(a.targets[0]) == fed[0].recv]
        ok = bool(fed) and any(isinstance(v, ast.Call) and any(attr_path(x) == "self.original.read" for x in ast.walk(v))
                               for v in dsrc) and [x for x in regs if x.recv == fed[0].recv][0] is fed[0]
        r.require(ok, re_, re_.loc(), "%s is not the first callback of self.original.read(..)" % g.name)

    # -- 6. the read cap reaches the upload results ---------------------------
    with ctx.rule("C05.6", "R1/R4", "the CHK read cap built from the key is stored with set_uri(cap.to_string()) in the "
                  "upload results on every path, the results are passed on, and that step is registered on the "
                  "Deferred the CHK branch of Uploader.upload returns", expected=3) as r:
        up = idx.func(UP + "Uploader.upload")
        holder = [f for f in _descendants(up) if calls_in_func(f, "CHKFileURI")]
        if len(holder) != 1 or holder[0].parent is None or holder[0].parent.parent is None:
            raise AnchorVanished("construction of the read cap (CHKFileURI) in nested callbacks of Uploader.upload")
        h = holder[0]
        par = h.parent
        top = par.parent
        hcfg = h.cfg()
        hn = FlowNorm(h)
        pps = first_positional_params(par)
        if not pps:
            raise AnchorVanished("%s takes the upload results" % short(par))
        res = pps[0]
        caps = calls_in_func(h, "CHKFileURI")

        def stores_cap(n):
            for c in calls_at(n, "set_uri"):
                if not (isinstance(c.func, ast.Attribute) and attr_path(c.func.value) == res):
                    continue
                a = arg(c, 0, "uri")
                a = hn.resolve(n, a) if a is not None else None
                if isinstance(a, ast.Call) and isinstance(a.func, ast.Attribute) and a.func.attr == "to_string" and not a.args \
                        and any(hn.resolve(n, a.func.value) is cc for cc in caps):
                    return True
            return False
        setters = hcfg.find(stores_cap)
        others = [n for n in hcfg.find(has_call("set_uri")) if not stores_cap(n)]
        if not setters and not others:
            r.violation(h, h.loc(), "the read cap is never stored in the upload results (no %s.set_uri(..)): the upload "
                        "returns no cap" % res)
        else:
            r.site(h, (setters or others)[0].ast, "set_uri")
        for n in others:
            r.violation(h, h.loc(n.ast), "%s is not %s.set_uri(<the CHKFileURI built from the key>.to_string())" % (
                src(h, n.ast), res))
        if setters:
            for w in reaches_exit_avoiding(hcfg, stores_cap):
                r.violation(h, h.loc(), "the read cap is not stored in the upload results on some path (path: %s)" % w.brief(), w)
        for n in hcfg.find(is_return):
            r.require(n.ast.value is not None and attr_path(n.ast.value) == res, h, h.loc(n.ast),
                      "%s returns %s, not the upload results %s" % (short(h), src(h, n.ast.value), res))
        for w in reaches_exit_avoiding(hcfg, is_return):
            r.violation(h, h.loc(), "%s can return None instead of the upload results" % short(h), w)
        for n in hcfg.find(stores(res)):
            r.violation(h, h.loc(n.ast), "%s re-binds %s" % (short(h), res))
        # the enclosing callback returns the Deferred that step is registered on
        pregs = registrations(par)
        fed = [x for x in pregs if isinstance(x.target, ast.Name) and x.target.id == h.name and x.kind == "cb"]
        if not fed:
            raise AnchorVanished("%s is not registered as a callback in %s" % (h.name, short(par)))
        r.site(par, fed[0].call, "key callback")
        for n in par.cfg().find(is_return):
            r.require(n.ast.value is not None and attr_path(n.ast.value) == fed[0].recv, par, par.loc(n.ast),
                      "%s returns %s, not the Deferred %s that delivers the results with the read cap" % (
                          short(par), src(par, n.ast.value), fed[0].recv))
        for w in reaches_exit_avoiding(par.cfg(), is_return):
            r.violation(par, par.loc(), "%s can return None instead of the Deferred of the results" % short(par), w)
        # ... and is itself registered on what the CHK branch returns
        tregs = registrations(top)
        tfed = [x for x in tregs if isinstance(x.target, ast.Name) and x.target.id == par.name]
        if not tfed:
            r.violation(top, top.loc(), "%s is not registered as a callback: CHK uploads deliver results without a "
                        "read cap" % par.name)
        else:
            x = tfed[0]
            r.site(top, x.call, "read-cap step registered")
            r.require(x.kind == "cb", top, top.loc(x.call), "%s is registered as %s, not as a callback" % (par.name, x.kind))
            tcfg = top.cfg()
            regnode = node_of(tcfg, x.call)
            big = has_call(("EncryptAnUploadable", "CHKUploader", "AssistedUploader"))
            starts = tcfg.find(big)
            if not starts or regnode is None:
                raise AnchorVanished("CHK upload branch in %s" % short(top))
            seen = set()
            for s0 in starts:
                for w in _from_node_to_exit_avoiding(tcfg, s0, lambda m: m is regnode):
                    if "reg" not in seen:
                        seen.add("reg")
                        r.violation(top, top.loc(s0.ast), "the CHK branch can finish without registering %s (path: %s)" % (
                            par.name, w.brief()), w)

                def tr(m, lab, nxt, st):
                    if lab == "exc" or infeasible(m, lab):
                        return None
                    return 0
                visited, parent = explore(tcfg, 0, tr, start=s0)
                for (nid, st) in sorted(visited):
                    m = tcfg.nodes[nid]
                    if is_return(m) and ("ret", nid) not in seen:
                        seen.add(("ret", nid))
                        r.require(m.ast.value is not None and attr_path(m.ast.value) == x.recv, top, top.loc(m.ast),
                                  "the CHK branch returns %s, not the Deferred %s that ends with the read-cap step" % (
                                      src(top, m.ast.value), x.recv))
            for w in reaches_exit_avoiding(tcfg, is_return):
                r.violation(top, top.loc(), "%s can return None" % short(top), w)

    # -- 7. the data reads start at offset 0 of the file, wherever the caller left the handle ------
    with ctx.rule("C05.7", "R2/R7", "FileHandle: get_size() (the first call of every upload) leaves the file handle at "
                  "offset 0 whenever it measures the file, no method of the FileHandle family leaves the handle at "
                  "another position, and read(length) reads length bytes at the current position without seeking",
                  expected=3) as r:
        fhc = idx.cls(FH)
        init = idx.func(FH + ".__init__")
        gs = idx.func(FH + ".get_size")
        rd = idx.func(FH + ".read")
        hattr = "self._filehandle"
        family = [fhc] + list(idx.subclasses(fhc))

        def position_monitor(f, start_pos, aliases=()):
            """Explore f with the state (position of the handle: 'unknown' / 'zero' / 'moved', the call that moved
            it last, passed the 'size already known' edge).  -> [(exit state, witness)]"""
            fcfg = f.cfg()
            fnm = FlowNorm(f)

            def on_handle(n, c):
                return isinstance(c.func, ast.Attribute) and (
                    fnm.norm(n, c.func.value) == hattr or attr_path(c.func.value) in aliases)

            def tr(n, lab, nxt, st):
                if lab == "exc" or infeasible(n, lab):
                    return None
                pos, why, cached = st
                if n.kind in ("stmt", "test", "iter", "with"):
                    for c in node_calls(n):
                        if not on_handle(n, c):
                            continue
                        t = call_tail(c)
                        if t == "seek":
                            pos, why = ("zero", None) if _is_rewind(c) else ("moved", id(c))
                        elif t in MOVING_TAILS:
                            pos, why = "moved", id(c)
                if n.kind == "test" and isinstance(lab, tuple):
                    fact = fnm.edge_fact(n, lab)
                    if fact and fact[0] == "is not" and {fact[1], fact[2]} == {"None", "self._size"}:
                        cached = True
                return (pos, why, cached)
            visited, parent = explore(fcfg, (start_pos, None, False), tr)
            calls = {id(c): c for c in calls_in_func(f, None)}
            out = []
            for (nid, st) in sorted(visited, key=lambda x: (x[0], str(x[1]))):
                if fcfg.nodes[nid].kind == "exit":
                    out.append((st[0], calls.get(st[1]), st[2], witness(fcfg, parent, (nid, st))))
            return out
        # does the constructor already put the handle at its start?
        ip = first_positional_params(init)
        hsrc = [assign_value(n, hattr) for n in init.cfg().find(stores(hattr))]
        if not hsrc:
            raise AnchorVanished("FileHandle.__init__ no longer stores %s" % hattr)
        al = tuple(v.id for v in hsrc if isinstance(v, ast.Name) and v.id in ip)
        init_exits = position_monitor(init, "unknown", al)
        start_pos = "zero" if init_exits and all(p == "zero" for (p, _, _, _) in init_exits) else "unknown"
        # (a) get_size
        r.site(gs, None, "get_size leaves the handle at offset 0")
        seen = set()
        for (pos, c, cached, w) in position_monitor(gs, start_pos):
            if pos == "moved" and ("moved", id(c)) not in seen:
                seen.add(("moved", id(c)))
                r.violation(gs, gs.loc(c), "FileHandle.get_size() returns with the file handle at a position other than "
                            "its start (after %s): the data of the upload is read from there, so the literal cap / the "
                            "ciphertext do not cover the whole file (path: %s)" % (src(gs, c), w.brief()), w)
            elif pos == "unknown" and not cached and "unknown" not in seen:
                seen.add("unknown")
                r.violation(gs, gs.loc(), "FileHandle.get_size() can return without rewinding the file handle (no "
                            "seek(0) on %s on the path %s): a handle the caller left at another position is then "
                            "uploaded from that position" % (hattr, w.brief()), w)
        # (b) no other method leaves the handle somewhere else
        nfun = 0
        for ci in family:
            for m in ci.methods.values():
                for f in [m] + _descendants(m):
                    if f.qual in (gs.qual, rd.qual) or not any(call_tail(c) in MOVING_TAILS | {"seek"}
                                                                for c in calls_in_func(f, None)):
                        continue
                    nfun += 1
                    done = set()
                    for (pos, c, cached, w) in position_monitor(f, "unknown", al if f is init else ()):
                        if pos == "moved" and id(c) not in done:
                            done.add(id(c))
                            r.violation(f, f.loc(c), "%s returns with the file handle at a position other than its "
                                        "start (after %s, path: %s): the data reads that follow miss part of the "
                                        "file" % (short(f), src(f, c), w.brief()), w)
        r.site("methods of the FileHandle family that move the handle: %d" % nfun)
        r.count(nfun)
        # (c) read(length): sequential, of the requested length
        r.site(rd, None, "FileHandle.read")
        rn = FlowNorm(rd)
        rp = first_positional_params(rd)
        if not rp:
            raise AnchorVanished("FileHandle.read(length)")
        hreads = []
        for n in rd.cfg().nodes:
            for c in node_calls(n):
                if isinstance(c.func, ast.Attribute) and rn.norm(n, c.func.value) == hattr:
                    if call_tail(c) == "read":
                        hreads.append((n, c))
                    elif call_tail(c) in MOVING_TAILS | {"seek"}:
                        r.violation(rd, rd.loc(c), "FileHandle.read() moves the file handle (%s): successive reads no "
                                    "longer deliver the file front to back" % src(rd, c))
        if not hreads:
            raise AnchorVanished("FileHandle.read no longer reads from %s" % hattr)
        for (n, c) in hreads:
            a = arg(c, 0, "size")
            got = rn.norm(n, a) if a is not None else None
            r.require(got == rp[0] and len(c.args) + len(c.keywords) == 1, rd, rd.loc(c),
                      "FileHandle.read(%s) reads %s from the file, expected %s.read(%s)" % (rp[0], src(rd, c), hattr, rp[0]))
        for sub in family[1:]:
            if "read" in sub.methods or "get_size" in sub.methods:
                m = sub.methods.get("read") or sub.methods.get("get_size")
                r.violation(m, m.loc(), "%s overrides FileHandle.%s: its handle positioning is not covered" % (sub.qual, m.name))

    # -- 8. the hashes behind the cap cover all N shares, whoever receives them ---------------------
    with ctx.rule("C05.8", "R2/R7", "Encoder: every block of every share is hashed into self.block_hashes on each "
                  "segment, every share gets its root hash, the UEB hash entries are stored unconditionally, and "
                  "none of this (nor the shares the codec produces) depends on self.landlords / self.servermap",
                  expected=7) as r:
        EN = "immutable.encode:Encoder"
        enc = idx.cls(EN)

        def tainted(f, e, outer=None):
            dep = deps_through(f, outer, e) if outer is not None else depends_on(f, e)
            return sorted(d for d in dep if d in PLACEMENT or any(d.startswith(p + ".") for p in PLACEMENT))

        def must_do(direct):
            """-> pred_for(f, depth): node predicate 'this statement does the step', either directly
            (direct(f, fnorm, node)) or by calling an Encoder method every normal path of which does it."""
            memo = {}

            def always(m, depth):
                if m.qual not in memo:
                    memo[m.qual] = False            # recursion guard
                    memo[m.qual] = not reaches_exit_avoiding(m.cfg(), pred_for(m, depth))
                return memo[m.qual]

            def pred_for(f, depth=2):
                fnm = FlowNorm(f)

                def p(n):
                    if n.kind not in ("stmt", "test"):
                        return False
                    if direct(f, fnm, n):
                        return True
                    if depth <= 0:
                        return False
                    for c in node_calls(n):
                        if isinstance(c.func, ast.Attribute) and attr_path(c.func.value) == "self":
                            m = enc.lookup(c.func.attr)
                            if m is not None and m.qual != f.qual and always(m, depth - 1):
                                return True
                    return False
                return p
            return pred_for

        def skipping_iterations(f, loop, pred):
            """Witnesses of one round of the for loop `loop` (from its 'iter' edge back to the head, to the
            code after the loop, or to the exit) that does not pass a node satisfying pred."""
            fcfg = f.cfg()
            body = {id(x) for s in loop.ast.body for x in ast.walk(s)}

            def tr(n, lab, nxt, st):
                if lab == "exc" or infeasible(n, lab):
                    return None
                if st == 0:
                    return 1 if (n is loop and lab == "iter") else None
                if n is loop or pred(n):
                    return None
                return 1
            visited, parent = explore(fcfg, 0, tr, start=loop)
            out = []
            for (nid, st) in sorted(visited):
                m = fcfg.nodes[nid]
                if st == 1 and (m is loop or m.kind == "exit" or (m.ast is not None and id(m.ast) not in body)):
                    out.append(witness(fcfg, parent, (nid, st)))
            return out

        def loops_doing(f, pred):
            fcfg = f.cfg()
            out = []
            for L in fcfg.nodes:
                if L.kind != "iter":
                    continue
                body = {id(x) for s in L.ast.body for x in ast.walk(s)}
                if any(n.ast is not None and id(n.ast) in body and pred(n) for n in fcfg.nodes):
                    out.append(L)
            return out

        # (a) _send_segment: the block hash of every share, every segment
        ss = idx.func(EN + "._send_segment")
        ssp = first_positional_params(ss)
        if not ssp:
            raise AnchorVanished("Encoder._send_segment(shares_and_shareids, segnum)")

        def hashes_block(f, fnm, n):
            for c in node_calls(n):
                if not (isinstance(c.func, ast.Attribute) and c.func.attr == "append" and len(c.args) == 1):
                    continue
                tgt = fnm.resolve(n, c.func.value) if isinstance(c.func.value, ast.Name) else c.func.value
                if not (isinstance(tgt, ast.Subscript) and attr_path(tgt.value) == "self.block_hashes"):
                    continue
                h = fnm.resolve(n, c.args[0])
                if isinstance(h, ast.Name):
                    h = sole_def(fnm, n, h.id) or h
                if isinstance(h, ast.Call) and call_tail(h) == "block_hash" and len(h.args) == 1:
                    return True
            return False
        bh = must_do(hashes_block)
        bpred = bh(ss)
        bloops = loops_doing(ss, bpred)
        if not bloops:
            holders = [m for m in enc.methods.values() if any(hashes_block(m, FlowNorm(m), n) for n in m.cfg().nodes)]
            if not holders:
                raise AnchorVanished("no self.block_hashes[..].append(block_hash(..)) in Encoder")
            r.violation(ss, ss.loc(), "Encoder._send_segment has no loop over the shares that hashes each block into "
                        "self.block_hashes (the hashing is in %s, not reached on every path from the share loop): the "
                        "block hash trees, the UEB hash and the cap then depend on which shares this upload pushes" % (
                            ", ".join(short(m) for m in holders)))
        for L in bloops:
            r.site(ss, L.ast, "share loop hashing every block")
            for w in skipping_iterations(ss, L, bpred)[:1]:
                r.violation(ss, ss.loc(L.ast), "a round of the share loop of Encoder._send_segment can finish without "
                            "appending block_hash(block) to self.block_hashes (path: %s): that share's block hash tree, "
                            "and with it share_root_hash, the UEB hash and the read cap, no longer cover every block, so "
                            "the cap depends on what this upload happens to push" % w.brief(), w)
            bad = tainted(ss, L.ast.iter)
            r.require(not bad, ss, ss.loc(L.ast), "the share loop of Encoder._send_segment iterates over something derived "
                      "from %s: only shares with a bucket writer are hashed" % ", ".join(bad))
            dep = depends_on(ss, L.ast.iter)
            r.require(ssp[0] in dep or "self.num_shares" in dep, ss, ss.loc(L.ast), "the share loop of "
                      "Encoder._send_segment (%s) does not run over the shares it was given (%s)" % (src(ss, L.ast.iter), ssp[0]))

        # (b) every share gets a root hash
        sa = idx.func(EN + ".send_all_block_hash_trees")

        def stores_root(f, fnm, n):
            if n.kind != "stmt" or "self.share_root_hashes[]" not in node_stores(n) or not isinstance(n.ast, ast.Assign):
                return False
            return any(call_tail(c) == "HashTree" for c in calls_feeding(f, n.ast.value))
        rh = must_do(stores_root)
        rpred = rh(sa)
        rloops = loops_doing(sa, rpred)
        roots = [(m, n) for m in enc.methods.values() for n in m.cfg().nodes if stores_root(m, FlowNorm(m), n)]
        if not roots:
            raise AnchorVanished("no self.share_root_hashes[..] = HashTree(..)[0] in Encoder")
        if not rloops:
            r.violation(sa, sa.loc(), "Encoder.send_all_block_hash_trees has no loop that sets self.share_root_hashes[..] "
                        "for every share on every path (the store is in %s): shares without a bucket writer get no root "
                        "hash" % ", ".join(short(m) for (m, _) in roots))
        for L in rloops:
            r.site(sa, L.ast, "loop giving every share its root hash")
            for w in skipping_iterations(sa, L, rpred)[:1]:
                r.violation(sa, sa.loc(L.ast), "a round of the loop of Encoder.send_all_block_hash_trees can finish without "
                            "self.share_root_hashes[shareid] being set (path: %s)" % w.brief(), w)
            bad = tainted(sa, L.ast.iter)
            r.require(not bad, sa, sa.loc(L.ast), "Encoder.send_all_block_hash_trees iterates over something derived from "
                      "%s: only shares with a bucket writer get a root hash" % ", ".join(bad))
            dep = depends_on(sa, L.ast.iter)
            r.require("self.block_hashes" in dep or "self.num_shares" in dep, sa, sa.loc(L.ast),
                      "Encoder.send_all_block_hash_trees (%s) does not run over all shares" % src(sa, L.ast.iter))
        for (m, n) in roots:
            r.site(m, n.ast, "share root hash")
            bad = tainted(m, n.ast.value)
            r.require(not bad, m, m.loc(n.ast), "the share root hash depends on %s" % ", ".join(bad))
        # the accumulators are created for all shares
        for path in ("self.block_hashes", "self.share_root_hashes"):
            for m in enc.methods.values():
                for n in m.cfg().find(stores(path)):
                    v = assign_value(n, path)
                    bad = tainted(m, v) if v is not None else []
                    r.require(not bad, m, m.loc(n.ast), "%s is sized from %s" % (path, ", ".join(bad)))

        # (c) the hash entries of the URI extension block
        want = {"share_root_hash": ("self.share_root_hashes", "HashTree"),
                "crypttext_root_hash": ("self._crypttext_hashes", "HashTree"),
                "crypttext_hash": ("self._crypttext_hasher", "digest")}
        found = {}
        for m in enc.methods.values():
            for f in [m] + _descendants(m):
                for n in f.cfg().nodes:
                    if n.kind == "stmt" and isinstance(n.ast, ast.Assign) and "self.uri_extension_data[]" in node_stores(n):
                        for t in n.ast.targets:
                            if isinstance(t, ast.Subscript) and attr_path(t.value) == "self.uri_extension_data" \
                                    and isinstance(t.slice, ast.Constant) and t.slice.value in want:
                                found.setdefault(t.slice.value, []).append((f, n))
        for key, (source, fn_tail) in sorted(want.items()):
            if key not in found:
                raise AnchorVanished("no self.uri_extension_data[%r] = .. in Encoder" % key)
            for (f, n) in found[key]:
                r.site(f, n.ast, "UEB entry " + key)
                outer = f.parent
                bad = tainted(f, n.ast.value, outer)
                r.require(not bad, f, f.loc(n.ast), "the URI-extension entry %r depends on %s: the cap changes with the "
                          "placement of the shares" % (key, ", ".join(bad)))
                dep = deps_through(f, outer, n.ast.value) if outer is not None else depends_on(f, n.ast.value)
                fed = any(call_tail(c) == fn_tail for c in calls_feeding(f, n.ast.value))
                r.require(source in dep and fed, f, f.loc(n.ast), "the URI-extension entry %r is %s, expected %s(..) over %s" % (
                    key, src(f, n.ast.value), fn_tail, source))
            # stored on every normal path of the function that stores it (not under a landlord / any other test)
            for f in {x.qual: x for (x, _) in found[key]}.values():
                mine = {id(n.ast) for (x, n) in found[key] if x is f}
                for w in reaches_exit_avoiding(f.cfg(), lambda n, _m=mine: n.ast is not None and id(n.ast) in _m)[:1]:
                    r.violation(f, f.loc(), "%s can finish without storing the URI-extension entry %r (path: %s): the "
                                "UEB hash in the cap then depends on the path taken" % (short(f), key, w.brief()), w)

        # (d) the codec is asked for all shares
        es = idx.func(EN + "._encode_segment")
        encs = [(f, c) for f in [es] + _descendants(es) for c in calls_in_func(f, "encode")
                if isinstance(c.func, ast.Attribute) and {"self._codec", "self._tail_codec"} & (
                    deps_through(f, f.parent, c.func.value) if f is not es else depends_on(f, c.func.value))]
        if not encs:
            raise AnchorVanished("codec.encode(..) call in Encoder._encode_segment")
        for (f, c) in encs:
            r.site(f, c, "codec.encode")
            for a in list(c.args) + [k.value for k in c.keywords]:
                bad = tainted(f, a, f.parent if f is not es else None)
                r.require(not bad, f, f.loc(c), "codec.encode(.. %s ..) depends on %s: shares without a bucket writer are "
                          "not produced and not hashed" % (src(f, a), ", ".join(bad)))

    # -- 9. the configured defaults reach the attributes the key derivation falls back on -----------
    with ctx.rule("C05.9", "R7/E5", "set_default_encoding_parameters stores default_params['k' / 'n' / 'max_segment_size'] "
                  "in exactly the attributes get_all_encoding_parameters falls back on for elements 0 / 2 / 3 of the "
                  "parameter tuple, on the path taken for the parameter dictionary the client supplies", expected=8) as r:
        bu = idx.func(UP + "BaseUploadable.get_all_encoding_parameters")
        inner = bu.nested.get("_got_size")
        if inner is None:
            raise AnchorVanished("BaseUploadable.get_all_encoding_parameters._got_size")
        odefs = def_exprs(bu)
        used_inside = {x.id for x in ast.walk(inner.node) if isinstance(x, ast.Name) and isinstance(x.ctx, ast.Load)}
        # (a) the reading side: which attribute stands in for an unset k / n / max segment size
        fallback = {}
        for setting, key in (("encoding_param_k", "k"), ("encoding_param_n", "n"), ("max_segment_size", "max_segment_size")):
            opath = "self." + setting
            cands = [(var, exprs[0]) for var, exprs in sorted(odefs.items()) if var in used_inside and len(exprs) == 1
                     and opath in depends_on(bu, exprs[0], defs=odefs)]
            if len(cands) != 1:
                raise AnchorVanished("the local of get_all_encoding_parameters that combines %s with its default" % opath)
            var, e = cands[0]
            ch = _choose(e, opath, False, odefs)
            if ch is not None and ch[0].startswith("self.") and ch[0] != opath:
                attr = ch[0]
            else:
                others = sorted(l for l in depends_on(bu, e, defs=odefs) if l.startswith("self.") and l != opath)
                if not others:
                    r.violation(bu, bu.loc(e), "%s = %s: with %s unset the value does not come from an attribute of the "
                                "uploadable, so the default set_default_encoding_parameters receives for %r is ignored and "
                                "uploads configured with different values get the same key / storage index" % (
                                    var, src(bu, e), opath, key))
                    continue
                if len(others) != 1:
                    raise AnalysisError("cannot tell which attribute %s = %s falls back on when %s is unset" % (
                        var, src(bu, e), opath))
                attr = others[0]
            fallback[key] = attr[len("self."):]
            r.site(bu, e, "%s falls back on %s" % (setting, attr))
        # (b) the keys the client supplies
        ccls = idx.cls("client:_Client")
        dlit = ccls.attrs.get("DEFAULT_ENCODING_PARAMETERS", [])
        supplied = dict_literal_keys(dlit[0]) if len(dlit) == 1 else None
        if not supplied or not all(isinstance(x, str) for x in supplied):
            raise AnchorVanished("client._Client.DEFAULT_ENCODING_PARAMETERS dictionary literal")
        r.site("client DEFAULT_ENCODING_PARAMETERS keys: %s" % ", ".join(supplied))
        for key in fallback:
            r.require(key in supplied, ccls.qual, "src/allmydata/client.py", "the client's default encoding parameters have "
                      "no %r entry (keys: %s): that default never reaches the uploadable" % (key, ", ".join(supplied)))
        # (c) the storing side, for every uploadable of the FileHandle family
        setters = {}
        for ci in [idx.cls(FH)] + list(idx.subclasses(idx.cls(FH))):
            m = ci.lookup("set_default_encoding_parameters")
            if m is None:
                raise AnchorVanished("%s.set_default_encoding_parameters" % ci.qual)
            setters[m.qual] = m
            g = ci.lookup("get_all_encoding_parameters")
            if g is None or g.qual != bu.qual:
                raise AnalysisError("%s overrides get_all_encoding_parameters: its defaults are not covered" % ci.qual)
        for sd in setters.values():
            sps = first_positional_params(sd)
            if not sps:
                raise AnchorVanished("%s(default_params)" % short(sd))
            dpar = sps[0]
            recs, opaque = _self_attr_stores(sd, folder, dpar, set(supplied))
            r.count(len(recs))
            for key, attr in sorted(fallback.items()):
                mine = [x for x in recs if x[0] == attr]
                if not mine:
                    if opaque:
                        raise AnalysisError("%s stores attributes under names that cannot be evaluated (%s): cannot decide "
                                            "whether self.%s receives %s[%r]" % (short(sd), src(sd, opaque[0]), attr, dpar, key))
                    near = sorted({x[0] for x in recs if key in x[2]})
                    r.violation(sd, sd.loc(), "%s never stores self.%s, the attribute get_all_encoding_parameters falls back "
                                "on when %s is not set explicitly%s: the configured %s never reaches the key derivation and "
                                "the encoding, uploads that differ in it get the same storage index" % (
                                    short(sd), attr, "encoding_param_" + key if key != "max_segment_size" else key,
                                    " (%s[%r] goes to self.%s, which nothing reads)" % (dpar, key, ", self.".join(near)) if near else "",
                                    key))
                    continue
                r.site(sd, mine[0][1], "self.%s <- %s[%r]" % (attr, dpar, key))
                live = [x for x in mine if x[3]]
                if not r.require(bool(live), sd, sd.loc(mine[0][1]), "the store of self.%s in %s is skipped for the parameter "
                                 "dictionary the client supplies (keys %s): the configured %s is ignored" % (
                                     attr, short(sd), ", ".join(supplied), key)):
                    continue
                for (_, node, keys, _) in live:
                    if None in keys:
                        raise AnalysisError("cannot evaluate which entry of %s is stored in self.%s (%s)" % (
                            dpar, attr, src(sd, node)))
                    r.require(keys == {key}, sd, sd.loc(node), "self.%s, the default of %s that get_all_encoding_parameters "
                              "uses, is set from %s, expected %s[%r]" % (
                                  attr, key, ("%s[%s]" % (dpar, " / ".join(repr(k) for k in sorted(keys)))) if keys
                                  else "a value that is not an entry of %s" % dpar, dpar, key))
        # (d) the dictionary handed over is the client's
        up = idx.func(UP + "Uploader.upload")
        css = [(f, c) for f in [up] + _descendants(up) for c in calls_in_func(f, "set_default_encoding_parameters")]
        if not css:
            raise AnchorVanished("set_default_encoding_parameters call in Uploader.upload")
        for (f, c) in css:
            r.site(f, c, "defaults handed to the uploadable")
            a = arg(c, 0, "default_params")
            fed = [cc for cc in calls_feeding(f, a)] if a is not None else []
            r.require(any(call_tail(cc) == "get_encoding_parameters" for cc in fed), f, f.loc(c),
                      "the uploadable's defaults are %s, not derived from the client's get_encoding_parameters()" % src(f, a))


    # -- 10. every key delivered is the digest of this upload; no other source on that path -----------
    with ctx.rule("C05.10", "R7/R2", "every encryption key an uploadable of the FileHandle family delivers or stores is "
                  "the digest computed by the hashing callback for this upload (or os.urandom(16)); the memo of the "
                  "effective encoding parameters is filled per uploadable from the tuple just computed", expected=7) as r:
        fhc = idx.cls(FH)
        family = [fhc] + list(idx.subclasses(fhc))
        kc = idx.func(FH + "._get_encryption_key_convergent")
        holders = [f for f in [kc] + _descendants(kc) if calls_in_func(f, "convergence_hasher")]
        if len(holders) != 1 or holders[0] is kc:
            raise AnchorVanished("callback of FileHandle._get_encryption_key_convergent that calls convergence_hasher")
        g = holders[0]
        rk = idx.func(FH + "._get_encryption_key_random")
        r.site(g, None, "the hashing callback: the only place a convergent key may come from")
        fam_funcs = [(ci, f) for ci in family for m in ci.methods.values() for f in [m] + _descendants(m)]
        norms = {}

        def fnorm_of(f):
            if f.qual not in norms:
                norms[f.qual] = FlowNorm(f)
            return norms[f.qual]

        def shown(f, n, v):
            """the value with a local replaced by its only definition (for the message)"""
            if isinstance(v, ast.Name):
                d = sole_def(fnorm_of(f), n, v.id)
                if d is not None:
                    return "%s = %s" % (v.id, src(f, d))
            return src(f, v) if v is not None else "a value that is not a plain assignment"

        # (a) what the key attributes can hold
        bad_stores = {}

        def key_attr_problems(attr):
            """stores of self.<attr> in the family whose value is none of: None, the digest (in the hashing
            callback, C05.1), os.urandom(16) / hashutil.random_key()"""
            if attr in bad_stores:
                return bad_stores[attr]
            out, total = [], 0
            for (ci, f) in fam_funcs:
                for (n, v) in _self_attr_values(f, attr):
                    total += 1
                    if f.qual == g.qual:
                        continue                         # C05.1 requires <hasher>.digest() there
                    vv = fnorm_of(f).resolve(n, v) if (v is not None and n is not None) else v
                    if isinstance(vv, ast.Constant) and vv.value is None:
                        continue
                    if vv is not None and _is_random_key(idx, folder, f, vv):
                        continue
                    out.append((f, n, v))
            bad_stores[attr] = (out, total)
            return bad_stores[attr]

        # (b) what the key methods return
        def cb_func(f, t):
            if isinstance(t, ast.Name):
                p = f
                while p is not None:
                    if t.id in p.nested:
                        return p.nested[t.id]
                    p = p.parent
            elif isinstance(t, ast.Attribute) and attr_path(t.value) == "self":
                top = f
                while top.parent is not None:
                    top = top.parent
                return top.cls.lookup(t.attr) if top.cls is not None else None
            return None

        def passes_through(f, t):
            """the callback returns its argument unchanged on every path"""
            if isinstance(t, ast.Lambda):
                ps = [a.arg for a in list(t.args.posonlyargs) + list(t.args.args)]
                return bool(ps) and isinstance(t.body, ast.Name) and t.body.id == ps[0]
            cb = cb_func(f, t)
            if cb is None:
                return False
            ps = first_positional_params(cb)
            if not ps:
                return False
            c = cb.cfg()
            rets = c.find(is_return)
            return bool(rets) and not c.find(stores(ps[0])) and not reaches_exit_avoiding(c, is_return) \
                and all(isinstance(n.ast.value, ast.Name) and n.ast.value.id == ps[0] for n in rets)

        def chain_of(e):
            calls = []
            while isinstance(e, ast.Call) and isinstance(e.func, ast.Attribute) and e.func.attr in _REG:
                calls.append(e)
                e = e.func.value
            return e, calls

        def is_key_call(e):
            """self.<key method>() / <class of the family>.<key method>(self) / super().<key method>()"""
            if not (isinstance(e, ast.Call) and isinstance(e.func, ast.Attribute) and e.func.attr in KEY_METHODS) or e.keywords:
                return False
            fv = e.func.value
            if attr_path(fv) == "self" or (isinstance(fv, ast.Call) and call_tail(fv) == "super"):
                return not e.args
            p = attr_path(fv)
            return bool(p) and len(e.args) == 1 and attr_path(e.args[0]) == "self" \
                and any(ci.name == p.split(".")[-1] for ci in family)

        def base_problem(f, n, base):
            """None when the Deferred expression `base` fires with this upload's key"""
            fnm = fnorm_of(f)
            if is_key_call(base):
                return None
            if isinstance(base, ast.Call) and call_tail(base) == "succeed" and len(base.args) == 1 and not base.keywords:
                a = fnm.resolve(n, base.args[0])
                p = attr_path(a) or ""
                if p.startswith("self.") and p.count(".") == 1:
                    bad, total = key_attr_problems(p[5:])
                    if total and (p == "self._key" or not bad):
                        return None                      # stores of self._key are reported by (a)
                    return "%s, and %s is %s" % (src(f, base), p, "set from %s in %s" % (
                        shown(bad[0][0], bad[0][1], bad[0][2]), short(bad[0][0])) if bad else "never set")
                if _is_random_key(idx, folder, f, a):
                    return None
                return "%s with %s" % (src(f, base), shown(f, n, base.args[0]))
            return src(f, base)

        def deferred_problems(f, n, e):
            """[] when every result of the Deferred expression e (returned at node n of f) is this upload's key"""
            base, chain = chain_of(e)
            allregs = registrations(f)
            regs = [x for x in allregs if any(x.call is c for c in chain)]
            probs = []
            if isinstance(base, ast.Name) and base.id not in f.params:
                var = base.id
                regs = [x for x in allregs if x.recv == var or any(x is y for y in regs)]
                greg = [x for x in regs if isinstance(x.target, ast.Name) and cb_func(f, x.target) is g and x.kind == "cb"]
                if greg:
                    # the hashing chain itself: what precedes the hashing callback is C05.1's
                    regs = regs[regs.index(greg[0]) + 1:]
                else:
                    defs = def_exprs(f).get(var, [])
                    if not defs:
                        probs.append(var)
                    for dv in defs:
                        p = base_problem(f, n, chain_of(dv)[0])
                        if p:
                            probs.append("%s = %s" % (var, p))
            else:
                p = base_problem(f, n, base)
                if p:
                    probs.append(p)
            for x in regs:
                ts = [x.target] if x.kind in ("cb", "both") else ([x.target] if x.kind == "pair" else [])
                for t in ts:
                    if not passes_through(f, t):
                        probs.append("%s, whose result replaces the key" % src(f, x.call))
            return probs

        nret = 0
        for ci in family:
            for name in KEY_METHODS:
                m = ci.methods.get(name)
                if m is None:
                    continue
                if m.node.decorator_list:
                    raise AnalysisError("%s is decorated (%s): cannot decide what it delivers" % (
                        short(m), src(m, m.node.decorator_list[0])))
                mcfg = m.cfg()
                rets = mcfg.find(is_return)
                r.site(m, None, "key method: every result is this upload's key")
                for n in rets:
                    nret += 1
                    if n.ast.value is None:
                        r.violation(m, m.loc(n.ast), "%s returns None instead of the key" % short(m))
                        continue
                    for p in deferred_problems(m, n, n.ast.value)[:1]:
                        r.violation(m, m.loc(n.ast), "%s delivers %s: not the digest of convergence_hasher(k, n, segsize, "
                                    "secret) over the contents computed for this upload (nor os.urandom(16)); a key taken "
                                    "from anywhere else (a cache shared between uploadables, a table) is not a function of "
                                    "the effective encoding parameters, the secret and the contents, so equal files stop "
                                    "converging and different parameters / contents can share a storage index" % (short(m), p))
                for w in reaches_exit_avoiding(mcfg, is_return)[:1]:
                    r.violation(m, m.loc(), "%s can return None instead of the key (path: %s)" % (short(m), w.brief()), w)
        r.count(nret)
        bad, total = key_attr_problems("_key")
        if not total:
            raise AnchorVanished("no store of self._key in the FileHandle family")
        r.site("stores of self._key in the FileHandle family: %d" % total)
        for (f, n, v) in bad:
            r.violation(f, f.loc(n.ast if n is not None and n.ast is not None else None), "%s sets self._key from %s: "
                        "the key of an upload must be the digest computed by %s for this upload (or os.urandom(16)); a "
                        "remembered key is not a function of the effective k / n / segment size, the secret and the "
                        "contents of this file" % (short(f), shown(f, n, v), short(g)))
        # the key of an uploadable is not planted from outside
        for (f, nd) in cg.attr_stores("_key"):
            recv = attr_path(nd.value)
            if recv in (None, "self") or not f.module.name.startswith("allmydata.immutable"):
                continue
            top = f
            while top.parent is not None:
                top = top.parent
            used = any(isinstance(c.func, ast.Attribute) and attr_path(c.func.value) == recv and c.func.attr in UPLOADABLE_METHODS
                       for ff in [top] + _descendants(top) for c in calls_in_func(ff, None, into_lambda=True))
            if used:
                r.violation(f, f.loc(nd), "%s sets %s._key from outside the uploadable: its key is then not the digest "
                            "computed for this upload" % (short(f), recv))

        # (c) the sibling memo on that path: the effective encoding parameters
        bu = idx.func(UP + "BaseUploadable.get_all_encoding_parameters")
        inner = bu.nested.get("_got_size")
        if inner is None:
            raise AnchorVanished("BaseUploadable.get_all_encoding_parameters._got_size")
        MEMO = "_all_encoding_parameters"
        inorm = FlowNorm(inner)
        nmemo = 0
        for (f, nd) in cg.attr_stores(MEMO):
            nmemo += 1
            fcfg = f.cfg()
            node = next((n for n in fcfg.nodes if n.ast is not None and n.kind == "stmt" and any(x is nd for x in ast.walk(n.ast))), None)
            v = stored_value(node, attr_path(nd)) if node is not None and attr_path(nd) else None
            if isinstance(v, ast.Constant) and v.value is None:
                continue
            vv = FlowNorm(f).resolve(node, v) if v is not None else None
            ok = f.qual == inner.qual and attr_path(nd.value) == "self" and isinstance(vv, ast.Tuple) and len(vv.elts) == 4
            if ok:
                r.site(f, nd, "parameter memo filled from the tuple just computed")
            r.require(ok, f, f.loc(nd), "%s = %s in %s: the memo of the effective encoding parameters must be set on this "
                      "uploadable (self) from the (k, happy, n, segsize) tuple just computed; otherwise a later upload gets "
                      "parameters - and a convergent key - that do not follow from its own settings, defaults and size" % (
                          src(f, nd), src(f, v) if v is not None else "?", short(f)))
        if not nmemo:
            raise AnchorVanished("store of self.%s" % MEMO)
        bcls = idx.cls(UP + "BaseUploadable")
        for ci in [bcls] + list(idx.subclasses(bcls)):
            for e in ci.attrs.get(MEMO, []):
                r.require(isinstance(e, ast.Constant) and e.value is None, ci.qual, "src/allmydata/immutable/upload.py",
                          "class attribute %s.%s is %s, not None: every uploadable starts with remembered parameters" % (
                              ci.name, MEMO, ast.unparse(e)[:80]))
        bregs = registrations(bu)
        iregs = [x for x in bregs if isinstance(x.target, ast.Name) and x.target.id == inner.name and x.kind == "cb"]
        if not iregs:
            raise AnchorVanished("_got_size is not registered as a callback in get_all_encoding_parameters")
        r.site(bu, iregs[0].call, "get_all_encoding_parameters: memo or the Deferred of the computation")
        bnorm = FlowNorm(bu)
        for n in bu.cfg().find(is_return):
            v = n.ast.value
            base, chain = chain_of(v) if v is not None else (None, [])
            ok = False
            if isinstance(base, ast.Name) and base.id == iregs[0].recv:
                later = [x for x in bregs if x.recv == iregs[0].recv]
                later = later[later.index(iregs[0]) + 1:]
                ok = all(x.kind == "eb" or passes_through(bu, x.target) for x in later)
            elif isinstance(base, ast.Call) and call_tail(base) == "succeed" and len(base.args) == 1 and not chain:
                ok = attr_path(bnorm.resolve(n, base.args[0])) == "self." + MEMO
            r.require(ok, bu, bu.loc(n.ast), "get_all_encoding_parameters returns %s: expected the parameters remembered on "
                      "this uploadable or the Deferred of their computation (%s)" % (src(bu, v), iregs[0].recv))
        for n in inner.cfg().find(is_return):
            v = inorm.resolve(n, n.ast.value) if n.ast.value is not None else None
            ok = (isinstance(v, ast.Tuple) and len(v.elts) == 4) or (v is not None and attr_path(v) == "self." + MEMO)
            r.require(ok, inner, inner.loc(n.ast), "_got_size delivers %s, not the (k, happy, n, segsize) tuple it computed" % (
                src(inner, n.ast.value)))

    # -- 11. the size every consumer uses is measured on the handle itself ----------------------------
    with ctx.rule("C05.11", "R2/R7", "FileHandle.get_size() / self._size: the size is tell() with the handle at its end "
                  "(or seek(0, SEEK_END) itself, len() of a read of everything from offset 0, an in-memory buffer), "
                  "never file-system metadata of a handle whose buffered writes were not flushed", expected=2) as r:
        fhc = idx.cls(FH)
        family = [fhc] + list(idx.subclasses(fhc))
        init = idx.func(FH + ".__init__")
        gs = idx.func(FH + ".get_size")
        hattr = "self._filehandle"
        ip = first_positional_params(init)
        hsrc = [assign_value(n, hattr) for n in init.cfg().find(stores(hattr))]
        if not hsrc:
            raise AnchorVanished("FileHandle.__init__ no longer stores %s" % hattr)
        init_alias = tuple(v.id for v in hsrc if isinstance(v, ast.Name) and v.id in ip)
        hparam = init_alias[0] if init_alias else (ip[0] if ip else None)

        # handles a subclass creates itself: open(path, <read-only mode>) has no buffered writes, BytesIO(data) is in memory
        own_handle = {}
        for sub in family[1:]:
            si = sub.methods.get("__init__")
            if si is None:
                continue
            for c in calls_in_func(si, "__init__"):
                off = 1 if call_name(c).endswith("FileHandle.__init__") else 0
                a = kwarg(c, hparam) if hparam else None
                if a is None and len(c.args) > off:
                    a = c.args[off]
                a = FlowNorm(si).resolve(node_of(si.cfg(), c), a) if a is not None and node_of(si.cfg(), c) is not None else a
                if isinstance(a, ast.Call) and call_tail(a) == "open" and a.args:
                    mode = arg(a, 1, "mode")
                    ro = mode is None or (isinstance(mode, ast.Constant) and isinstance(mode.value, str)
                                          and not set(mode.value) & set("wax+"))
                    if ro:
                        own_handle[sub.qual] = ("open", a.args[0])
                elif isinstance(a, ast.Call) and call_tail(a) == "BytesIO" and len(a.args) == 1:
                    own_handle[sub.qual] = ("bytes", a.args[0])

        def analyse(ci, f, aliases=()):
            """-> (states on entry of every node: {node id: {(pos, flushed)}}, on_handle)"""
            fcfg = f.cfg()
            fnm = FlowNorm(f)

            def on_handle(n, c):
                return isinstance(c.func, ast.Attribute) and (
                    fnm.norm(n, c.func.value) == hattr or attr_path(c.func.value) in aliases)

            def effect(n, st):
                pos, fl = st
                for c in node_calls(n):
                    if not on_handle(n, c):
                        continue
                    t = call_tail(c)
                    if t == "seek":
                        pos = "zero" if _is_rewind(c) else ("end" if _is_seek_end(c) else "moved")
                    elif t in ("read", "readall", "readlines") and _reads_all(c):
                        pos = "end"
                    elif t in MOVING_TAILS:
                        pos = "moved"
                        if t in ("write", "writelines", "truncate"):
                            fl = False
                    elif t == "flush":
                        fl = True
                return (pos, fl)

            def tr(n, lab, nxt, st):
                if infeasible(n, lab):
                    return None
                if lab == "exc":
                    if nxt.kind != "except":
                        return None
                    # the statement may have been interrupted anywhere
                    touched = any(on_handle(n, c) and call_tail(c) in MOVING_TAILS | {"seek"} for c in node_calls(n))
                    return ("moved" if touched else st[0], st[1] and not touched)
                if n.kind in ("stmt", "test", "iter", "with"):
                    return effect(n, st)
                return st
            visited, _parent = explore(fcfg, ("unknown", False), tr)
            states = {}
            for (nid, st) in visited:
                states.setdefault(nid, set()).add(st)
            return states, on_handle, fnm

        def leaves_of(fnm, n, e, depth=0):
            """[(node, expression)]: what the value of e at node n may be, following locals to all their reaching definitions"""
            if isinstance(e, ast.Name) and depth < 8:
                ds = fnm.rd.get(n.id, {}).get(e.id)
                if not ds:
                    return [(n, e)]
                out = []
                for d in sorted(ds):
                    dn = fnm.cfg.nodes[d] if d >= 0 else None
                    v = fnm._def_value(dn, e.id) if dn is not None else None
                    if v is None:
                        out.append((dn or n, e))
                    else:
                        out.extend(leaves_of(fnm, dn, v, depth + 1))
                return out
            if isinstance(e, ast.IfExp):
                return leaves_of(fnm, n, e.body, depth + 1) + leaves_of(fnm, n, e.orelse, depth + 1)
            if isinstance(e, ast.Call) and isinstance(e.func, ast.Name) and e.func.id == "int" and len(e.args) == 1 and not e.keywords:
                return leaves_of(fnm, n, e.args[0], depth + 1)
            return [(n, e)]

        reported = set()

        analysed = {}

        def check_size_value(ci, f, n, e, what, aliases=()):
            if f.qual not in analysed:
                analysed[f.qual] = analyse(ci, f, aliases)
            states, on_handle, fnm = analysed[f.qual]
            own = own_handle.get(ci.qual)
            for (dn, v) in leaves_of(fnm, n, e):
                key = (f.qual, id(v))
                if key in reported:
                    continue
                reported.add(key)
                sts = states.get(dn.id, set())
                others = [c for c in node_calls(dn) if on_handle(dn, c) and call_tail(c) in MOVING_TAILS | {"seek"} and c is not v]
                if isinstance(v, ast.Constant) and v.value is None:
                    continue
                if attr_path(v) == "self._size":
                    continue
                hcall = isinstance(v, ast.Call) and on_handle(dn, v)
                if hcall and call_tail(v) == "tell" and not v.args:
                    if others:
                        raise AnalysisError("several operations on the file handle in %s" % src(f, dn.ast))
                    r.require(bool(sts) and all(p == "end" for (p, _) in sts), f, f.loc(v), "%s: %s is taken while the "
                              "handle is not known to be at the end of the file (no seek(0, os.SEEK_END) / read of "
                              "everything before it on every path): the size is not the length of the file" % (what, src(f, v)))
                    continue
                if hcall and call_tail(v) == "seek" and _is_seek_end(v):
                    continue                                 # seek() returns the new absolute position
                meta = [x for x in ast.walk(v) if (isinstance(x, ast.Call) and call_tail(x) in METADATA_TAILS)
                        or (isinstance(x, ast.Attribute) and x.attr == "st_size")]
                if meta:
                    if own is not None and own[0] == "open" and _own_file_metadata(f, fnm, dn, v, own[1], on_handle):
                        continue
                    r.require(bool(sts) and all(fl for (_, fl) in sts), f, f.loc(v), "%s: the size is taken from "
                              "file-system metadata (%s) of a handle that was not flushed: bytes still in the write buffer of "
                              "a just-written (spooled) file are not counted, so a small file becomes the empty literal and "
                              "a larger one is uploaded truncated, under a different key and storage index than its "
                              "contents; measure on the handle (seek(0, os.SEEK_END) / tell()) or flush() first" % (
                                  what, src(f, v)))
                    continue
                if isinstance(v, ast.Call) and isinstance(v.func, ast.Name) and v.func.id == "len" and len(v.args) == 1:
                    inner_leaves = leaves_of(fnm, dn, v.args[0])
                    okall = True
                    for (rn, rv) in inner_leaves:
                        if isinstance(rv, ast.Call) and on_handle(rn, rv) and call_tail(rv) in ("getvalue", "getbuffer"):
                            continue
                        if own is not None and own[0] == "bytes" and f.name == "__init__" and isinstance(rv, ast.Name) \
                                and isinstance(own[1], ast.Name) and rv.id == own[1].id and rv.id in f.params \
                                and not f.cfg().find(stores(rv.id)):
                            continue                         # len(data) of the BytesIO(data) this class wraps
                        if isinstance(rv, ast.Call) and on_handle(rn, rv) and call_tail(rv) in ("read", "readall") and _reads_all(rv):
                            rs = states.get(rn.id, set())
                            r.require(bool(rs) and all(p == "zero" for (p, _) in rs), f, f.loc(rv), "%s: the length of %s "
                                      "is used as the size although the handle is not known to be at offset 0 there" % (
                                          what, src(f, rv)))
                            continue
                        okall = False
                    if okall:
                        continue
                if isinstance(v, ast.Attribute) and v.attr == "nbytes" and isinstance(v.value, ast.Call) \
                        and on_handle(dn, v.value) and call_tail(v.value) == "getbuffer":
                    continue
                raise AnalysisError("cannot decide how %s measures the size: %s" % (short(f), src(f, v)))

        # (a) what get_size() delivers
        r.site(gs, None, "FileHandle.get_size: the measured size")
        for n in gs.cfg().find(is_return):
            v = FlowNorm(gs).resolve(n, n.ast.value) if n.ast.value is not None else None
            if not (isinstance(v, ast.Call) and call_tail(v) == "succeed" and len(v.args) == 1):
                r.violation(gs, gs.loc(n.ast), "FileHandle.get_size() returns %s, not succeed(<size>)" % src(gs, n.ast.value))
                continue
            check_size_value(fhc, gs, n, v.args[0], "FileHandle.get_size() result")
        for w in reaches_exit_avoiding(gs.cfg(), is_return)[:1]:
            r.violation(gs, gs.loc(), "FileHandle.get_size() can return None (path: %s)" % w.brief(), w)
        # (b) what the remembered size can hold
        nst = 0
        for ci in family:
            for m in ci.methods.values():
                for f in [m] + _descendants(m):
                    for (n, v) in _self_attr_values(f, "_size"):
                        nst += 1
                        if v is None or n is None:
                            raise AnalysisError("cannot evaluate the value stored in self._size in %s" % short(f))
                        check_size_value(ci, f, n, v, "self._size in %s" % short(f), init_alias if f.qual == init.qual else ())
        r.site("stores of self._size in the FileHandle family: %d" % nst)
        r.count(nst)
        if not nst:
            raise AnchorVanished("no store of self._size in the FileHandle family")


def _choose(e, opath, is_set, defs, depth=0):
    """Which leaf does expression `e` evaluate to when the attribute `opath` is truthy (is_set) / None (not
    is_set) and every other attribute is truthy?  -> (leaf path, truthiness) or None when `e` is not built
    from or / and / not / conditional expressions / `is None` tests over attributes, None and single-definition locals."""
    if depth > 6:
        return None
    if isinstance(e, ast.Attribute):
        p = attr_path(e)
        if p is None:
            return None
        return (p, is_set) if p == opath else (p, True)
    if isinstance(e, ast.Constant) and e.value is None:
        return ("None", False)
    if isinstance(e, ast.Name):
        ds = defs.get(e.id, [])
        return _choose(ds[0], opath, is_set, defs, depth + 1) if len(ds) == 1 else None
    if isinstance(e, ast.BoolOp):
        last = None
        for v in e.values:
            last = _choose(v, opath, is_set, defs, depth + 1)
            if last is None:
                return None
            if last[1] == isinstance(e.op, ast.Or):
                return last
        return last
    if isinstance(e, ast.IfExp):
        t = _truth(e.test, opath, is_set, defs, depth + 1)
        if t is None:
            return None
        return _choose(e.body if t else e.orelse, opath, is_set, defs, depth + 1)
    return None


def _truth(t, opath, is_set, defs, depth):
    if isinstance(t, ast.UnaryOp) and isinstance(t.op, ast.Not):
        v = _truth(t.operand, opath, is_set, defs, depth + 1)
        return None if v is None else not v
    if isinstance(t, ast.Compare) and len(t.ops) == 1 and isinstance(t.ops[0], (ast.Is, ast.IsNot)):
        l = _choose(t.left, opath, is_set, defs, depth + 1)
        rr = _choose(t.comparators[0], opath, is_set, defs, depth + 1)
        if l is None or rr is None or (l[0] == "None") == (rr[0] == "None"):
            return None
        other = rr if l[0] == "None" else l
        is_none = not other[1] and other[0] == opath         # only the unset setting is known to be None
        if other[1] is False and other[0] != opath:
            return None
        return is_none == isinstance(t.ops[0], ast.Is)
    v = _choose(t, opath, is_set, defs, depth + 1)
    return None if v is None else v[1]


class _Unknown(Exception):
    pass


def _cev(e, env, folder, fn):
    """Constant value of expression `e` with the loop variables bound as in env (strings, tuples, dicts)."""
    if isinstance(e, ast.Constant):
        return e.value
    if isinstance(e, ast.Name):
        if e.id in env:
            if env[e.id] is _Unknown:
                raise _Unknown(e.id)
            return env[e.id]
    elif isinstance(e, (ast.Tuple, ast.List)):
        return tuple(_cev(x, env, folder, fn) for x in e.elts)
    elif isinstance(e, ast.Dict) and all(k is not None for k in e.keys):
        return {_cev(k, env, folder, fn): _cev(v, env, folder, fn) for k, v in zip(e.keys, e.values)}
    elif isinstance(e, ast.BinOp) and isinstance(e.op, (ast.Add, ast.Mod)):
        l, rr = _cev(e.left, env, folder, fn), _cev(e.right, env, folder, fn)
        try:
            return l + rr if isinstance(e.op, ast.Add) else l % rr
        except Exception:
            raise _Unknown("operator")
    elif isinstance(e, ast.JoinedStr):
        out = ""
        for v in e.values:
            if isinstance(v, ast.FormattedValue):
                if v.conversion != -1 or v.format_spec is not None:
                    raise _Unknown("format")
                out += str(_cev(v.value, env, folder, fn))
            else:
                out += str(_cev(v, env, folder, fn))
        return out
    elif isinstance(e, ast.Subscript):
        c, k = _cev(e.value, env, folder, fn), _cev(e.slice, env, folder, fn)
        try:
            return c[k]
        except Exception:
            raise _Unknown("subscript")
    elif isinstance(e, ast.Call) and isinstance(e.func, ast.Attribute) and not e.keywords:
        recv = _cev(e.func.value, env, folder, fn)
        args = [_cev(a, env, folder, fn) for a in e.args]
        if isinstance(recv, dict) and e.func.attr in ("items", "keys", "values") and not args:
            return tuple(getattr(recv, e.func.attr)())
        if isinstance(recv, str) and e.func.attr in ("format", "join", "lower", "upper"):
            try:
                return getattr(recv, e.func.attr)(*args)
            except Exception:
                raise _Unknown("str method")
        raise _Unknown("call")
    elif isinstance(e, ast.Call) and isinstance(e.func, ast.Name) and e.func.id in ("sorted", "list", "tuple", "reversed") \
            and len(e.args) == 1 and not e.keywords and e.func.id not in env:
        v = _cev(e.args[0], env, folder, fn)
        try:
            return tuple({"sorted": sorted, "list": list, "tuple": tuple, "reversed": reversed}[e.func.id](v))
        except Exception:
            raise _Unknown("builtin")
    try:
        return folder.fold(e, fn.module, fn.cls)
    except NotConstant:
        raise _Unknown("not constant")


def _bind(target, value, env):
    if isinstance(target, ast.Name):
        env[target.id] = value
    elif isinstance(target, (ast.Tuple, ast.List)):
        if value is not _Unknown and isinstance(value, (tuple, list)) and len(value) == len(target.elts):
            for t, v in zip(target.elts, value):
                _bind(t, v, env)
        else:
            for t in target.elts:
                _bind(t, _Unknown, env)


def _tv(t, env, folder, fn, dpar, supplied):
    """Three-valued truth of a test when `dpar` is a dictionary with exactly the keys `supplied`:
    True / False / None (undetermined)."""
    if isinstance(t, ast.UnaryOp) and isinstance(t.op, ast.Not):
        v = _tv(t.operand, env, folder, fn, dpar, supplied)
        return None if v is None else not v
    if isinstance(t, ast.BoolOp):
        vs = [_tv(v, env, folder, fn, dpar, supplied) for v in t.values]
        if isinstance(t.op, ast.And):
            return False if False in vs else (None if None in vs else True)
        return True if True in vs else (None if None in vs else False)
    if isinstance(t, ast.Compare) and len(t.ops) == 1 and isinstance(t.ops[0], (ast.In, ast.NotIn)):
        c = t.comparators[0]
        if isinstance(c, ast.Call) and isinstance(c.func, ast.Attribute) and c.func.attr == "keys" and not c.args:
            c = c.func.value
        if isinstance(c, ast.Name) and c.id == dpar:
            try:
                k = _cev(t.left, env, folder, fn)
            except _Unknown:
                return None
            return (k in supplied) == isinstance(t.ops[0], ast.In)
        return None
    if isinstance(t, ast.Constant):
        return bool(t.value)
    return None


def _self_attr_stores(fn, folder, dpar, supplied):
    """Every store to an attribute of self that `fn` performs itself - self.X = V, setattr(self, NAME, V),
    self.__setattr__(NAME, V), object.__setattr__(self, NAME, V), self.__dict__[NAME] = V - with for loops over
    constant sequences unrolled so that computed names are evaluated.
    -> ([(attribute, node, keys of `dpar` the value is taken from (None = not evaluable), reached when `dpar` has
    exactly the keys `supplied`)], [stores whose attribute name cannot be evaluated])"""
    selfname = fn.params[0] if fn.params else "self"
    defs = def_exprs(fn)
    recs, opaque, handled = [], [], set()

    def keys_of(v, env, depth=0, seen=None):
        seen = set() if seen is None else seen
        out = set()
        skip = set()
        for x in own_nodes(v, into_lambda=True):
            if id(x) in skip:
                continue
            if isinstance(x, ast.Subscript) and isinstance(x.value, ast.Name) and x.value.id == dpar:
                skip.add(id(x.value))
                try:
                    out.add(_cev(x.slice, env, folder, fn))
                except _Unknown:
                    out.add(None)
            elif isinstance(x, ast.Call) and isinstance(x.func, ast.Attribute) and isinstance(x.func.value, ast.Name) \
                    and x.func.value.id == dpar and x.func.attr in ("get", "pop", "setdefault", "__getitem__") and x.args:
                skip.add(id(x.func.value))
                try:
                    out.add(_cev(x.args[0], env, folder, fn))
                except _Unknown:
                    out.add(None)
            elif isinstance(x, ast.Name) and isinstance(x.ctx, ast.Load):
                if x.id == dpar:
                    out.add(None)           # the dictionary itself / an iteration over it
                elif x.id in env and env[x.id] is not _Unknown:
                    continue
                elif x.id in defs and x.id not in seen and depth < 6:
                    seen.add(x.id)
                    for d in defs[x.id]:
                        out |= keys_of(d, env, depth + 1, seen)
        return out

    def record(name_expr, value, node, env, live):
        handled.add(id(node))
        try:
            name = _cev(name_expr, env, folder, fn) if not isinstance(name_expr, str) else name_expr
        except _Unknown:
            opaque.append(node)
            return
        if not isinstance(name, str):
            opaque.append(node)
            return
        recs.append((name, node, keys_of(value, env) if value is not None else set(), live))

    def is_self(e):
        return isinstance(e, ast.Name) and e.id == selfname

    def store_target(t, value, node, env, live):
        if isinstance(t, ast.Attribute) and is_self(t.value):
            record(t.attr, value, node, env, live)
        elif isinstance(t, ast.Subscript) and isinstance(t.value, ast.Attribute) and t.value.attr == "__dict__" \
                and is_self(t.value.value):
            handled.add(id(t.value))
            record(t.slice, value, node, env, live)
        elif isinstance(t, (ast.Tuple, ast.List)):
            vs = value.elts if isinstance(value, (ast.Tuple, ast.List)) and len(value.elts) == len(t.elts) else [value] * len(t.elts)
            for tt, vv in zip(t.elts, vs):
                store_target(tt, vv, node, env, live)

    def calls_in_stmt(s, env, live):
        for c in own_nodes(s):
            if not isinstance(c, ast.Call):
                continue
            if isinstance(c.func, ast.Name) and c.func.id == "setattr" and len(c.args) == 3 and is_self(c.args[0]):
                record(c.args[1], c.args[2], c, env, live)
            elif isinstance(c.func, ast.Attribute) and c.func.attr == "__setattr__" and len(c.args) == 2 and is_self(c.func.value):
                record(c.args[0], c.args[1], c, env, live)
            elif isinstance(c.func, ast.Attribute) and c.func.attr == "__setattr__" and len(c.args) == 3 and is_self(c.args[0]):
                record(c.args[1], c.args[2], c, env, live)

    def walk(stmts, env, live):
        for s in stmts:
            if isinstance(s, (ast.FunctionDef, ast.AsyncFunctionDef, ast.ClassDef)):
                continue
            if isinstance(s, ast.If):
                t = _tv(s.test, env, folder, fn, dpar, supplied)
                walk(s.body, dict(env), live and t is not False)
                walk(s.orelse, dict(env), live and t is not True)
            elif isinstance(s, (ast.For, ast.AsyncFor)):
                try:
                    seq = _cev(s.iter, env, folder, fn)
                    if isinstance(seq, dict):
                        seq = tuple(seq)
                    if not isinstance(seq, tuple) or len(seq) > 64:
                        raise _Unknown("iterable")
                except _Unknown:
                    seq = None
                if seq is None:
                    e2 = dict(env)
                    _bind(s.target, _Unknown, e2)
                    walk(s.body, e2, live)
                else:
                    for item in seq:
                        e2 = dict(env)
                        _bind(s.target, item, e2)
                        walk(s.body, e2, live)
                walk(s.orelse, dict(env), live)
            elif isinstance(s, ast.While):
                walk(s.body, dict(env), live and _tv(s.test, env, folder, fn, dpar, supplied) is not False)
                walk(s.orelse, dict(env), live)
            elif isinstance(s, (ast.With, ast.AsyncWith)):
                walk(s.body, env, live)
            elif isinstance(s, ast.Try):
                walk(s.body, env, live)
                for h in s.handlers:
                    walk(h.body, dict(env), live)
                walk(s.orelse, env, live)
                walk(s.finalbody, env, live)
            else:
                if isinstance(s, ast.Assign):
                    for t in s.targets:
                        store_target(t, s.value, s, env, live)
                        if not isinstance(t, (ast.Attribute, ast.Subscript)):
                            try:
                                _bind(t, _cev(s.value, env, folder, fn), env)
                            except _Unknown:
                                _bind(t, _Unknown, env)
                elif isinstance(s, ast.AnnAssign) and s.value is not None:
                    store_target(s.target, s.value, s, env, live)
                elif isinstance(s, ast.AugAssign):
                    store_target(s.target, aug_value(s), s, env, live)
                calls_in_stmt(s, env, live)
    walk(fn.body, {}, True)
    # dynamic stores the walk above did not account for
    for x in func_own_nodes(fn):
        if id(x) in handled:
            continue
        if isinstance(x, ast.Call) and ((isinstance(x.func, ast.Name) and x.func.id == "setattr" and x.args and is_self(x.args[0]))
                                        or (isinstance(x.func, ast.Attribute) and x.func.attr == "__setattr__")):
            opaque.append(x)
        elif isinstance(x, ast.Attribute) and x.attr == "__dict__" and is_self(x.value):
            opaque.append(x)
        elif isinstance(x, ast.Call) and isinstance(x.func, ast.Name) and x.func.id == "vars" and x.args and is_self(x.args[0]):
            opaque.append(x)
    return recs, opaque


def _descendants(fn):
    out = []
    work = list(fn.nested.values())
    while work:
        f = work.pop()
        out.append(f)
        work.extend(f.nested.values())
    return out


def _from_node_to_exit_avoiding(cfg, start, gate):
    """Witnesses of paths from `start` to the normal exit that never leave a node satisfying gate."""
    def tr(n, lab, nxt, st):
        if lab == "exc" or infeasible(n, lab) or (n is not start and gate(n)):
            return None
        return 0
    visited, parent = explore(cfg, 0, tr, start=start)
    return [witness(cfg, parent, (nid, st)) for (nid, st) in sorted(visited) if cfg.nodes[nid].kind == "exit"]
